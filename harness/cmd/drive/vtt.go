package main

import (
	"bufio"
	"bytes"
	"encoding/json"
	"flag"
	"os"
	"time"

	astisub "github.com/asticode/go-astisub"
	"verif/harness/internal/run"
	"verif/harness/internal/vttx"
)

func init() {
	cmds["vtt"] = cmdVtt
}

type vttCase struct {
	G vttx.Truth `json:"g"`
	D vttx.Doc   `json:"d"`
}

type vttEvent struct {
	N    int        `json:"n"`
	Dir  string     `json:"dir"`
	G    vttx.Truth `json:"g"`
	D    vttx.Doc   `json:"d"`
	Post vttx.Truth `json:"post"`
	Res  string     `json:"res"`
	Msg  string     `json:"msg"`
	Raw  string     `json:"raw"`
	// what the hook at the top of the reader's main loop reported, one entry per scanned line
	Hooks []vttHook `json:"hooks"`
}

type vttHook struct {
	N        int    `json:"n"`
	Items    int    `json:"items"`
	Block    string `json:"block"`
	Tags     int    `json:"tags"`
	Comments int    `json:"comments"`
}

func vttRead(n int, c vttCase) vttEvent {
	p := vttx.PoolFor(n)
	c.G.Norm()
	c.D.Norm()
	ev := vttEvent{N: n, Dir: "read", G: c.G, D: c.D, Hooks: []vttHook{}}
	ev.Post.Norm()
	raw := vttx.Concretise(c.D, p)
	dumpDoc("vtt", n, raw)
	ev.Raw = string(raw)
	var s *astisub.Subtitles
	var err error
	rd := bytes.NewReader(raw)
	astisub.VerifHook = func(site string, key interface{}, kv ...interface{}) {
		if site == "vtt.line" && key == interface{}(rd) && len(kv) == 5 {
			ev.Hooks = append(ev.Hooks, vttHook{kv[0].(int), kv[1].(int), kv[2].(string), kv[3].(int), kv[4].(int)})
		}
	}
	ev.Res, ev.Msg = run.Guard(10*time.Second, func() { s, err = astisub.ReadFromWebVTT(rd) })
	astisub.VerifHook = nil
	if ev.Res == "ok" && err != nil {
		ev.Res, ev.Msg = "err", err.Error()
	}
	if ev.Res == "ok" {
		ev.Post = vttx.Project(s, p)
	}
	return ev
}

func vttWrite(n int, g vttx.Truth) vttEvent {
	p := vttx.PoolFor(n)
	g.Norm()
	ev := vttEvent{N: n, Dir: "write", G: g, Hooks: []vttHook{}}
	ev.D.Norm()
	ev.Post.Norm()
	s := vttx.Build(g, p)
	var buf bytes.Buffer
	var err error
	ev.Res, ev.Msg = run.Guard(10*time.Second, func() { err = s.WriteToWebVTT(&buf) })
	if ev.Res == "ok" && err != nil {
		ev.Res, ev.Msg = "err", err.Error()
	}
	if ev.Res != "ok" {
		return ev
	}
	ev.Raw = buf.String()
	ev.D = vttx.Lex(buf.Bytes(), p)
	ev.D.Norm()
	var s2 *astisub.Subtitles
	res, msg := run.Guard(10*time.Second, func() { s2, err = astisub.ReadFromWebVTT(bytes.NewReader(buf.Bytes())) })
	if res != "ok" || err != nil {
		ev.Res, ev.Msg = "reread-failed", msg
		if err != nil {
			ev.Msg = err.Error()
		}
		return ev
	}
	ev.Post = vttx.Project(s2, p)
	return ev
}

func cmdVtt(args []string) error {
	fs := flag.NewFlagSet("vtt", flag.ExitOnError)
	in := fs.String("cases", "", "cases ndjson ({g,d} pairs)")
	out := fs.String("out", "", "trace ndjson")
	n0 := fs.Int("n0", 0, "first case number")
	fs.Int64("seed", 1, "unused")
	fs.Int("num", 0, "unused")
	fs.Parse(args)
	o, err := os.Create(*out)
	if err != nil {
		return err
	}
	defer o.Close()
	bw := bufio.NewWriterSize(o, 1<<20)
	defer bw.Flush()
	enc := json.NewEncoder(bw)
	n := *n0
	seenG := map[string]bool{}
	if *in == "" {
		return nil
	}
	f, err := os.Open(*in)
	if err != nil {
		return err
	}
	defer f.Close()
	sc := bufio.NewScanner(f)
	sc.Buffer(make([]byte, 1<<20), 1<<26)
	for sc.Scan() {
		var c vttCase
		if err := json.Unmarshal(sc.Bytes(), &c); err != nil {
			return err
		}
		n++
		if err := enc.Encode(vttRead(n, c)); err != nil {
			return err
		}
		gb, _ := json.Marshal(c.G)
		key := string(gb) + "/" + string(rune('0'+n%4))
		if !seenG[key] {
			seenG[key] = true
			if err := enc.Encode(vttWrite(n, c.G)); err != nil {
				return err
			}
		}
	}
	return sc.Err()
}
