package main

import (
	"bufio"
	"encoding/json"
	"flag"
	"math/rand"
	"os"
	"time"

	astisub "github.com/asticode/go-astisub"
	"verif/harness/internal/bigx"
	"verif/harness/internal/opsx"
	"verif/harness/internal/run"
)

func init() {
	cmds["linear"] = cmdLinear
}

type linCase struct {
	A1   int64     `json:"a1"`
	D1   int64     `json:"d1"`
	A2   int64     `json:"a2"`
	D2   int64     `json:"d2"`
	Cues [][]int64 `json:"cues"`
}

type linQ struct {
	A1 bigx.Big `json:"a1"`
	D1 bigx.Big `json:"d1"`
	A2 bigx.Big `json:"a2"`
	D2 bigx.Big `json:"d2"`
}
type linB struct {
	T bigx.Big `json:"t"`
	U bigx.Big `json:"u"`
}
type linEvent struct {
	N         int     `json:"n"`
	Q         linQ    `json:"q"`
	Bs        []linB  `json:"bs"`
	IdsPre    []int   `json:"idsPre"`
	IdsPost   []int   `json:"idsPost"`
	ContentOK bool    `json:"contentOK"`
	Res       string  `json:"res"`
	Msg       string  `json:"msg"`
	Unit      int64   `json:"unit"`
	Raw       []int64 `json:"raw"`
}

func execLinear(n int, c linCase, unit int64) linEvent {
	ev := linEvent{N: n, Unit: unit, Bs: []linB{}, IdsPre: []int{}, IdsPost: []int{}}
	a1, d1, a2, d2 := c.A1*unit, c.D1*unit, c.A2*unit, c.D2*unit
	ev.Q = linQ{bigx.FromInt64(a1), bigx.FromInt64(d1), bigx.FromInt64(a2), bigx.FromInt64(d2)}
	ev.Raw = []int64{a1, d1, a2, d2}
	s := astisub.NewSubtitles()
	st := &astisub.Style{ID: "st"}
	rg := &astisub.Region{ID: "rg"}
	s.Styles["st"], s.Regions["rg"] = st, rg
	for i, p := range c.Cues {
		it := &astisub.Item{Index: i + 1, StartAt: time.Duration(p[0] * unit), EndAt: time.Duration(p[1] * unit),
			Style: st, Region: rg, Comments: []string{"c"},
			Lines: []astisub.Line{{VoiceName: "v", Items: []astisub.LineItem{{Text: "hello", InlineStyle: &astisub.StyleAttributes{SRTBold: true}}}}}}
		s.Items = append(s.Items, it)
		ev.IdsPre = append(ev.IdsPre, it.Index)
	}
	snap := opsx.DeepCopy(s).(*astisub.Subtitles)
	ptrs := append([]*astisub.Item{}, s.Items...)
	ev.Res, ev.Msg = run.Guard(10*time.Second, func() {
		s.ApplyLinearCorrection(time.Duration(a1), time.Duration(d1), time.Duration(a2), time.Duration(d2))
	})
	if ev.Res != "ok" {
		return ev
	}
	ev.ContentOK = len(s.Items) == len(ptrs) && opsx.SameExceptTimes(s, snap)
	for i, it := range s.Items {
		ev.IdsPost = append(ev.IdsPost, it.Index)
		if i < len(ptrs) && it != ptrs[i] {
			ev.ContentOK = false
		}
		if i < len(c.Cues) {
			ev.Bs = append(ev.Bs, linB{bigx.FromInt64(c.Cues[i][0] * unit), bigx.FromInt64(int64(it.StartAt))},
				linB{bigx.FromInt64(c.Cues[i][1] * unit), bigx.FromInt64(int64(it.EndAt))})
		}
	}
	return ev
}

var linUnits = []int64{1, 1000, 1000000, 1000000000, 3600000000000}

func cmdLinear(args []string) error {
	fs := flag.NewFlagSet("linear", flag.ExitOnError)
	in := fs.String("cases", "", "cases ndjson (omit for the random driver)")
	out := fs.String("out", "", "trace ndjson")
	seed := fs.Int64("seed", 1, "seed")
	num := fs.Int("num", 100, "random cases")
	n0 := fs.Int("n0", 0, "first case number")
	fs.Parse(args)
	o, err := os.Create(*out)
	if err != nil {
		return err
	}
	defer o.Close()
	bw := bufio.NewWriterSize(o, 1<<20)
	defer bw.Flush()
	enc := json.NewEncoder(bw)
	n := *n0
	if *in != "" {
		f, err := os.Open(*in)
		if err != nil {
			return err
		}
		defer f.Close()
		sc := bufio.NewScanner(f)
		sc.Buffer(make([]byte, 1<<20), 1<<26)
		for sc.Scan() {
			var c linCase
			if err := json.Unmarshal(sc.Bytes(), &c); err != nil {
				return err
			}
			for _, u := range linUnits {
				n++
				if err := enc.Encode(execLinear(n, c, u)); err != nil {
					return err
				}
			}
		}
		return sc.Err()
	}
	// random driver: boundaries uniformly in [0,24h] at ns resolution; slopes incl. the NTSC/PAL ratios
	r := rand.New(rand.NewSource(*seed))
	day := int64(24 * time.Hour)
	slopes := [][2]int64{{25000, 23976}, {23976, 25000}, {30000, 29970}, {29970, 30000}, {1, 2}, {2, 1}, {3, 2}, {2, 3}, {1, 1}}
	for i := 0; i < *num; i++ {
		n++
		var c linCase
		c.A1 = r.Int63n(day + 1)
		for {
			c.A2 = r.Int63n(day + 1)
			if c.A2 != c.A1 {
				break
			}
		}
		if r.Intn(6) == 0 {
			c.A2 = c.A1 + 1 + r.Int63n(1000) // reference points very close to each other
		}
		c.D1 = c.A1 + r.Int63n(int64(2*time.Hour)) - int64(time.Hour)
		var num_, den int64
		if i%5 == 4 {
			// a slow drift: a slope within a few parts per million of 1 (a clock that gains milliseconds per hour), far
			// reference points
			den = 1000000000
			num_ = den + r.Int63n(4001) - 2000
			if num_ == den {
				num_ = den + 830
			}
			if c.A2-c.A1 < int64(time.Hour) && c.A1-c.A2 < int64(time.Hour) {
				c.A2 = (c.A1 + int64(3*time.Hour)) % (day + 1)
				if c.A2 == c.A1 {
					c.A2 = c.A1 + int64(time.Hour)
				}
			}
		} else if r.Intn(3) == 0 {
			den = 1000000
			num_ = 500000 + r.Int63n(1500001) // slope in [0.5, 2]
		} else {
			sl := slopes[r.Intn(len(slopes))]
			num_, den = sl[0], sl[1]
		}
		// d2 - d1 = round(slope * (a2 - a1)) computed in integers
		da := c.A2 - c.A1
		c.D2 = c.D1 + mulDivRound(da, num_, den)
		if c.D2 == c.D1 {
			c.D2 = c.D1 + 1
		}
		k := r.Intn(12)
		for j := 0; j < k; j++ {
			s := r.Int63n(day + 1)
			e := s + r.Int63n(int64(10*time.Second))
			if e > day {
				e = day
			}
			switch r.Intn(10) {
			case 0:
				s = c.A1
				if e < s {
					e = s
				}
			case 1:
				e = c.A2
				if e < s {
					s = e
				}
			case 2:
				s, e = 0, day
			}
			c.Cues = append(c.Cues, []int64{s, e})
		}
		if err := enc.Encode(execLinear(n, c, 1)); err != nil {
			return err
		}
	}
	return nil
}

func mulDivRound(a, num, den int64) int64 {
	// a*num/den without overflow for |a| <= 2^47, num <= 2^21
	q, rem := a/den, a%den
	return q*num + (rem*num+den/2)/den
}
