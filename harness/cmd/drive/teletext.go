package main

import (
	"bufio"
	"bytes"
	"encoding/json"
	"errors"
	"flag"
	"fmt"
	"io/ioutil"
	"os"
	"path/filepath"
	"time"

	astisub "github.com/asticode/go-astisub"
	"verif/harness/internal/run"
	"verif/harness/internal/tsx"
)

func init() {
	cmds["teletext"] = cmdTeletext
}

type ttxOpt struct {
	Page int `json:"page"`
	Pid  int `json:"pid"` // pid selector of the spec: 0 first teletext PID, 1 second, 2 non-teletext
}

type ttxCase struct {
	St tsx.Stream `json:"st"`
	Op ttxOpt     `json:"op"`
}

type ttxEvent struct {
	N      int        `json:"n"`
	St     tsx.Stream `json:"st"`
	Op     ttxOpt     `json:"op"`
	PidOpt string     `json:"pidopt"` // auto | given
	Post   []tsx.Cue  `json:"post"`
	Hooks  [][5]int   `json:"hooks"` // per packet reaching the dispatcher: magazine, packet number, receiving (0/1), selected magazine, selected page (hex digits)
	Nopid  bool       `json:"nopid"` // the reader reported ErrNoValidTeletextPID
	Res    string     `json:"res"`
	Msg    string     `json:"msg"`
}

func ttxRun(n int, c ttxCase, pidGiven bool) ttxEvent {
	c.St.Norm()
	ev := ttxEvent{N: n, St: c.St, Op: c.Op, PidOpt: "auto", Post: []tsx.Cue{}, Hooks: [][5]int{}}
	data, err := tsx.Build(c.St)
	if err != nil {
		ev.Res, ev.Msg = "build-failed", err.Error()
		return ev
	}
	o := astisub.TeletextOptions{Page: c.Op.Page}
	if pidGiven || c.Op.Pid != 0 {
		ev.PidOpt = "given"
		o.PID = []int{tsx.PidA, tsx.PidB, tsx.PidOther}[c.Op.Pid]
	}
	var s *astisub.Subtitles
	astisub.VerifHook = func(site string, key interface{}, kv ...interface{}) {
		if site == "ttx.packet" && len(kv) == 5 {
			r := 0
			if kv[2].(bool) {
				r = 1
			}
			ev.Hooks = append(ev.Hooks, [5]int{kv[0].(int), kv[1].(int), r, kv[3].(int), kv[4].(int)})
		}
	}
	ev.Res, ev.Msg = run.Guard(20*time.Second, func() { s, err = astisub.ReadFromTeletext(bytes.NewReader(data), o) })
	astisub.VerifHook = nil
	if ev.Res == "ok" && err != nil {
		ev.Res, ev.Msg = "err", err.Error()
		ev.Nopid = errors.Is(err, astisub.ErrNoValidTeletextPID)
	}
	if ev.Res == "ok" {
		ev.Post = tsx.Project(s)
	}
	return ev
}

func cmdTeletext(args []string) error {
	fs := flag.NewFlagSet("teletext", flag.ExitOnError)
	in := fs.String("cases", "", "cases ndjson ({st, op})")
	out := fs.String("out", "", "trace ndjson")
	n0 := fs.Int("n0", 0, "first case number")
	dump := fs.String("dump", "", "also write some of the streams as .ts files into this directory")
	dumpAll := fs.Bool("dumpall", false, "write every stream, not one in four")
	fs.Int64("seed", 1, "unused")
	fs.Int("num", 0, "unused")
	fs.Parse(args)
	o, err := os.Create(*out)
	if err != nil {
		return err
	}
	defer o.Close()
	bw := bufio.NewWriterSize(o, 1<<20)
	defer bw.Flush()
	enc := json.NewEncoder(bw)
	if *in == "" {
		return nil
	}
	f, err := os.Open(*in)
	if err != nil {
		return err
	}
	defer f.Close()
	sc := bufio.NewScanner(f)
	sc.Buffer(make([]byte, 1<<20), 1<<26)
	n := *n0
	ci := 0
	for sc.Scan() {
		var c ttxCase
		if err := json.Unmarshal(sc.Bytes(), &c); err != nil {
			return err
		}
		n++
		if err := enc.Encode(ttxRun(n, c, false)); err != nil {
			return err
		}
		if c.Op.Pid == 0 {
			// the same stream with the PID given explicitly
			n++
			if err := enc.Encode(ttxRun(n, c, true)); err != nil {
				return err
			}
		}
		ci++
		if *dump != "" && (*dumpAll || ci%4 == 1) && ci < 40 {
			c.St.Norm()
			if b, err := tsx.Build(c.St); err == nil {
				ioutil.WriteFile(filepath.Join(*dump, fmt.Sprintf("gen%d-%d.ts", *n0, ci)), b, 0o644)
			}
		}
	}
	return sc.Err()
}
