package main

import (
	"bufio"
	"bytes"
	"encoding/json"
	"flag"
	"os"
	"time"

	astisub "github.com/asticode/go-astisub"
	"verif/harness/internal/run"
	"verif/harness/internal/ttmlx"
)

func init() {
	cmds["ttml"] = cmdTtml
}

type ttmlCase struct {
	G ttmlx.Truth `json:"g"`
	D ttmlx.Doc   `json:"d"`
}

type ttmlEvent struct {
	N      int         `json:"n"`
	Dir    string      `json:"dir"`
	Indent string      `json:"indent"` // write: the indent option used
	G      ttmlx.Truth `json:"g"`
	D      ttmlx.Doc   `json:"d"`
	Post   ttmlx.Read  `json:"post"`
	Res    string      `json:"res"`
	Msg    string      `json:"msg"`
	Raw    string      `json:"raw"`
}

func ttmlRead(n int, c ttmlCase) ttmlEvent {
	p := ttmlx.PoolFor(n)
	c.G.Norm()
	c.D.Norm()
	ev := ttmlEvent{N: n, Dir: "read", G: c.G, D: c.D}
	ev.Post.Norm()
	raw := ttmlx.Concretise(c.D, p, n)
	dumpDoc("ttml", n, raw)
	ev.Raw = string(raw)
	var s *astisub.Subtitles
	var err error
	ev.Res, ev.Msg = run.Guard(10*time.Second, func() { s, err = astisub.ReadFromTTML(bytes.NewReader(raw)) })
	if ev.Res == "ok" && err != nil {
		ev.Res, ev.Msg = "err", err.Error()
	}
	if ev.Res == "ok" {
		ev.Post = ttmlx.Project(s, p)
	}
	return ev
}

var ttmlIndents = []string{"default", "", "\t", "  ", "keys"}

func ttmlWrite(n int, g ttmlx.Truth, indent string) ttmlEvent {
	p := ttmlx.PoolFor(n)
	g.Norm()
	ev := ttmlEvent{N: n, Dir: "write", G: g, Indent: indent}
	ev.D.Norm()
	ev.Post.Norm()
	s := ttmlx.Build(g, p)
	if indent == "keys" {
		// the same list with its definitions stored under map keys that differ from their identifiers: what a style
		// or region is called is its ID, the key is only where the map keeps it
		st, rg := s.Styles, s.Regions
		s.Styles, s.Regions = map[string]*astisub.Style{}, map[string]*astisub.Region{}
		for k, v := range st {
			s.Styles["key-"+k] = v
		}
		for k, v := range rg {
			s.Regions["key-"+k] = v
		}
		indent = "default"
	}
	var buf bytes.Buffer
	var err error
	ev.Res, ev.Msg = run.Guard(10*time.Second, func() {
		if indent == "default" {
			err = s.WriteToTTML(&buf)
		} else {
			err = s.WriteToTTML(&buf, astisub.WriteToTTMLWithIndentOption(indent))
		}
	})
	if ev.Res == "ok" && err != nil {
		ev.Res, ev.Msg = "err", err.Error()
	}
	if ev.Res != "ok" {
		return ev
	}
	ev.Raw = buf.String()
	d, lerr := ttmlx.Lex(buf.Bytes(), p)
	if lerr != nil {
		ev.Res, ev.Msg = "not-well-formed-xml", lerr.Error()
		return ev
	}
	ev.D = d
	var s2 *astisub.Subtitles
	res, msg := run.Guard(10*time.Second, func() { s2, err = astisub.ReadFromTTML(bytes.NewReader(buf.Bytes())) })
	if res != "ok" || err != nil {
		ev.Res, ev.Msg = "reread-failed", msg
		if err != nil {
			ev.Msg = err.Error()
		}
		return ev
	}
	ev.Post = ttmlx.Project(s2, p)
	return ev
}

func cmdTtml(args []string) error {
	fs := flag.NewFlagSet("ttml", flag.ExitOnError)
	in := fs.String("cases", "", "cases ndjson ({g,d} pairs)")
	out := fs.String("out", "", "trace ndjson")
	n0 := fs.Int("n0", 0, "first case number")
	fs.Int64("seed", 1, "unused")
	fs.Int("num", 0, "unused")
	fs.Parse(args)
	o, err := os.Create(*out)
	if err != nil {
		return err
	}
	defer o.Close()
	bw := bufio.NewWriterSize(o, 1<<20)
	defer bw.Flush()
	enc := json.NewEncoder(bw)
	if *in == "" {
		return nil
	}
	f, err := os.Open(*in)
	if err != nil {
		return err
	}
	defer f.Close()
	sc := bufio.NewScanner(f)
	sc.Buffer(make([]byte, 1<<20), 1<<26)
	n := *n0
	seenG := map[string]bool{}
	for sc.Scan() {
		var c ttmlCase
		if err := json.Unmarshal(sc.Bytes(), &c); err != nil {
			return err
		}
		n++
		if err := enc.Encode(ttmlRead(n, c)); err != nil {
			return err
		}
		gb, _ := json.Marshal(c.G)
		key := string(gb) + "/" + string(rune('0'+n%3))
		if !seenG[key] {
			seenG[key] = true
			for _, ind := range ttmlIndents {
				if err := enc.Encode(ttmlWrite(n, c.G, ind)); err != nil {
					return err
				}
			}
		}
	}
	return sc.Err()
}
