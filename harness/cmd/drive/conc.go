package main

import (
	"bufio"
	"bytes"
	"encoding/json"
	"flag"
	"fmt"
	"io/ioutil"
	"math/rand"
	"os"
	"os/exec"
	"path/filepath"
	"runtime"
	"sort"
	"strconv"
	"strings"
	"sync"
	"time"
	"verif/harness/internal/stlx"

	astisub "github.com/asticode/go-astisub"
	"verif/harness/internal/project"
)

func init() {
	cmds["conc"] = cmdConc
}

// a call on private data; key identifies it at the hook sites (the io.Reader handed to a reader), nil for calls
// without instrumented sites
type concCall struct {
	label string
	key   interface{}
	run   func() string
}

// catalogue of independent operations; every invocation of mk builds fresh private data
type concOp struct {
	label string
	mk    func() concCall
}

func catalogue() []concOp {
	var ops []concOp
	docs := testdataDocs()
	docs = append(docs, extraDocs(os.Getenv("VERIF_EXTRA_DOCS"))...)
	docs = append(docs, stateLeavingDocs()...)
	every := 3
	if v, err := strconv.Atoi(os.Getenv("VERIF_CONC_EVERY")); err == nil && v > 0 {
		every = v
	}
	for di, d := range docs {
		d := d
		if len(d.Data) > 4000 {
			continue
		}
		// the repository's samples and (quick tier) one generated document in three
		// (the streams with and without a character-set designation - family D, numbered from 68 - are all kept: they
		// differ in nothing else)
		if strings.HasPrefix(d.Name, "x:") && di%every != 0 && !strings.HasPrefix(d.Name, "x:gen68-") {
			continue
		}
		ops = append(ops, concOp{"read-" + d.Fmt + ":" + d.Name, func() concCall {
			r := bytes.NewReader(append([]byte{}, d.Data...))
			c := concCall{label: "read-" + d.Fmt + ":" + d.Name, key: r}
			c.run = func() string {
				s, err := readDoc(d.Fmt, r)
				if err != nil {
					return "ERR"
				}
				return project.Digest(s)
			}
			return c
		}})
	}
	// every small readable document converted by every writer (real texts: accents, entities, styling), plus
	// synthetic documents over character classes (precomposed and decomposed accents, non-BMP, markup characters)
	conv := append([]doc{}, docs...)
	for i, t := range []string{"caf\u00e9 na\u00efve \u00fcber se\u00f1or \u010desk\u00fd \u00e5ngstr\u00f6m", "e\u0301 a\u0308 plain ascii", "\u00c6\u00e6\u00d8\u00f8 \u00a3 \u00a7 <b>bold \u00e9</b> & \u201cquotes\u201d", "\U0001F600 \u4e2d\u6587 \u00e9\u00e8\u00ea"} {
		var b bytes.Buffer
		for k := 0; k < 3; k++ {
			fmt.Fprintf(&b, "%d\n00:00:%02d,000 --> 00:00:%02d,500\n%s %d\nsecond \u00e0 line\n\n", k+1, 2*k+1, 2*k+2, t, k)
		}
		conv = append(conv, doc{Name: fmt.Sprintf("texts%d.srt", i), Fmt: "srt", Data: b.Bytes()})
	}
	for ci, d := range conv {
		d := d
		if len(d.Data) > 4000 {
			continue
		}
		// every document is read concurrently (above); one generated document in eight is also converted
		if strings.HasPrefix(d.Name, "x:") && ci%(8*every/3+1) != 0 {
			continue
		}
		// (nothing is read while the catalogue is built: a process must not have seen a document before the call
		// that is being observed reads it)
		for _, f := range writeFormats {
			f := f
			label := "write-" + f + ":from-" + d.Name
			ops = append(ops, concOp{label, func() concCall {
				s, rerr := readDoc(d.Fmt, bytes.NewReader(d.Data))
				return concCall{label: label, run: func() string {
					if rerr != nil || s == nil {
						return "ERR"
					}
					var b bytes.Buffer
					if err := writeDoc(f, s, &b); err != nil {
						return "ERR"
					}
					return dig(b.Bytes())
				}}
			}})
		}
	}
	rr := rand.New(rand.NewSource(7))
	for i, wc := range []wCase{
		{Styles: []wStyle{{Attrs: []int{1, 2}, Css: []int{1}}, {Attrs: []int{3}, Css: []int{2}}}, Regions: [][]int{{1}, {1, 2}}, Meta: true},
		{Styles: []wStyle{{Attrs: []int{4}}}, Meta: false},
	} {
		wc, i := wc, i
		for _, f := range writeFormats {
			f := f
			ops = append(ops, concOp{fmt.Sprintf("write-%s:list%d", f, i), func() concCall {
				s := buildW(wc, rand.New(rand.NewSource(int64(i))))
				return concCall{label: fmt.Sprintf("write-%s:list%d", f, i), run: func() string {
					var b bytes.Buffer
					if err := writeDoc(f, s, &b); err != nil {
						return "ERR"
					}
					return dig(b.Bytes())
				}}
			}})
		}
		// a write with options of the caller's own: they belong to that call alone
		ops = append(ops, concOp{fmt.Sprintf("write-ttml-indent:list%d", i), func() concCall {
			s := buildW(wc, rand.New(rand.NewSource(int64(i))))
			return concCall{label: fmt.Sprintf("write-ttml-indent:list%d", i), run: func() string {
				var b bytes.Buffer
				if err := s.WriteToTTML(&b, astisub.WriteToTTMLWithIndentOption("\t")); err != nil {
					return "ERR"
				}
				return dig(b.Bytes())
			}}
		}})
		ops = append(ops, concOp{fmt.Sprintf("transform:list%d", i), func() concCall {
			s := buildW(wc, rand.New(rand.NewSource(int64(i))))
			s2 := buildW(wc, rand.New(rand.NewSource(int64(i+1))))
			return concCall{label: fmt.Sprintf("transform:list%d", i), run: func() string {
				s.Add(500 * time.Millisecond)
				s.Fragment(700 * time.Millisecond)
				s.Unfragment()
				s.Merge(s2)
				s.Order()
				s.ApplyLinearCorrection(time.Second, 2*time.Second, 5*time.Second, 7*time.Second)
				s.Optimize()
				s.ForceDuration(20*time.Second, true)
				d1 := project.Digest(s)
				s.RemoveStyling()
				return d1 + project.Digest(s)
			}}
		}})
	}
	// the file helper on sibling destinations: the same list written to movie.srt, movie.vtt, ... of one directory by
	// independent calls (what a batch converter does)
	for _, f := range writeFormats {
		f := f
		ops = append(ops, concOp{"filewrite:movie." + f, func() concCall {
			s := buildW(wCase{Styles: []wStyle{{Attrs: []int{1}}}, Meta: true}, rand.New(rand.NewSource(3)))
			return concCall{label: "filewrite:movie." + f, run: func() string {
				path := filepath.Join(siblingDir(), "movie."+f)
				if err := s.Write(path); err != nil {
					return "ERR"
				}
				b, err := ioutil.ReadFile(path)
				if err != nil {
					return "ERR"
				}
				if f == "stl" && len(b) >= 1024 {
					return dig(b[:224]) + dig(b[236:]) // without the two dates of the GSI block
				}
				return dig(b)
			}}
		}})
	}
	_ = rr
	return ops
}

var (
	siblingOnce sync.Once
	siblingPath string
)

// siblingDir: one directory per process for the filewrite operations
func siblingDir() string {
	siblingOnce.Do(func() {
		siblingPath, _ = ioutil.TempDir("", "verif-siblings-")
	})
	return siblingPath
}

// malformedDocs: documents every reader rejects, each at another line and for another reason
func malformedDocs() []doc {
	return []doc{
		{Name: "noend.srt", Fmt: "srt", Data: []byte("1\n00:00:01,000 -->\nHello\n")},
		{Name: "noend.vtt", Fmt: "vtt", Data: []byte("WEBVTT\n\nNOTE one\n\n1\n00:00:01.000 --> 00:00:02.000\nfine\n\n00:00:03.000 -->\nHello\n")},
		{Name: "badtime.srt", Fmt: "srt", Data: []byte("1\n00:00:01,000 --> 00:00:02,000\nfine\n\n2\n00:0x:03,000 --> 00:00:04,000\nHello\n")},
		{Name: "badtime.vtt", Fmt: "vtt", Data: []byte("WEBVTT\n\n00:00:0y.000 --> 00:00:02.000\nHello\n")},
		{Name: "unkregion.vtt", Fmt: "vtt", Data: []byte("WEBVTT\n\n\n\n00:00:01.000 --> 00:00:02.000 region:nowhere\nHello\n")},
		{Name: "badtime.ssa", Fmt: "ssa", Data: []byte("[Script Info]\n\n[Events]\nFormat: Marked, Start, End, Style, Name, MarginL, MarginR, MarginV, Effect, Text\nDialogue: Marked=0,0:00:0z.00,0:00:02.00,,,0,0,0,,Hello\n")},
		{Name: "nobegin.ttml", Fmt: "ttml", Data: []byte(`<tt xmlns="http://www.w3.org/ns/ttml"><body><div><p end="00:00:02.000">Hello</p></div></body></tt>`)},
		{Name: "short.stl", Fmt: "stl", Data: []byte("850STL25.01")},
	}
}

type aliasProbe struct {
	label string
	mk    func() *astisub.Subtitles
}

// aliasProbes: calls that allocate what they return (readers, the operations that add cues)
func aliasProbes() []aliasProbe {
	var out []aliasProbe
	for _, d := range testdataDocs() {
		d := d
		if len(d.Data) > 20000 {
			continue
		}
		out = append(out, aliasProbe{"read-" + d.Fmt + ":" + d.Name, func() *astisub.Subtitles {
			s, _ := readDoc(d.Fmt, bytes.NewReader(d.Data))
			return s
		}})
	}
	list := func() *astisub.Subtitles {
		s := astisub.NewSubtitles()
		for i := 0; i < 3; i++ {
			s.Items = append(s.Items, &astisub.Item{StartAt: time.Duration(3*i) * time.Second, EndAt: time.Duration(3*i+2) * time.Second,
				Lines: []astisub.Line{{Items: []astisub.LineItem{{Text: "text"}}}}})
		}
		return s
	}
	out = append(out, aliasProbe{"forceduration-filler", func() *astisub.Subtitles { s := list(); s.ForceDuration(30*time.Second, true); return s }})
	out = append(out, aliasProbe{"fragment-pieces", func() *astisub.Subtitles { s := list(); s.Fragment(time.Second); return s }})
	out = append(out, aliasProbe{"new-subtitles", func() *astisub.Subtitles { return astisub.NewSubtitles() }})
	return out
}

// scribble overwrites what is reachable from s: cue times, texts, run attributes, definitions, metadata
func scribble(s *astisub.Subtitles) {
	if s == nil {
		return
	}
	sa := func(a *astisub.StyleAttributes) {
		if a != nil {
			a.SSAFontName, a.WebVTTAlign, a.SRTBold = "scribbled", "scribbled", !a.SRTBold
			for i := range a.WebVTTTags {
				a.WebVTTTags[i].Name = "scribbled"
			}
			for i := range a.WebVTTStyles {
				a.WebVTTStyles[i] = "scribbled"
			}
		}
	}
	for _, it := range s.Items {
		if it == nil {
			continue
		}
		it.StartAt, it.EndAt = -1, -1
		sa(it.InlineStyle)
		for i := range it.Comments {
			it.Comments[i] = "scribbled"
		}
		for i := range it.Lines {
			it.Lines[i].VoiceName = "scribbled"
			for j := range it.Lines[i].Items {
				it.Lines[i].Items[j].Text = "scribbled"
				it.Lines[i].Items[j].StartAt = -1
				sa(it.Lines[i].Items[j].InlineStyle)
				it.Lines[i].Items[j].InlineStyle = &astisub.StyleAttributes{SSAFontName: "scribbled"}
			}
		}
	}
	for k, st := range s.Styles {
		if st != nil {
			st.ID = "scribbled"
			sa(st.InlineStyle)
		}
		delete(s.Styles, k)
	}
	for k, rg := range s.Regions {
		if rg != nil {
			rg.ID = "scribbled"
			sa(rg.InlineStyle)
		}
		delete(s.Regions, k)
	}
	if s.Metadata != nil {
		s.Metadata.Title, s.Metadata.Language = "scribbled", "scribbled"
		for i := range s.Metadata.Comments {
			s.Metadata.Comments[i] = "scribbled"
		}
	}
}

// stateLeavingDocs: pairs of small documents of one format of which the first ends in the middle of something a
// decoder keeps between characters, lines or packets (a floating accent without its letter, an emphasis tag that is
// never closed) and the second would show it if that something outlived the call.
func stateLeavingDocs() []doc {
	tti := func(text []int, sec int) stlx.TTI {
		return stlx.TTI{Ebn: 255, Tci: [4]int{0, 0, sec, 0}, Tco: [4]int{0, 0, sec + 1, 0}, Vp: 20, Jc: 2, Tf: text}
	}
	codes := func(s string, extra ...int) []int {
		var o []int
		for _, c := range []byte(s) {
			o = append(o, int(c))
		}
		return append(o, extra...)
	}
	a := stlx.Pack(stlx.Doc{Fps: 25, Dsc: 0, Meta: map[string]int{"mnr": 23, "mnc": 40}, Ttis: []stlx.TTI{tti(codes("first"), 1), tti(codes("caf", 0xc2), 3)}})
	b := stlx.Pack(stlx.Doc{Fps: 25, Dsc: 0, Meta: map[string]int{"mnr": 23, "mnc": 40}, Ttis: []stlx.TTI{tti(codes("event"), 1), tti(codes("again"), 3)}})
	return []doc{
		{Name: "leave-a.stl", Fmt: "stl", Data: a},
		{Name: "leave-b.stl", Fmt: "stl", Data: b},
		{Name: "leave-a.srt", Fmt: "srt", Data: []byte("1\n00:00:01,000 --> 00:00:02,000\n<i><font color=\"#ff0000\">never closed\n")},
		{Name: "leave-b.srt", Fmt: "srt", Data: []byte("1\n00:00:01,000 --> 00:00:02,000\nplain text\n")},
		{Name: "leave-a.vtt", Fmt: "vtt", Data: []byte("WEBVTT\n\n00:00:01.000 --> 00:00:02.000\n<b><c.loud>never closed\n")},
		{Name: "leave-b.vtt", Fmt: "vtt", Data: []byte("WEBVTT\n\n00:00:01.000 --> 00:00:02.000\nplain text\n")},
	}
}

// gate forces an interleaving: schedule entry c lets call c run until its next instrumented site
type gate struct {
	mu       sync.Mutex
	cond     *sync.Cond
	keys     map[interface{}]int
	sched    []int
	pos      int
	done     map[int]bool
	released bool
	steps    int
}

func newGate(sched []int) *gate {
	g := &gate{keys: map[interface{}]int{}, sched: sched, done: map[int]bool{}}
	g.cond = sync.NewCond(&g.mu)
	return g
}

func (g *gate) skipDone() {
	for g.pos < len(g.sched) && g.done[g.sched[g.pos]] {
		g.pos++
	}
}

func (g *gate) wait(idx int) {
	g.mu.Lock()
	defer g.mu.Unlock()
	for {
		g.skipDone()
		if g.released || g.pos >= len(g.sched) {
			return
		}
		if g.sched[g.pos] == idx {
			g.pos++
			g.steps++
			g.cond.Broadcast()
			return
		}
		g.cond.Wait()
	}
}

func (g *gate) finish(idx int) {
	g.mu.Lock()
	g.done[idx] = true
	g.skipDone()
	g.cond.Broadcast()
	g.mu.Unlock()
}

func (g *gate) release() {
	g.mu.Lock()
	g.released = true
	g.cond.Broadcast()
	g.mu.Unlock()
}

func (g *gate) hook(site string, key interface{}, kv ...interface{}) {
	g.mu.Lock()
	idx, ok := g.keys[key]
	g.mu.Unlock()
	if ok {
		g.wait(idx)
	}
}

type concEvent struct {
	N      int    `json:"n"`
	First  bool   `json:"first"`
	Mode   string `json:"mode"` // alone | gated | free
	Call   string `json:"call"`
	Digest string `json:"digest"`
	Fpb    string `json:"fpb"`
	Fpa    string `json:"fpa"`
	Sched  []int  `json:"sched"`
	Procs  int    `json:"procs"`
	Gor    int    `json:"gor"`
	Steps  int    `json:"steps"` // gated: schedule entries actually consumed at hook sites
	Race   bool   `json:"race"`
}

func cmdConc(args []string) error {
	defer func() {
		if siblingPath != "" {
			os.RemoveAll(siblingPath)
		}
	}()
	fs := flag.NewFlagSet("conc", flag.ExitOnError)
	in := fs.String("cases", "", "schedules ndjson ({sched:[...]})")
	out := fs.String("out", "", "trace ndjson")
	seed := fs.Int64("seed", 1, "seed")
	free := fs.Int("free", 20, "free-running scenarios")
	combos := fs.Int("combos", 6, "call combinations per schedule set")
	rounds := fs.Int("rounds", 1, "homogeneous passes per kind of operation (each deals every operation of the kind to 16 goroutines)")
	lean := fs.Bool("lean", false, "only the reference pass and the free-running scenarios (the sequential passes are made by the run without the race detector)")
	aloneOnly := fs.Bool("aloneonly", false, "internal: a fresh process that only runs operations alone, last operation first")
	apart := fs.Int("apart", 0, "internal: with -aloneonly, the share of the operations this process runs")
	aparts := fs.Int("aparts", 1, "internal: with -aloneonly, the number of shares")
	fs.Parse(args)
	o, err := os.Create(*out)
	if err != nil {
		return err
	}
	defer o.Close()
	bw := bufio.NewWriterSize(o, 1<<20)
	defer bw.Flush()
	enc := json.NewEncoder(bw)
	ops := catalogue()
	r := rand.New(rand.NewSource(*seed))
	n := 0
	put := func(ev concEvent) {
		n++
		ev.N = n
		ev.First = n == 1
		if ev.Sched == nil {
			ev.Sched = []int{}
		}
		enc.Encode(ev)
	}
	if *aloneOnly {
		for i := len(ops) - 1; i >= 0; i-- {
			if i%*aparts != *apart {
				continue
			}
			fpb := astisub.VerifTablesFingerprint()
			c := ops[i].mk()
			d := c.run()
			put(concEvent{Mode: "alone", Call: ops[i].label, Digest: d, Fpb: fpb, Fpa: astisub.VerifTablesFingerprint()})
		}
		return nil
	}
	// alone: the reference result of every operation
	for _, op := range ops {
		fpb := astisub.VerifTablesFingerprint()
		c := op.mk()
		d := c.run()
		put(concEvent{Mode: "alone", Call: op.label, Digest: d, Fpb: fpb, Fpa: astisub.VerifTablesFingerprint()})
	}
	// results of independent calls share no memory: the same call is made twice, everything reachable from the first
	// result is overwritten, the second result must not change
	probes := aliasProbes()
	if *lean {
		probes = nil
	}
	for _, pr := range probes {
		fpb := astisub.VerifTablesFingerprint()
		a, b := pr.mk(), pr.mk()
		before := project.Digest(b)
		scribble(a)
		d := "same"
		if project.Digest(b) != before {
			d = "changed"
		}
		put(concEvent{Mode: "alias", Call: pr.label, Digest: d, Fpb: fpb, Fpa: astisub.VerifTablesFingerprint()})
	}
	// an error returned by one call is not rewritten by a later call: the message of the first is read again after a
	// second call has failed elsewhere
	bad := malformedDocs()
	if *lean {
		bad = nil
	}
	for i, a := range bad {
		for j, b := range bad {
			if i == j {
				continue
			}
			fpb := astisub.VerifTablesFingerprint()
			_, errA := readDoc(a.Fmt, bytes.NewReader(a.Data))
			d := "same"
			if errA != nil {
				before := errA.Error()
				_, errB := readDoc(b.Fmt, bytes.NewReader(b.Data))
				if errA.Error() != before || (errB != nil && errB == errA) {
					d = "changed"
				}
			}
			put(concEvent{Mode: "alias", Call: "error-of-" + a.Name + "-after-" + b.Name, Digest: d, Fpb: fpb, Fpa: astisub.VerifTablesFingerprint()})
		}
	}
	// and once more in the opposite order: a call must not see what an earlier call of the same process left behind,
	// whichever of two documents came first
	for i := len(ops) - 1; i >= 0 && !*lean; i-- {
		fpb := astisub.VerifTablesFingerprint()
		c := ops[i].mk()
		d := c.run()
		put(concEvent{Mode: "alone", Call: ops[i].label, Digest: d, Fpb: fpb, Fpa: astisub.VerifTablesFingerprint()})
	}
	// and in fresh processes, each running one share of the operations in the opposite order: whatever a call leaves
	// behind in package-level state for the rest of its process (a cache, a pool) reaches a given later call in this
	// process but, with other neighbours there, not in the other one
	shares := 8
	if *lean {
		shares = 0
	}
	for k := 0; k < shares; k++ {
		tmp := fmt.Sprintf("%s.alone%d", *out, k)
		bin := os.Args[0]
		if p := os.Getenv("VERIF_PLAIN_DRIVE"); p != "" {
			bin = p // the race-detector build is several times slower and the single-threaded passes do not need it
		}
		cmd := exec.Command(bin, "conc", "-aloneonly", "-apart", strconv.Itoa(k), "-aparts", strconv.Itoa(shares), "-out", tmp)
		cmd.Env = os.Environ()
		if outb, err := cmd.CombinedOutput(); err != nil {
			return fmt.Errorf("alone-only child: %v: %s", err, outb)
		}
		f, err := os.Open(tmp)
		if err != nil {
			return err
		}
		sc := bufio.NewScanner(f)
		sc.Buffer(make([]byte, 1<<20), 1<<26)
		for sc.Scan() {
			var ev concEvent
			if err := json.Unmarshal(sc.Bytes(), &ev); err != nil {
				return err
			}
			ev.Procs = -1 - k // marks the other process
			put(ev)
		}
		f.Close()
		os.Remove(tmp)
	}
	// gated interleavings
	var scheds [][]int
	if *in != "" {
		f, err := os.Open(*in)
		if err != nil {
			return err
		}
		sc := bufio.NewScanner(f)
		for sc.Scan() {
			var s struct {
				Sched []int `json:"sched"`
			}
			if err := json.Unmarshal(sc.Bytes(), &s); err != nil {
				return err
			}
			scheds = append(scheds, s.Sched)
		}
		f.Close()
	}
	if len(scheds) > 0 {
		nc := 0
		for _, c := range scheds[0] {
			if c > nc {
				nc = c
			}
		}
		for k := 0; k < *combos; k++ {
			// a combination of nc operations (readers first: they have instrumented sites)
			pick := make([]concOp, nc)
			for i := range pick {
				pick[i] = ops[r.Intn(len(ops))]
			}
			for _, sched := range scheds {
				g := newGate(sched)
				astisub.VerifHook = g.hook
				calls := make([]concCall, nc)
				for i := range calls {
					calls[i] = pick[i].mk()
					if calls[i].key != nil {
						g.keys[calls[i].key] = i + 1
					}
				}
				fpb := astisub.VerifTablesFingerprint()
				res := make([]string, nc)
				var wg sync.WaitGroup
				for i := range calls {
					wg.Add(1)
					go func(i int) {
						defer wg.Done()
						defer g.finish(i + 1)
						g.wait(i + 1) // the start of a call is a gated step
						res[i] = calls[i].run()
					}(i)
				}
				donec := make(chan struct{})
				go func() { wg.Wait(); close(donec) }()
				select {
				case <-donec:
				case <-time.After(20 * time.Second):
					g.release()
					<-donec
				}
				astisub.VerifHook = nil
				fpa := astisub.VerifTablesFingerprint()
				for i := range calls {
					put(concEvent{Mode: "gated", Call: calls[i].label, Digest: res[i], Fpb: fpb, Fpa: fpa, Sched: sched, Gor: nc, Steps: g.steps})
				}
			}
		}
	}
	// free-running: 2..32 goroutines, randomised start order, GOMAXPROCS in {2,4,16}.  The first scenarios are
	// homogeneous - one kind of operation (a reader, a writer, the transformations) on distinct private
	// documents - so that state shared inside one code path meets itself; the rest are random mixes.
	kinds := map[string][]concOp{}
	var kindNames []string
	for _, op := range ops {
		k := op.label
		if i := strings.Index(k, ":"); i >= 0 {
			k = k[:i]
		}
		if _, ok := kinds[k]; !ok {
			kindNames = append(kindNames, k)
		}
		kinds[k] = append(kinds[k], op)
	}
	sort.Strings(kindNames)
	homog := 0
	if *free > 0 {
		homog = len(kindNames) * *rounds
	}
	for k := 0; k < *free+homog; k++ {
		procs := []int{2, 4, 16}[k%3]
		old := runtime.GOMAXPROCS(procs)
		gor := 2 + r.Intn(31)
		pool := ops
		if k < homog {
			// every operation of the kind, dealt out to 16 goroutines that each work through their share: the
			// race detector reports two unsynchronised accesses whichever goroutines they come from, so every pair
			// of documents of the kind that lands in different goroutines is examined
			pool = kinds[kindNames[k%len(kindNames)]]
			gor = 16
			if len(pool) < gor {
				gor = len(pool)
			}
			perm := r.Perm(len(pool))
			calls := make([]concCall, len(pool))
			for i, pi := range perm {
				calls[i] = pool[pi].mk()
			}
			fpb := astisub.VerifTablesFingerprint()
			res := make([]string, len(calls))
			start := make(chan struct{})
			var wg sync.WaitGroup
			for g := 0; g < gor; g++ {
				wg.Add(1)
				go func(g int) {
					defer wg.Done()
					<-start
					for i := g; i < len(calls); i += gor {
						res[i] = calls[i].run()
					}
				}(g)
			}
			close(start)
			wg.Wait()
			runtime.GOMAXPROCS(old)
			fpa := astisub.VerifTablesFingerprint()
			for i := range calls {
				put(concEvent{Mode: "free", Call: calls[i].label, Digest: res[i], Fpb: fpb, Fpa: fpa, Procs: procs, Gor: gor})
			}
			continue
		}
		calls := make([]concCall, gor)
		for i := range calls {
			calls[i] = pool[r.Intn(len(pool))].mk()
		}
		order := r.Perm(gor)
		fpb := astisub.VerifTablesFingerprint()
		res := make([]string, gor)
		start := make(chan struct{})
		var wg sync.WaitGroup
		for _, i := range order {
			wg.Add(1)
			go func(i int) {
				defer wg.Done()
				<-start
				res[i] = calls[i].run()
			}(i)
		}
		close(start)
		wg.Wait()
		runtime.GOMAXPROCS(old)
		fpa := astisub.VerifTablesFingerprint()
		for i := range calls {
			put(concEvent{Mode: "free", Call: calls[i].label, Digest: res[i], Fpb: fpb, Fpa: fpa, Procs: procs, Gor: gor})
		}
	}
	return nil
}
