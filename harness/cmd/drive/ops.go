package main

import (
	"bufio"
	"encoding/json"
	"flag"
	"fmt"
	"math/rand"
	"os"
	"sort"
	"time"

	"verif/harness/internal/abs"
	"verif/harness/internal/opsx"
)

func init() {
	cmds["ops"] = cmdOps
	cmds["opsrand"] = cmdOpsRand
}

func unitOf(n int) time.Duration {
	// the abstract unit is irrelevant to the properties: 1 ms, 1 s, and two units below the millisecond (a quarter of a
	// millisecond; one 30 fps frame, which is not a whole number of milliseconds) - the list holds time.Durations
	switch n % 4 {
	case 0:
		return time.Millisecond
	case 1:
		return time.Second
	case 2:
		return 250 * time.Microsecond
	}
	return time.Second / 30
}

// cmdOps replays TLC-generated cases (ndjson) on the real code and writes the observed events.
func cmdOps(args []string) error {
	fs := flag.NewFlagSet("ops", flag.ExitOnError)
	in := fs.String("cases", "", "cases ndjson")
	out := fs.String("out", "", "trace ndjson")
	n0 := fs.Int("n0", 0, "first case number")
	fs.Parse(args)
	f, err := os.Open(*in)
	if err != nil {
		return err
	}
	defer f.Close()
	o, err := os.Create(*out)
	if err != nil {
		return err
	}
	defer o.Close()
	bw := bufio.NewWriterSize(o, 1<<20)
	defer bw.Flush()
	sc := bufio.NewScanner(f)
	sc.Buffer(make([]byte, 1<<20), 1<<26)
	enc := json.NewEncoder(bw)
	n := *n0
	for sc.Scan() {
		var c abs.OpCase
		if err := json.Unmarshal(sc.Bytes(), &c); err != nil {
			return fmt.Errorf("case %d: %v", n, err)
		}
		n++
		unit := unitOf(n)
		if c.Op == "force" {
			unit = time.Millisecond // the filler is 1 ms long: with a filler the abstract unit must be 1 ms
			if c.B == 0 && n%2 == 1 {
				unit = 250 * time.Microsecond // without a filler any unit will do: a quarter of a millisecond
			}
		}
		for _, ev := range opsx.Exec(n, c, unit, n%3 != 0) {
			if err := enc.Encode(ev); err != nil {
				return err
			}
		}
	}
	return sc.Err()
}

// cmdOpsRand is the seeded random driver: larger lists, millisecond-granular values. It only
// produces inputs inside each property's precondition; the verdict is TLC's.
func cmdOpsRand(args []string) error {
	fs := flag.NewFlagSet("opsrand", flag.ExitOnError)
	op := fs.String("op", "", "operation")
	out := fs.String("out", "", "trace ndjson")
	seed := fs.Int64("seed", 1, "seed")
	num := fs.Int("num", 100, "number of cases")
	maxn := fs.Int("maxn", 20, "max cues")
	n0 := fs.Int("n0", 1000000, "first case number")
	fs.Parse(args)
	r := rand.New(rand.NewSource(*seed))
	o, err := os.Create(*out)
	if err != nil {
		return err
	}
	defer o.Close()
	bw := bufio.NewWriterSize(o, 1<<20)
	defer bw.Flush()
	enc := json.NewEncoder(bw)
	for i := 0; i < *num; i++ {
		c := randCase(r, *op, *maxn)
		if i == 0 && *op == "fragment" {
			// one long cue cut into more than a thousand pieces (a song, a burnt-in caption, a short period)
			c = abs.OpCase{Op: "fragment", A: 2, Pre2: mkSubs(nil), Pre: mkSubs([]abs.Cue{
				{ID: 1, Ptr: 1, S: 1, E: 2301, T: 1, Ok: true}, {ID: 2, Ptr: 2, S: 2400, E: 2403, T: 2, Ok: true}})}
		}
		ru := time.Millisecond
		if c.Op != "force" && i%3 == 2 {
			ru = 250 * time.Microsecond
		}
		for _, ev := range opsx.Exec(*n0+i, c, ru, i%2 == 0) {
			if err := enc.Encode(ev); err != nil {
				return err
			}
		}
	}
	return nil
}

func mkSubs(items []abs.Cue) abs.Subs {
	s := abs.Subs{Items: items}
	s.Norm()
	return s
}

func randCase(r *rand.Rand, op string, maxn int) abs.OpCase {
	n := r.Intn(maxn + 1)
	nt := 1 + r.Intn(3)
	// horizon in ms: small horizons give many touching / overlapping cues, large ones realistic values
	horizons := []int{20, 200, 5000, 600000, 86400000}
	h := horizons[r.Intn(len(horizons))]
	items := make([]abs.Cue, n)
	for i := range items {
		s := r.Intn(h + 1)
		maxLen := h/4 + 1
		e := s + r.Intn(maxLen+1)
		if r.Intn(8) == 0 {
			e = s
		}
		if e > h {
			e = h
		}
		items[i] = abs.Cue{ID: i + 1, Ptr: i + 1, S: s, E: e, T: 1 + r.Intn(nt), Ok: true}
	}
	c := abs.OpCase{Op: op, Pre2: mkSubs(nil)}
	maxEnd := 0
	for _, it := range items {
		if it.E > maxEnd {
			maxEnd = it.E
		}
	}
	byStart := func() {
		sort.SliceStable(items, func(i, j int) bool { return items[i].S < items[j].S })
	}
	switch op {
	case "add":
		// d in [-maxEnd-1, +24h]
		switch r.Intn(4) {
		case 0:
			c.A = -(r.Intn(maxEnd + 2))
		case 1:
			if n > 0 {
				c.A = -items[r.Intn(n)].E // a cue ending exactly at -d
			}
		case 2:
			if n > 0 {
				c.A = -items[r.Intn(n)].S
			}
		default:
			c.A = r.Intn(86400000 + 1)
		}
	case "fragment", "fragment+unfragment":
		byStart()
		// keep the number of windows bounded: the sweep is O(maxEnd/f * n)
		minF := maxEnd/60 + 1 // at most 60 cut points over the whole list: keeps the model evaluation (connected components) fast
		c.A = minF + r.Intn(maxEnd/2+2)
		if n > 0 && r.Intn(3) == 0 {
			// a period that divides a boundary exactly
			b := items[r.Intn(n)].E
			for k := 1; k <= 8; k++ {
				if b%k == 0 && b/k >= minF {
					c.A = b / k
				}
			}
		}
		if op == "fragment+unfragment" {
			// precondition of the inverse law: no two same-text cues touch or overlap
			var keep []abs.Cue
			for _, it := range items {
				ok := true
				for _, k := range keep {
					if k.T == it.T && k.S <= it.E && it.S <= k.E {
						ok = false
					}
				}
				if ok {
					keep = append(keep, it)
				}
			}
			items = keep
		}
	case "unfragment", "order":
	case "merge":
		n2 := r.Intn(maxn + 1)
		items2 := make([]abs.Cue, n2)
		for i := range items2 {
			s := r.Intn(h + 1)
			items2[i] = abs.Cue{ID: 1000 + i, Ptr: 1000 + i, S: s, E: s + r.Intn(h/4+2), T: 1 + r.Intn(nt), Ok: true}
		}
		c.Pre2 = mkSubs(items2)
		ids := []string{"a", "b", "c", "d", "e", "f"}
		mk := func(tag string) abs.DefMap {
			m := abs.DefMap{}
			for _, id := range ids {
				if r.Intn(2) == 0 {
					m[id] = abs.Def{ID: id, Tag: tag}
				}
			}
			return m
		}
		c.Pre.Styles, c.Pre.Regions = mk("A"), mk("A")
		c.Pre2.Styles, c.Pre2.Regions = mk("B"), mk("B")
		st, rg := c.Pre.Styles, c.Pre.Regions
		c.Pre = mkSubs(items)
		c.Pre.Styles, c.Pre.Regions = st, rg
		return c
	case "force":
		// start-ordered, non-decreasing ends, s <= e
		byStart()
		prevE := 0
		for i := range items {
			if items[i].E < prevE {
				items[i].E = prevE
			}
			if items[i].E < items[i].S {
				items[i].E = items[i].S
			}
			prevE = items[i].E
		}
		c.B = r.Intn(2)
		switch r.Intn(4) {
		case 0:
			c.A = 1 + r.Intn(maxEnd+h/4+2)
		case 1:
			if n > 0 {
				c.A = items[r.Intn(n)].E
			}
		case 2:
			if n > 0 {
				c.A = items[r.Intn(n)].S
			}
		default:
			c.A = 1 + r.Intn(h+1)
		}
		if c.A < 1 {
			c.A = 1
		}
	case "optimize", "removestyling":
		ids := []string{"a", "b", "c", "d", "e", "f"}
		styles := abs.DefMap{}
		bare := r.Intn(5) == 0 // no definitions at all: inline attributes are the only styling
		for _, id := range ids {
			if !bare && r.Intn(3) != 0 {
				styles[id] = abs.Def{ID: id, Tag: "A"}
			}
		}
		var present []string
		for _, id := range ids {
			if _, ok := styles[id]; ok {
				present = append(present, id)
			}
		}
		pick := func() string {
			if len(present) == 0 || r.Intn(3) == 0 {
				return ""
			}
			return present[r.Intn(len(present))]
		}
		for id, d := range styles {
			d.Parent = pick()
			styles[id] = d
		}
		regions := abs.DefMap{}
		for _, id := range []string{"r1", "r2", "r3"} {
			if !bare && r.Intn(2) == 0 {
				regions[id] = abs.Def{ID: id, Parent: pick(), Tag: "A"}
			}
		}
		var rpresent []string
		for id := range regions {
			rpresent = append(rpresent, id)
		}
		sort.Strings(rpresent)
		for i := range items {
			items[i].St = pick()
			if len(rpresent) > 0 && r.Intn(2) == 0 {
				items[i].Rg = rpresent[r.Intn(len(rpresent))]
			}
			k := r.Intn(3)
			for j := 0; j < k; j++ {
				items[i].Rs = append(items[i].Rs, pick())
			}
		}
		c.Pre = mkSubs(items)
		c.Pre.Styles, c.Pre.Regions = styles, regions
		if bare {
			c.Pre.SNil, c.Pre.RNil = r.Intn(2) == 0, r.Intn(2) == 0
		}
		return c
	}
	c.Pre = mkSubs(items)
	return c
}
