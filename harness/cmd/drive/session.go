package main

// C07: conversion sessions. A history (from TLC) is Open(src) ; op* ; Write(dst), executed through the file API
// (astisub.Open / methods / Subtitles.Write) or through the built command-line tool (one process per operation,
// chained through intermediate files of the destination format). Every step logs what the model's state
// variables abstract: the in-memory cue list after the step (library) and the content of the written file as read
// back by the library.

import (
	"bufio"
	"bytes"
	"encoding/json"
	"errors"
	"flag"
	"fmt"
	"io/ioutil"
	"math"
	"os"
	"os/exec"
	"path/filepath"
	"sort"
	"strings"
	"sync"
	"time"
	"unicode"

	astisub "github.com/asticode/go-astisub"

	"verif/harness/internal/run"
	"verif/harness/internal/stlx"
)

type sessOp struct {
	Name string `json:"name"`
	A    []int  `json:"a"` // parameters in ms
}

type sessHist struct {
	Src    string   `json:"src"`    // format of the source: srt ssa ass stl ttml vtt ts
	SrcExt string   `json:"srcext"` // extension as spelt in the file name
	Dst    string   `json:"dst"`
	DstExt string   `json:"dstext"`
	Ops    []sessOp `json:"ops"`
	Entry  string   `json:"entry"` // lib | cli
	Doc    int      `json:"doc"`
	Doc2   int      `json:"doc2"`
	Ign    bool     `json:"ign"` // hand STLOptions{IgnoreTimecodeStartOfProgramme: true} to Open (file API)
}

// sessCue: start / end on the 1/3 ms grid, text atom.
type sessCue [3]int64

type sessEvent struct {
	N      int       `json:"n"`
	First  bool      `json:"first"`
	Ev     string    `json:"ev"` // source open op write cli
	File   string    `json:"file"`
	File2  string    `json:"file2"`
	Out    string    `json:"out"`
	Ext    string    `json:"ext"` // lower-cased extension without dot, as the model's format name ("" = none)
	InExt  string    `json:"inext"`
	InExt2 string    `json:"inext2"`
	Swap   [][2]int  `json:"swap"`
	Fmt    string    `json:"fmt"`
	Name   string    `json:"name"`
	A      []int     `json:"a"`
	Res    string    `json:"res"`
	Msg    string    `json:"msg"`
	Cues   []sessCue `json:"cues"`
	Fps    int       `json:"fps"`
	NoRep  []string  `json:"norep"`
	Grid   bool      `json:"grid"` // every instant lies on the 1/3 ms grid
	Entry  string    `json:"entry"`
	Doc    string    `json:"doc"`
	Raw    []sessCue `json:"raw"` // source: the cues when the STL programme start is ignored (= cues otherwise)
	Ign    bool      `json:"ign"` // open: the option was handed to Open
}

func newSessEvent(n int, ev string) sessEvent {
	return sessEvent{N: n, Ev: ev, A: []int{}, Cues: []sessCue{}, NoRep: []string{}, Grid: true, Swap: [][2]int{}, Raw: []sessCue{}}
}

type atoms struct {
	ids map[string]int
}

func (a *atoms) id(s string) int {
	if v, ok := a.ids[s]; ok {
		return v
	}
	v := len(a.ids) + 1
	a.ids[s] = v
	return v
}

// normText: the cue's text with inter-run whitespace disregarded: per line the run texts concatenated with all
// white space removed; lines that hold nothing are dropped.
func normText(it *astisub.Item) string {
	var lines []string
	for _, l := range it.Lines {
		var b strings.Builder
		for _, li := range l.Items {
			for _, r := range li.Text {
				if unicode.IsSpace(r) || r == '\u00a0' || r == '\ufeff' {
					continue
				}
				b.WriteRune(r)
			}
		}
		if b.Len() > 0 {
			lines = append(lines, b.String())
		}
	}
	return strings.Join(lines, "\n")
}

// toGrid maps an instant to the 1/3 ms grid; ok = the instant is within 2 ns of a grid point (frame-based
// instants are k/3 ms rounded up to the next nanosecond).
func toGrid(d time.Duration) (int64, bool) {
	ns := int64(d)
	u := int64(math.Round(float64(ns) * 3 / 1e6))
	back := int64(math.Ceil(float64(u) * 1e6 / 3))
	diff := ns - back
	if diff < 0 {
		diff = -diff
	}
	return u, diff <= 2
}

func sessProject(s *astisub.Subtitles, at *atoms) (cues []sessCue, fps int, grid bool) {
	cues = []sessCue{}
	grid = true
	if s == nil {
		return
	}
	if s.Metadata != nil {
		fps = s.Metadata.Framerate
	}
	for _, it := range s.Items {
		if it == nil {
			continue
		}
		a, ok1 := toGrid(it.StartAt)
		b, ok2 := toGrid(it.EndAt)
		if !ok1 || !ok2 {
			grid = false
		}
		cues = append(cues, sessCue{a, b, int64(at.id(normText(it)))})
	}
	return
}

// notRepresentable lists the destination formats that cannot carry some text of the list.
func notRepresentable(s *astisub.Subtitles) []string {
	out := []string{}
	stl, ssa, blank := false, false, false
	for _, it := range s.Items {
		t := normText(it)
		n := 0
		empty := false
		for _, l := range it.Lines {
			n += 3
			// an empty line that is followed by text: in SubRip and WebVTT a blank line ends the cue, so a text with a
			// blank line before or inside it has no rendering there
			lt := ""
			for _, li := range l.Items {
				lt += li.Text
			}
			if strings.TrimSpace(lt) == "" {
				empty = true
			} else if empty {
				blank = true
			}
			for _, li := range l.Items {
				n += len([]rune(li.Text)) + 4
				// braces and backslashes are SubStation Alpha's override syntax: a text holding them is not
				// representable there
				if strings.ContainsAny(li.Text, "{}\\") {
					ssa = true
				}
			}
		}
		if !stlx.Representable(t) || n > 100 || len(it.Lines) == 0 {
			stl = true
		}
	}
	if stl {
		out = append(out, "stl")
	}
	if ssa {
		out = append(out, "ssa", "ass")
	}
	if blank {
		out = append(out, "srt", "vtt")
	}
	return out
}

func errClass(err error) string {
	switch {
	case err == nil:
		return "ok"
	case errors.Is(err, astisub.ErrInvalidExtension):
		return "invalid-extension"
	case errors.Is(err, astisub.ErrNoSubtitlesToWrite):
		return "nothing-to-write"
	}
	return "err"
}

func extName(ext string) string { return strings.TrimPrefix(strings.ToLower(ext), ".") }

var dur = func(ms int) time.Duration { return time.Duration(ms) * time.Millisecond }

func applyOp(s, s2 *astisub.Subtitles, op sessOp) {
	switch op.Name {
	case "sync":
		s.Add(dur(op.A[0]))
	case "fragment":
		s.Fragment(dur(op.A[0]))
	case "unfragment":
		s.Unfragment()
	case "merge":
		s.Merge(s2)
	case "optimize":
		s.Optimize()
	case "linear":
		s.ApplyLinearCorrection(dur(op.A[0]), dur(op.A[1]), dur(op.A[2]), dur(op.A[3]))
	case "order":
		s.Order()
	}
}

func cliArgs(op sessOp, in, in2, out string) []string {
	d := func(ms int) string { return dur(ms).String() }
	switch op.Name {
	case "convert":
		return []string{"convert", "-i", in, "-o", out}
	case "sync":
		return []string{"sync", "-i", in, "-s", d(op.A[0]), "-o", out}
	case "fragment":
		return []string{"fragment", "-i", in, "-f", d(op.A[0]), "-o", out}
	case "unfragment":
		return []string{"unfragment", "-i", in, "-o", out}
	case "merge":
		return []string{"merge", "-i", in, "-i", in2, "-o", out}
	case "optimize":
		return []string{"optimize", "-i", in, "-o", out}
	case "linear":
		return []string{"apply-linear-correction", "-i", in, "-a1", d(op.A[0]), "-d1", d(op.A[1]), "-a2", d(op.A[2]), "-d2", d(op.A[3]), "-o", out}
	}
	return nil
}

// overBudget: the operation would cut the list into more pieces than the model is asked to evaluate (a cue of
// many hours fragmented into sub-second windows); such a history is ended with a "budget" event.
func overBudget(op sessOp, cues []sessCue) bool {
	if op.Name == "linear" && op.A[2] != op.A[0] {
		// the model's integers are 32 bits wide
		k := int64(op.A[3]-op.A[1]) / int64(op.A[2]-op.A[0])
		for _, c := range cues {
			if c[1]*k+int64(op.A[1])*3 >= 1<<30 || c[0]*k >= 1<<30 {
				return true
			}
		}
	}
	if op.Name != "fragment" || op.A[0] <= 0 {
		// the model's sort / connected-component operators are specifications, not algorithms
		return len(cues) > 80
	}
	f := int64(op.A[0]) * 3
	n := int64(0)
	for _, c := range cues {
		n += 1 + (c[1]-c[0])/f
	}
	return n > 120
}

type sessRunner struct {
	cli  string
	docs map[string][]doc
	tmp  string
}

func (r *sessRunner) pick(format string, k int) (doc, bool) {
	f := format
	if f == "ass" {
		f = "ssa"
	}
	ds := r.docs[f]
	if len(ds) == 0 {
		return doc{}, false
	}
	k = (k*7919 + 104729) % 1000003 // spread consecutive selectors over the corpus
	return ds[((k%len(ds))+len(ds))%len(ds)], true
}

// observe opens a file through the file API and logs the outcome.
func (r *sessRunner) observe(n int, path string, at *atoms) (sessEvent, *astisub.Subtitles) {
	return r.observeOpt(n, path, at, false)
}

func (r *sessRunner) observeOpt(n int, path string, at *atoms, ign bool) (sessEvent, *astisub.Subtitles) {
	ev := newSessEvent(n, "open")
	ev.Ign = ign
	ev.File = filepath.Base(path)
	ev.Ext = extName(filepath.Ext(path))
	var s *astisub.Subtitles
	var err error
	ev.Res, ev.Msg = run.Guard(20*time.Second, func() {
		if ign {
			s, err = astisub.Open(astisub.Options{Filename: path, STL: astisub.STLOptions{IgnoreTimecodeStartOfProgramme: true}})
		} else {
			s, err = astisub.OpenFile(path)
		}
	})
	if ev.Res == "ok" {
		ev.Res = errClass(err)
		if err != nil {
			ev.Msg = err.Error()
		}
	}
	if ev.Res == "ok" {
		ev.Cues, ev.Fps, ev.Grid = sessProject(s, at)
	}
	return ev, s
}

func (r *sessRunner) history(n int, h sessHist) []sessEvent {
	var evs []sessEvent
	at := &atoms{ids: map[string]int{}}
	dir := filepath.Join(r.tmp, fmt.Sprintf("h%d", n))
	os.MkdirAll(dir, 0o755)
	defer os.RemoveAll(dir)
	put := func(name string, d doc) (string, sessEvent) {
		p := filepath.Join(dir, name)
		ioutil.WriteFile(p, d.Data, 0o644)
		ev := newSessEvent(n, "source")
		ev.File, ev.Fmt, ev.Doc, ev.Entry = name, d.Fmt, d.Name, h.Entry
		// the reference content of a source file: what the format's reader (decided by C01-C06) returns
		s, err := readDoc(d.Fmt, bytes.NewReader(d.Data))
		if err != nil {
			ev.Res, ev.Msg = "unreadable", err.Error()
			return p, ev
		}
		ev.Res = "ok"
		ev.Cues, ev.Fps, ev.Grid = sessProject(s, at)
		ev.Raw = ev.Cues
		if d.Fmt == "stl" {
			if s2, err2 := readDoc("stl-ignore", bytes.NewReader(d.Data)); err2 == nil {
				var g2 bool
				ev.Raw, _, g2 = sessProject(s2, at)
				ev.Grid = ev.Grid && g2
			}
		}
		ev.NoRep = notRepresentable(s)
		for _, it := range s.Items {
			if t := normText(it); strings.Contains(t, "$") {
				ev.Swap = append(ev.Swap, [2]int{at.id(t), at.id(strings.ReplaceAll(t, "$", "\u00a4"))})
			}
		}
		for _, it := range s.Items {
			if it.StartAt < 0 || it.EndAt < 0 {
				ev.Grid = false
			}
		}
		return p, ev
	}
	src := h.Src
	if src == "ass" {
		src = "ssa"
	}
	// every second history with operations takes a document with touching same-text cues / cues out of order /
	// overlapping cues (what an operation does - or must leave alone - shows on such lists)
	shaped := len(h.Ops) > 0
	if shaped && n%2 == 0 && len(r.docs[src+"-synth"]) > 0 {
		src += "-synth"
	}
	if h.Ign && len(r.docs["stl-tcp"]) > 0 {
		src = "stl-tcp" // STL documents whose programme start is not zero: the option makes a difference
	}
	d1, ok := r.pick(src, h.Doc)
	if !ok {
		return nil
	}
	// capitals in the name: only the extension is case-insensitive; dots in the name: the extension is what follows
	// the last one
	inName, outName := "Input", "Out"
	if n%3 == 1 {
		inName, outName = "Input.01.en", "Out.v2.final"
	}
	in, ev := put(inName+h.SrcExt, d1)
	ev.First = true
	evs = append(evs, ev)
	in2 := ""
	needs2 := false
	for _, op := range h.Ops {
		if op.Name == "merge" {
			needs2 = true
		}
	}
	if needs2 {
		d2, _ := r.pick(h.Src, h.Doc2)
		var ev2 sessEvent
		in2, ev2 = put("Second"+strings.ToLower(h.SrcExt), d2)
		evs = append(evs, ev2)
	}
	out := filepath.Join(dir, outName+h.DstExt)
	if h.Entry == "lib" {
		ev, s := r.observeOpt(n, in, at, h.Ign)
		evs = append(evs, ev)
		if ev.Res != "ok" {
			return evs
		}
		cur := ev.Cues
		for _, op := range h.Ops {
			oe := newSessEvent(n, "op")
			oe.Name, oe.A = op.Name, op.A
			if overBudget(op, cur) {
				evs = append(evs, newSessEvent(n, "budget"))
				return evs
			}
			var s2 *astisub.Subtitles
			if op.Name == "merge" {
				e2, x := r.observe(n, in2, at)
				e2.Ev = "open2"
				evs = append(evs, e2)
				if e2.Res != "ok" {
					return evs
				}
				s2 = x
				oe.File2 = filepath.Base(in2)
			}
			oe.Res, oe.Msg = run.Guard(20*time.Second, func() { applyOp(s, s2, op) })
			oe.Cues, oe.Fps, oe.Grid = sessProject(s, at)
			cur = oe.Cues
			evs = append(evs, oe)
			if oe.Res != "ok" {
				return evs
			}
		}
		we := newSessEvent(n, "write")
		we.File, we.Ext = filepath.Base(out), extName(h.DstExt)
		var err error
		prefill(n, out)
		we.Res, we.Msg = run.Guard(20*time.Second, func() { err = s.Write(out) })
		if we.Res == "ok" {
			we.Res = errClass(err)
			if err != nil {
				we.Msg = err.Error()
			}
		}
		evs = append(evs, we)
		if we.Res == "ok" {
			be, _ := r.observe(n, out, at)
			evs = append(evs, be)
		}
		return evs
	}
	// command-line tool: one process per operation
	ops := h.Ops
	if len(ops) == 0 {
		ops = []sessOp{{Name: "convert", A: []int{}}}
	}
	cur := in
	curCues := evs[0].Cues
	for i, op := range ops {
		if overBudget(op, curCues) {
			evs = append(evs, newSessEvent(n, "budget"))
			return evs
		}
		o := out
		if i < len(ops)-1 {
			o = filepath.Join(dir, fmt.Sprintf("step%d%s", i+1, h.DstExt))
		}
		ce := newSessEvent(n, "cli")
		ce.Name, ce.A = op.Name, op.A
		ce.File, ce.Out, ce.Ext, ce.InExt = filepath.Base(cur), filepath.Base(o), extName(h.DstExt), extName(filepath.Ext(cur))
		if op.Name == "merge" {
			ce.File2, ce.InExt2 = filepath.Base(in2), extName(filepath.Ext(in2))
		}
		args := cliArgs(op, cur, in2, o)
		if args == nil {
			ce.Res = "no-such-command"
			evs = append(evs, ce)
			return evs
		}
		prefill(n, o)
		cmd := exec.Command(r.cli, args...)
		var stderr bytes.Buffer
		cmd.Stderr = &stderr
		cmd.Stdout = ioutil.Discard
		done := make(chan error, 1)
		if err := cmd.Start(); err != nil {
			ce.Res, ce.Msg = "spawn-failed", err.Error()
			evs = append(evs, ce)
			return evs
		}
		go func() { done <- cmd.Wait() }()
		var werr error
		select {
		case werr = <-done:
		case <-time.After(30 * time.Second):
			cmd.Process.Kill()
			<-done
			ce.Res = "timeout"
			evs = append(evs, ce)
			return evs
		}
		msg := stderr.String()
		switch {
		case werr == nil:
			ce.Res = "ok"
		case strings.Contains(msg, "panic:") || strings.Contains(msg, "goroutine "):
			ce.Res = "panic"
		case strings.Contains(msg, astisub.ErrInvalidExtension.Error()):
			ce.Res = "invalid-extension"
		case strings.Contains(msg, astisub.ErrNoSubtitlesToWrite.Error()):
			ce.Res = "nothing-to-write"
		default:
			ce.Res = "err"
		}
		if len(msg) > 600 {
			msg = msg[:600]
		}
		ce.Msg = msg
		evs = append(evs, ce)
		if ce.Res != "ok" {
			return evs
		}
		be, _ := r.observe(n, o, at)
		evs = append(evs, be)
		if be.Res != "ok" {
			return evs
		}
		cur, curCues = o, be.Cues
	}
	return evs
}

// prefill: in every other history the destination already exists and holds something longer than anything the
// history writes (a previous run's output): writing replaces a file, it does not overwrite its beginning
func prefill(n int, path string) {
	if n%2 != 0 {
		return
	}
	if _, err := os.Stat(path); err == nil {
		return
	}
	ioutil.WriteFile(path, bytes.Repeat([]byte("what a previous run left in the destination\n"), 3000), 0o644)
}

// synthDocs: lists whose shape matters to the operations (touching same-text cues, cues out of order, overlapping
// and nested cues), written in every writable format by the library's own writers. Instants are multiples of 40 ms.
func synthDocs() []doc {
	mk := func(cs [][3]interface{}) *astisub.Subtitles {
		s := astisub.NewSubtitles()
		for _, c := range cs {
			s.Items = append(s.Items, &astisub.Item{StartAt: dur(c[0].(int)), EndAt: dur(c[1].(int)),
				Lines: []astisub.Line{{Items: []astisub.LineItem{{Text: c[2].(string)}}}}})
		}
		return s
	}
	lists := map[string]*astisub.Subtitles{
		"touch": mk([][3]interface{}{{0, 1000, "same"}, {1000, 2000, "same"}, {2000, 3000, "other"}, {3520, 4000, "other"}, {4000, 5000, "same"}, {5000, 5480, "same"}}),
		"order": mk([][3]interface{}{{5000, 7000, "b"}, {1000, 3000, "a"}, {2000, 4000, "c"}, {1000, 2000, "d"}, {1000, 2000, "a"}}),
		"nest":  mk([][3]interface{}{{0, 9000, "outer"}, {1000, 3000, "inner"}, {1000, 3000, "inner"}, {2960, 4000, "inner"}}),
	}
	var out []doc
	names := []string{"nest", "order", "touch"}
	for _, name := range names {
		for _, f := range writeFormats {
			var b bytes.Buffer
			if err := writeDoc(f, lists[name], &b); err == nil {
				out = append(out, doc{Name: "synth-" + name + "." + f, Fmt: f, Data: b.Bytes()})
			}
		}
	}
	return out
}

func cmdSession(args []string) error {
	fs := flag.NewFlagSet("session", flag.ExitOnError)
	in := fs.String("cases", "", "histories ndjson")
	out := fs.String("out", "", "trace ndjson")
	n0 := fs.Int("n0", 0, "first case number")
	cli := fs.String("cli", "", "path of the built astisub command")
	extra := fs.String("extra", os.Getenv("VERIF_EXTRA_DOCS"), "directory of generated source documents")
	seed := fs.Int("seed", 1, "rotates the document choice")
	workers := fs.Int("workers", 12, "parallel histories")
	fs.Parse(args)
	r := &sessRunner{cli: *cli, docs: map[string][]doc{}}
	all := append(testdataDocs(), extraDocs(*extra)...)
	sort.SliceStable(all, func(i, j int) bool { return all[i].Name < all[j].Name })
	for _, d := range all {
		if _, err := readDoc(d.Fmt, bytes.NewReader(d.Data)); err != nil {
			continue // sources are the readable documents
		}
		r.docs[d.Fmt] = append(r.docs[d.Fmt], d)
		if d.Fmt == "stl" {
			a, e1 := readDoc("stl", bytes.NewReader(d.Data))
			b, e2 := readDoc("stl-ignore", bytes.NewReader(d.Data))
			if e1 == nil && e2 == nil && len(a.Items) > 0 && len(b.Items) > 0 && a.Items[0].StartAt != b.Items[0].StartAt {
				r.docs["stl-tcp"] = append(r.docs["stl-tcp"], d)
			}
		}
	}
	for _, d := range synthDocs() {
		r.docs[d.Fmt+"-synth"] = append(r.docs[d.Fmt+"-synth"], d)
	}
	tmp, err := ioutil.TempDir("", "verif-session")
	if err != nil {
		return err
	}
	defer os.RemoveAll(tmp)
	r.tmp = tmp
	var hs []sessHist
	f, err := os.Open(*in)
	if err != nil {
		return err
	}
	sc := bufio.NewScanner(f)
	sc.Buffer(make([]byte, 1<<20), 1<<26)
	for sc.Scan() {
		var h sessHist
		if err := json.Unmarshal(sc.Bytes(), &h); err != nil {
			return fmt.Errorf("history: %v: %s", err, sc.Text())
		}
		h.Doc += *seed*131 + len(hs)
		h.Doc2 += *seed*137 + 3*len(hs) + 1
		hs = append(hs, h)
	}
	f.Close()
	res := make([][]sessEvent, len(hs))
	var wg sync.WaitGroup
	ch := make(chan int)
	for w := 0; w < *workers; w++ {
		wg.Add(1)
		go func() {
			defer wg.Done()
			for i := range ch {
				res[i] = r.history(*n0+i, hs[i])
			}
		}()
	}
	for i := range hs {
		ch <- i
	}
	close(ch)
	wg.Wait()
	o, err := os.Create(*out)
	if err != nil {
		return err
	}
	defer o.Close()
	bw := bufio.NewWriterSize(o, 1<<20)
	defer bw.Flush()
	enc := json.NewEncoder(bw)
	for _, evs := range res {
		for _, e := range evs {
			if err := enc.Encode(e); err != nil {
				return err
			}
		}
	}
	return nil
}

func init() { cmds["session"] = cmdSession }
