package main

import (
	"bufio"
	"bytes"
	"encoding/json"
	"flag"
	"os"
	"time"
	"verif/harness/internal/project"

	astisub "github.com/asticode/go-astisub"
	"verif/harness/internal/run"
	"verif/harness/internal/ssax"
)

func init() {
	cmds["ssa"] = cmdSsa
}

type ssaCase struct {
	G ssax.Truth `json:"g"`
	D ssax.Doc   `json:"d"`
}

type ssaEvent struct {
	N    int        `json:"n"`
	Dir  string     `json:"dir"`
	G    ssax.Truth `json:"g"`
	D    ssax.Doc   `json:"d"`
	Post ssax.Truth `json:"post"`
	Fix  bool       `json:"fix"` // write(read(write(g))) is byte-identical to write(g)
	Res  string     `json:"res"`
	Msg  string     `json:"msg"`
	Raw  string     `json:"raw"`
	// what the hook at the top of the reader's loop reported, one entry per scanned line
	Hooks []ssaHook `json:"hooks"`
	// read: the same bytes read through ReadFromSSAWithOptions with zero-valued options (no callbacks): "same"
	// when error status and result equal the default reader's, "differs" otherwise
	ZOpt string `json:"zopt"`
}

type ssaHook struct {
	Sec  string `json:"sec"`
	NFmt int    `json:"nfmt"`
	NS   int    `json:"ns"`
	NE   int    `json:"ne"`
}

func ssaRead(n int, c ssaCase) ssaEvent {
	p := ssax.PoolFor(n)
	c.G.Norm()
	c.D.Norm()
	ev := ssaEvent{N: n, Dir: "read", G: c.G, D: c.D, Hooks: []ssaHook{}}
	ev.Post.Norm()
	raw := ssax.Concretise(c.D, p, n)
	dumpDoc("ssa", n, raw)
	ev.Raw = string(raw)
	var s *astisub.Subtitles
	var err error
	rd := bytes.NewReader(raw)
	astisub.VerifHook = func(site string, key interface{}, kv ...interface{}) {
		if site == "ssa.line" && key == interface{}(rd) && len(kv) == 4 {
			ev.Hooks = append(ev.Hooks, ssaHook{kv[0].(string), kv[1].(int), kv[2].(int), kv[3].(int)})
		}
	}
	ev.Res, ev.Msg = run.Guard(10*time.Second, func() { s, err = astisub.ReadFromSSA(rd) })
	astisub.VerifHook = nil
	if ev.Res == "ok" && err != nil {
		ev.Res, ev.Msg = "err", err.Error()
	}
	if ev.Res == "ok" {
		ev.Post = ssax.Project(s, p)
	}
	var s0 *astisub.Subtitles
	var err0 error
	res0, _ := run.Guard(10*time.Second, func() { s0, err0 = astisub.ReadFromSSAWithOptions(bytes.NewReader(raw), astisub.SSAOptions{}) })
	ev.ZOpt = "differs"
	if res0 == "ok" && (err0 != nil) == (err != nil) && (err0 != nil || project.Digest(s0) == project.Digest(s)) {
		ev.ZOpt = "same"
	}
	return ev
}

func ssaWrite(n int, g ssax.Truth) ssaEvent {
	p := ssax.PoolFor(n)
	g.Norm()
	ev := ssaEvent{N: n, Dir: "write", G: g, Hooks: []ssaHook{}}
	ev.D.Norm()
	ev.Post.Norm()
	s := ssax.Build(g, p)
	if n%4 == 3 {
		// a map entry without a style (the WebVTT and TTML writers skip those): it denotes nothing
		if s.Styles == nil {
			s.Styles = map[string]*astisub.Style{}
		}
		s.Styles["absent"] = nil
	}
	var buf, buf2 bytes.Buffer
	var err error
	ev.Res, ev.Msg = run.Guard(10*time.Second, func() { err = s.WriteToSSA(&buf) })
	if ev.Res == "ok" && err != nil {
		ev.Res, ev.Msg = "err", err.Error()
	}
	if ev.Res != "ok" {
		return ev
	}
	ev.Raw = buf.String()
	ev.D = ssax.Lex(buf.Bytes(), p)
	ev.D.Norm()
	var s2 *astisub.Subtitles
	res, msg := run.Guard(10*time.Second, func() {
		if s2, err = astisub.ReadFromSSA(bytes.NewReader(buf.Bytes())); err == nil {
			err = s2.WriteToSSA(&buf2)
		}
	})
	if res != "ok" || err != nil {
		ev.Res, ev.Msg = "reread-failed", msg
		if err != nil {
			ev.Msg = err.Error()
		}
		return ev
	}
	ev.Post = ssax.Project(s2, p)
	ev.Fix = bytes.Equal(buf.Bytes(), buf2.Bytes())
	if !ev.Fix {
		ev.Msg = "second write: " + buf2.String()
	}
	return ev
}

func cmdSsa(args []string) error {
	fs := flag.NewFlagSet("ssa", flag.ExitOnError)
	in := fs.String("cases", "", "cases ndjson ({g,d} pairs)")
	out := fs.String("out", "", "trace ndjson")
	n0 := fs.Int("n0", 0, "first case number")
	fs.Int64("seed", 1, "unused")
	fs.Int("num", 0, "unused")
	fs.Parse(args)
	o, err := os.Create(*out)
	if err != nil {
		return err
	}
	defer o.Close()
	bw := bufio.NewWriterSize(o, 1<<20)
	defer bw.Flush()
	enc := json.NewEncoder(bw)
	if *in == "" {
		return nil
	}
	f, err := os.Open(*in)
	if err != nil {
		return err
	}
	defer f.Close()
	sc := bufio.NewScanner(f)
	sc.Buffer(make([]byte, 1<<20), 1<<26)
	n := *n0
	seenG := map[string]bool{}
	for sc.Scan() {
		var c ssaCase
		if err := json.Unmarshal(sc.Bytes(), &c); err != nil {
			return err
		}
		n++
		if err := enc.Encode(ssaRead(n, c)); err != nil {
			return err
		}
		gb, _ := json.Marshal(c.G)
		key := string(gb) + "/" + string(rune('0'+n%2))
		if !seenG[key] {
			seenG[key] = true
			if err := enc.Encode(ssaWrite(n, c.G)); err != nil {
				return err
			}
		}
	}
	return sc.Err()
}
