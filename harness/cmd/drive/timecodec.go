package main

import (
	"bufio"
	"bytes"
	"encoding/json"
	"flag"
	"fmt"
	"io/ioutil"
	"math/rand"
	"os"
	"path/filepath"
	"regexp"
	"sort"
	"strconv"
	"strings"
	"time"

	astisub "github.com/asticode/go-astisub"
	"verif/harness/internal/run"
)

func init() {
	cmds["timecodec"] = cmdTimecodec
}

// tcFields are the raw fields of one rendered timestamp (numeric value and digit count of each).
type tcFields struct {
	H   int    `json:"h"`
	Hd  int    `json:"hd"`
	M   int    `json:"m"`
	Md  int    `json:"md"`
	S   int    `json:"s"`
	Sd  int    `json:"sd"`
	F   int    `json:"f"`
	Fd  int    `json:"fd"`
	Sep string `json:"sep"`
}

type tcEvent struct {
	N     int      `json:"n"`
	First bool     `json:"first"` // first instant of a (format, batch) sequence sorted by instant
	Fmt   string   `json:"fmt"`   // srt vtt ttml ssa stl
	Fps   int      `json:"fps"`
	T     [2]int   `json:"t"`     // instant: [whole ms, remaining ns]
	F     tcFields `json:"f"`     // what the writer rendered
	Back  [2]int   `json:"back"`  // what the same format's reader made of it
	Same2 bool     `json:"same2"` // writing the re-read list again gave identical bytes
	Res   string   `json:"res"`
	Msg   string   `json:"msg"`
}

func split(d time.Duration) [2]int {
	return [2]int{int(d / time.Millisecond), int(d % time.Millisecond)}
}

var (
	reSrtT  = regexp.MustCompile(`(?m)^(\d+):(\d+):(\d+)([,.])(\d+) --> (\d+):(\d+):(\d+)([,.])(\d+)`)
	reTtmlT = regexp.MustCompile(`begin="(\d+):(\d+):(\d+)([,.])(\d+)" end="(\d+):(\d+):(\d+)([,.])(\d+)"`)
	reSsaT  = regexp.MustCompile(`(?m)^Dialogue: [^,]*,(\d+):(\d+):(\d+)([,.])(\d+),(\d+):(\d+):(\d+)([,.])(\d+),`)
)

func fieldsOf(m []string) tcFields {
	a := func(s string) int { v, _ := strconv.Atoi(s); return v }
	return tcFields{H: a(m[0]), Hd: len(m[0]), M: a(m[1]), Md: len(m[1]), S: a(m[2]), Sd: len(m[2]), Sep: m[3], F: a(m[4]), Fd: len(m[4])}
}

// extract returns the rendered fields of every cue's start and end, in order.
func extractTimes(format string, out []byte) ([]tcFields, error) {
	var res []tcFields
	switch format {
	case "srt", "vtt", "ttml", "ssa":
		re := map[string]*regexp.Regexp{"srt": reSrtT, "vtt": reSrtT, "ttml": reTtmlT, "ssa": reSsaT}[format]
		for _, m := range re.FindAllStringSubmatch(string(out), -1) {
			res = append(res, fieldsOf(m[1:6]), fieldsOf(m[6:11]))
		}
	case "stl":
		if len(out) < 1024 || (len(out)-1024)%128 != 0 {
			return nil, fmt.Errorf("stl output has %d bytes", len(out))
		}
		// the timecodes of a file count from its timecode start of programme (GSI bytes 256..263, HHMMSSFF): what a
		// timecode denotes for the cue is the difference, taken in frames
		fps := 25
		if string(out[3:11]) == "STL30.01" {
			fps = 30
		}
		a := func(b []byte) int { v, _ := strconv.Atoi(string(b)); return v }
		tcp := ((a(out[256:258])*60+a(out[258:260]))*60+a(out[260:262]))*fps + a(out[262:264])
		rel := func(b []byte) tcFields {
			n := ((int(b[0])*60+int(b[1]))*60+int(b[2]))*fps + int(b[3]) - tcp
			if tcp == 0 || n < 0 {
				return tcFields{H: int(b[0]), Hd: 1, M: int(b[1]), Md: 1, S: int(b[2]), Sd: 1, F: int(b[3]), Fd: 1}
			}
			return tcFields{H: n / fps / 3600, Hd: 1, M: n / fps / 60 % 60, Md: 1, S: n / fps % 60, Sd: 1, F: n % fps, Fd: 1}
		}
		for p := 1024; p < len(out); p += 128 {
			b := out[p : p+128]
			res = append(res, rel(b[5:9]), rel(b[9:13]))
		}
	}
	return res, nil
}

// stlTcp: the programme start the STL lists carry (formats stl25tcp / stl30tcp: ten hours and half a frame - not a
// whole number of frames, as metadata set by a program may be)
var stlTcp time.Duration

func stlMeta(fps int) *astisub.Metadata {
	b, err := ioutil.ReadFile(filepath.Join(repoDir(), "testdata", "example-in.stl"))
	if err != nil {
		return nil
	}
	s, err := astisub.ReadFromSTL(bytes.NewReader(b), astisub.STLOptions{})
	if err != nil || s.Metadata == nil {
		return nil
	}
	m := *s.Metadata
	m.Framerate = fps
	m.STLTimecodeStartOfProgramme = 0
	return &m
}

// runBatch writes a list whose boundaries are the given instants (sorted), extracts the fields, re-reads, re-writes.
func runBatch(k *json.Encoder, n *int, format string, fps int, ts []time.Duration) {
	rf := format
	s := astisub.NewSubtitles()
	if format == "stl" {
		s.Metadata = stlMeta(fps)
		if s.Metadata != nil {
			s.Metadata.STLTimecodeStartOfProgramme = stlTcp
		}
	}
	for i := 0; i+1 < len(ts); i += 2 {
		s.Items = append(s.Items, &astisub.Item{StartAt: ts[i], EndAt: ts[i+1],
			Lines: []astisub.Line{{Items: []astisub.LineItem{{Text: "t"}}}}})
	}
	var out, out2 bytes.Buffer
	var err error
	var s2 *astisub.Subtitles
	res, msg := run.Guard(120*time.Second, func() {
		if err = writeDoc(format, s, &out); err != nil {
			return
		}
		if s2, err = readDoc(rf, bytes.NewReader(out.Bytes())); err != nil {
			return
		}
		err = writeDoc(format, s2, &out2)
	})
	if res == "ok" && err != nil {
		res, msg = "err", err.Error()
	}
	var fs []tcFields
	if res == "ok" {
		fs, err = extractTimes(format, out.Bytes())
		if err != nil || len(fs) != len(s.Items)*2 || len(s2.Items) != len(s.Items) {
			res, msg = "extract", fmt.Sprintf("%v: %d fields for %d cues, %d re-read", err, len(fs), len(s.Items), len(s2.Items))
		}
	}
	// the second write is compared on its timestamps (C16 speaks about timestamps; whole-file identity is C19's)
	same := false
	if res == "ok" {
		fs2, err2 := extractTimes(format, out2.Bytes())
		same = err2 == nil && len(fs2) == len(fs)
		for i := range fs2 {
			if same && fs2[i] != fs[i] {
				same = false
			}
		}
	}
	for i := 0; i+1 < len(ts); i += 2 {
		for j := 0; j < 2; j++ {
			*n++
			ev := tcEvent{N: *n, First: i == 0 && j == 0, Fmt: format, Fps: fps, T: split(ts[i+j]), Res: res, Msg: msg, Same2: same}
			if res == "ok" {
				ev.F = fs[i+j]
				if j == 0 {
					ev.Back = split(s2.Items[i/2].StartAt)
				} else {
					ev.Back = split(s2.Items[i/2].EndAt)
				}
			}
			k.Encode(ev)
		}
	}
}

func cmdTimecodec(args []string) error {
	fs := flag.NewFlagSet("timecodec", flag.ExitOnError)
	out := fs.String("out", "", "trace ndjson")
	seed := fs.Int64("seed", 1, "seed")
	format := fs.String("fmt", "srt", "srt vtt ttml ssa stl25 stl30 stl25tcp stl30tcp")
	part := fs.Int("part", 0, "partition")
	parts := fs.Int("parts", 1, "partitions")
	thorough := fs.Bool("thorough", false, "larger grid")
	nrand := fs.Int("nrand", 500, "random ns instants")
	fs.Parse(args)
	o, err := os.Create(*out)
	if err != nil {
		return err
	}
	defer o.Close()
	bw := bufio.NewWriterSize(o, 1<<20)
	defer bw.Flush()
	enc := json.NewEncoder(bw)
	f, fps := *format, 0
	if strings.HasPrefix(f, "stl") {
		fps, _ = strconv.Atoi(f[3:5])
		if strings.HasSuffix(f, "tcp") {
			stlTcp = 10*time.Hour + 20*time.Millisecond
		}
		f = "stl"
	}
	r := rand.New(rand.NewSource(*seed))
	// structured grid of instants
	set := map[time.Duration]bool{}
	add := func(d time.Duration) {
		lim := 100 * time.Hour
		if f == "stl" {
			lim = 24*time.Hour - stlTcp
		}
		if d >= 0 && d < lim {
			set[d] = true
		}
	}
	hours := []int{0, 1, 9, 10, 23, 24, 99}
	msPairs := [][2]int{{0, 0}, {0, 1}, {1, 0}, {58, 59}, {59, 58}, {59, 59}}
	if *thorough {
		msPairs = nil
		for _, m := range []int{0, 1, 58, 59} {
			for _, s := range []int{0, 1, 58, 59} {
				msPairs = append(msPairs, [2]int{m, s})
			}
		}
	}
	base := func(h, m, s int) time.Duration {
		return time.Duration(h)*time.Hour + time.Duration(m)*time.Minute + time.Duration(s)*time.Second
	}
	hi := 0
	for _, h := range hours {
		for _, p := range msPairs {
			hi++
			if !*thorough && hi%3 != int(*seed)%3 && !(h == 0 && p[0] == 0) && !(p[0] == 59 && p[1] == 59) {
				continue // quick tier: a third of the (h,m,s) cells get the full 1000 ms sweep, chosen by the seed
			}
			b := base(h, p[0], p[1])
			for ms := 0; ms < 1000; ms++ {
				add(b + time.Duration(ms)*time.Millisecond)
			}
			// every unit boundary +-1ns: ms, 10 ms, frames
			for ms := 0; ms <= 1000; ms += 10 {
				add(b + time.Duration(ms)*time.Millisecond - 1)
				add(b + time.Duration(ms)*time.Millisecond + 1)
			}
			for _, ms := range []int{1, 9, 11, 99, 101, 499, 501, 999} {
				add(b + time.Duration(ms)*time.Millisecond - 1)
				add(b + time.Duration(ms)*time.Millisecond + 1)
				add(b + time.Duration(ms)*time.Millisecond + 999999)
			}
			for _, fr := range []int{25, 30} {
				for k := 0; k <= fr; k++ {
					e := time.Duration((int64(k)*1e9 + int64(fr) - 1) / int64(fr)) // first ns of frame k
					add(b + e)
					add(b + e - 1)
					add(b + e + 1)
				}
			}
		}
	}
	// all (m,s) of an hour x characteristic fractions
	fr := []int{0, 1, 9, 10, 99, 100, 499, 500, 999}
	step := 7
	if *thorough {
		step = 1
	}
	for ms_ := int(*seed) % step; ms_ < 3600; ms_ += step {
		for _, x := range fr {
			add(base(0, ms_/60, ms_%60) + time.Duration(x)*time.Millisecond)
		}
	}
	for i := 0; i < *nrand; i++ {
		add(time.Duration(r.Int63n(int64(100 * time.Hour))))
		add(time.Duration(r.Int63n(int64(24 * time.Hour))))
	}
	var ts []time.Duration
	for d := range set {
		ts = append(ts, d)
	}
	sort.Slice(ts, func(i, j int) bool { return ts[i] < ts[j] })
	// this partition's slice (contiguous so that monotonicity is checked inside it)
	lo, hi2 := len(ts)**part / *parts, len(ts)*(*part+1) / *parts
	ts = ts[lo:hi2]
	n := *part * 10000000
	const batch = 400
	for i := 0; i < len(ts); i += batch {
		j := i + batch
		if j > len(ts) {
			j = len(ts)
		}
		b := ts[i:j]
		if len(b)%2 == 1 {
			b = append(append([]time.Duration{}, b...), b[len(b)-1])
		}
		runBatch(enc, &n, f, fps, b)
	}
	return nil
}
