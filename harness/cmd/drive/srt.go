package main

import (
	"bufio"
	"bytes"
	"encoding/json"
	"flag"
	"math/rand"
	"os"
	"time"

	astisub "github.com/asticode/go-astisub"
	"verif/harness/internal/run"
	"verif/harness/internal/srtx"
)

func init() {
	cmds["srt"] = cmdSrt
}

type srtCase struct {
	G []srtx.Cue `json:"g"`
	D srtx.Doc   `json:"d"`
}

type srtEvent struct {
	N    int        `json:"n"`
	Dir  string     `json:"dir"` // read | write
	G    []srtx.Cue `json:"g"`
	D    srtx.Doc   `json:"d"`
	Post []srtx.Cue `json:"post"`
	Res  string     `json:"res"`
	Msg  string     `json:"msg"`
	Raw  string     `json:"raw"`
	// what the hook at the top of the reader's loop reported, one entry per scanned line:
	// line number, cues appended so far, lines held by the cue being filled
	Hooks [][3]int `json:"hooks"`
}

func normCues(g []srtx.Cue) []srtx.Cue {
	if g == nil {
		return []srtx.Cue{}
	}
	for i := range g {
		if g[i].Lines == nil {
			g[i].Lines = [][]srtx.Run{}
		}
	}
	return g
}

func normDoc(d srtx.Doc) srtx.Doc {
	if d.Toks == nil {
		d.Toks = []srtx.Tok{}
	}
	for i := range d.Toks {
		if d.Toks[i].Its == nil {
			d.Toks[i].Its = []srtx.Inl{}
		}
	}
	return d
}

func srtRead(n int, c srtCase) srtEvent {
	p := srtx.PoolFor(n)
	ev := srtEvent{N: n, Dir: "read", G: normCues(c.G), D: normDoc(c.D), Post: []srtx.Cue{}, Hooks: [][3]int{}}
	raw := srtx.Concretise(c.D, p)
	dumpDoc("srt", n, raw)
	ev.Raw = string(raw)
	var s *astisub.Subtitles
	var err error
	rd := bytes.NewReader(raw)
	astisub.VerifHook = func(site string, key interface{}, kv ...interface{}) {
		if site == "srt.line" && key == interface{}(rd) && len(kv) == 3 {
			ev.Hooks = append(ev.Hooks, [3]int{kv[0].(int), kv[1].(int), kv[2].(int)})
		}
	}
	ev.Res, ev.Msg = run.Guard(10*time.Second, func() { s, err = astisub.ReadFromSRT(rd) })
	astisub.VerifHook = nil
	if ev.Res == "ok" && err != nil {
		ev.Res, ev.Msg = "err", err.Error()
	}
	if ev.Res == "ok" {
		ev.Post = srtx.Project(s, p)
	}
	return ev
}

func srtWrite(n int, g []srtx.Cue) srtEvent {
	p := srtx.PoolFor(n)
	ev := srtEvent{N: n, Dir: "write", G: normCues(g), D: normDoc(srtx.Doc{}), Post: []srtx.Cue{}, Hooks: [][3]int{}}
	s := srtx.Build(g, p)
	var buf bytes.Buffer
	var err error
	ev.Res, ev.Msg = run.Guard(10*time.Second, func() { err = s.WriteToSRT(&buf) })
	if ev.Res == "ok" && err != nil {
		if len(g) == 0 && err == astisub.ErrNoSubtitlesToWrite {
			ev.Res = "empty" // the documented outcome for an empty list
			return ev
		}
		ev.Res, ev.Msg = "err", err.Error()
		return ev
	}
	if ev.Res != "ok" {
		return ev
	}
	ev.Raw = buf.String()
	d, _ := srtx.Lex(buf.Bytes(), p)
	ev.D = normDoc(d)
	var s2 *astisub.Subtitles
	res, msg := run.Guard(10*time.Second, func() { s2, err = astisub.ReadFromSRT(bytes.NewReader(buf.Bytes())) })
	if res != "ok" || err != nil {
		ev.Res, ev.Msg = "reread-failed", msg
		if err != nil {
			ev.Msg = err.Error()
		}
		return ev
	}
	ev.Post = srtx.Project(s2, p)
	return ev
}

func cmdSrt(args []string) error {
	fs := flag.NewFlagSet("srt", flag.ExitOnError)
	in := fs.String("cases", "", "cases ndjson ({g,d} pairs)")
	out := fs.String("out", "", "trace ndjson")
	n0 := fs.Int("n0", 0, "first case number")
	seed := fs.Int64("seed", 1, "seed for the random driver")
	num := fs.Int("num", 0, "random cases (big lists)")
	fs.Parse(args)
	o, err := os.Create(*out)
	if err != nil {
		return err
	}
	defer o.Close()
	bw := bufio.NewWriterSize(o, 1<<20)
	defer bw.Flush()
	enc := json.NewEncoder(bw)
	n := *n0
	seenG := map[string]bool{}
	if *in != "" {
		f, err := os.Open(*in)
		if err != nil {
			return err
		}
		defer f.Close()
		sc := bufio.NewScanner(f)
		sc.Buffer(make([]byte, 1<<20), 1<<26)
		for sc.Scan() {
			var c srtCase
			if err := json.Unmarshal(sc.Bytes(), &c); err != nil {
				return err
			}
			n++
			if err := enc.Encode(srtRead(n, c)); err != nil {
				return err
			}
			// each distinct ground truth is also written (once per pool)
			gb, _ := json.Marshal(c.G)
			key := string(gb) + "/" + string(rune('0'+n%5))
			if !seenG[key] {
				seenG[key] = true
				if err := enc.Encode(srtWrite(n, c.G)); err != nil {
					return err
				}
			}
		}
		if err := sc.Err(); err != nil {
			return err
		}
	}
	r := rand.New(rand.NewSource(*seed))
	for i := 0; i < *num; i++ {
		n++
		g := randSrtTruth(r)
		if err := enc.Encode(srtWrite(n, g)); err != nil {
			return err
		}
		// and read back a hand-rendered document of the same truth (closed tags, random blank padding)
		if err := enc.Encode(srtRead(n, srtCase{G: g, D: renderSrt(r, g)})); err != nil {
			return err
		}
	}
	return nil
}

func randSrtTruth(r *rand.Rand) []srtx.Cue {
	n := r.Intn(25)
	g := make([]srtx.Cue, n)
	t := 0
	for i := range g {
		t += r.Intn(5000)
		d := 1 + r.Intn(9000)
		if r.Intn(10) == 0 {
			t += 3600000 * r.Intn(30)
		}
		if t+d >= 360000000 {
			t = r.Intn(1000)
		}
		g[i].S, g[i].E = t, t+d
		nl := 1 + r.Intn(3)
		for j := 0; j < nl; j++ {
			nr := 1 + r.Intn(3)
			var runs []srtx.Run
			for k := 0; k < nr; k++ {
				run_ := srtx.Run{A: 1 + r.Intn(2), B: r.Intn(3) == 0, I: r.Intn(3) == 0, U: r.Intn(4) == 0}
				if r.Intn(3) == 0 {
					run_.C = 1 + r.Intn(2)
				}
				// two adjacent runs without markup are one run in SubRip: not a distinct ground truth
				if k > 0 && !run_.B && !run_.I && !run_.U && run_.C == 0 {
					pr := runs[len(runs)-1]
					if !pr.B && !pr.I && !pr.U && pr.C == 0 {
						run_.B = true
					}
				}
				runs = append(runs, run_)
			}
			g[i].Lines = append(g[i].Lines, runs)
		}
		t += d
	}
	return g
}

func renderSrt(r *rand.Rand, g []srtx.Cue) srtx.Doc {
	d := srtx.Doc{Eol: []string{"lf", "crlf", "cr"}[r.Intn(3)], Bom: r.Intn(2) == 0}
	blank := srtx.Tok{K: "blank", Its: []srtx.Inl{}}
	for i, c := range g {
		switch r.Intn(3) {
		case 0:
			d.Toks = append(d.Toks, srtx.Tok{K: "idx", V: i + 1, Its: []srtx.Inl{}})
		case 1:
			d.Toks = append(d.Toks, srtx.Tok{K: "junk", Its: []srtx.Inl{}})
		}
		fd := 3
		d.Toks = append(d.Toks, srtx.Tok{K: "timing", S: c.S, E: c.E, Sep: []string{",", "."}[r.Intn(2)], Fd: fd, Sp: r.Intn(3), Xy: r.Intn(4) == 0, Its: []srtx.Inl{}})
		for _, l := range c.Lines {
			t := srtx.Tok{K: "text", Its: []srtx.Inl{}}
			for _, ru := range l {
				var open, close_ []srtx.Inl
				if ru.C != 0 {
					open = append(open, srtx.Inl{T: "o", G: "font", C: ru.C})
					close_ = append([]srtx.Inl{{T: "c", G: "font"}}, close_...)
				}
				for _, tg := range []struct {
					on bool
					g  string
				}{{ru.B, "b"}, {ru.I, "i"}, {ru.U, "u"}} {
					if tg.on {
						open = append(open, srtx.Inl{T: "o", G: tg.g})
						close_ = append([]srtx.Inl{{T: "c", G: tg.g}}, close_...)
					}
				}
				t.Its = append(t.Its, open...)
				t.Its = append(t.Its, srtx.Inl{T: "x", A: ru.A})
				t.Its = append(t.Its, close_...)
			}
			d.Toks = append(d.Toks, t)
		}
		nb := 1 + r.Intn(3)
		if i == len(g)-1 {
			nb = r.Intn(4)
		}
		for k := 0; k < nb; k++ {
			d.Toks = append(d.Toks, blank)
		}
	}
	return normDoc(d)
}
