package main

import (
	"bufio"
	"bytes"
	"encoding/json"
	"flag"
	"fmt"
	"io"
	"io/ioutil"
	"math/rand"
	"os"
	"path/filepath"
	"strings"
	"time"

	astisub "github.com/asticode/go-astisub"
	"verif/harness/internal/iox"
	"verif/harness/internal/project"
	"verif/harness/internal/run"
)

func init() {
	cmds["deliver"] = cmdDeliver
	cmds["faults"] = cmdFaults
}

// ioEvent is one observed end-to-end call (C17 deliver / C18 faults).
type ioEvent struct {
	N      int    `json:"n"`
	First  bool   `json:"first"` // first event of a history (deliver: the all-at-once parse of a document)
	Kind   string `json:"kind"`  // deliver | readfault | writefault | writeclean | longline | file
	Fmt    string `json:"fmt"`
	Doc    string `json:"doc"`
	Len    int    `json:"len"`
	Sched  string `json:"sched"`  // label of the delivery schedule
	K      int    `json:"k"`      // fault offset
	Inside bool   `json:"inside"` // the fault offset lies inside the part of the stream the format defines
	Res    string `json:"res"`    // ok | err | panic | timeout
	Digest string `json:"digest"` // canonical digest of the result ("ERR" when the call failed)
	Items  int    `json:"items"`
	Expect int    `json:"expect"` // longline: number of cues the document holds
	Msg    string `json:"msg"`
}

func parseWith(format string, data []byte, sched []iox.Step) (res, digest string, items int, msg string) {
	var s *astisub.Subtitles
	var err error
	var r io.Reader = iox.NewScripted(data, sched)
	if len(sched) == 1 && sched[0].K == "bytes.Reader" {
		r = bytes.NewReader(data) // the everyday reader: seekable, fills every read
	}
	if len(sched) == 1 && sched[0].K == "seekable" {
		r = &iox.SeekableChunked{Data: data, Chunk: sched[0].N} // seekable, but with short reads
	}
	res, msg = run.Guard(20*time.Second, func() { s, err = readDoc(format, r) })
	if res != "ok" {
		return res, "", 0, msg
	}
	if err != nil {
		return "err", "ERR", 0, err.Error()
	}
	return "ok", project.Digest(s), len(s.Items), ""
}

type sink struct {
	enc *json.Encoder
	n   int
}

func (k *sink) put(ev ioEvent) {
	k.n++
	ev.N = k.n
	if ev.Kind != "deliver" {
		ev.First = true
	}
	k.enc.Encode(ev)
}

func openSink(path string, n0 int) (*sink, func(), error) {
	o, err := os.Create(path)
	if err != nil {
		return nil, nil, err
	}
	bw := bufio.NewWriterSize(o, 1<<20)
	return &sink{enc: json.NewEncoder(bw), n: n0}, func() { bw.Flush(); o.Close() }, nil
}

// cmdDeliver: C17 end to end. For every document: the all-at-once result, then every single split point,
// one-byte reads, half reads, random chunkings, data-with-EOF, zero-length reads, buffer-aligned splits.
func cmdDeliver(args []string) error {
	fs := flag.NewFlagSet("deliver", flag.ExitOnError)
	out := fs.String("out", "", "trace ndjson")
	seed := fs.Int64("seed", 1, "seed")
	part := fs.Int("part", 0, "partition")
	parts := fs.Int("parts", 1, "partitions")
	large := fs.Bool("large", false, "include large generated documents")
	nrand := fs.Int("nrand", 5, "random chunkings per document")
	maxSplit := fs.Int("maxsplit", 2500, "documents longer than this get sampled split points")
	extra := fs.String("extra", "", "directory with additional documents (named *.srt, *.ts, ...)")
	scale := fs.Int("scale", 1, "size factor of the large documents")
	nearp := fs.Int("nearp", 48, "1/p of the split points next to a line break or block edge are taken on large documents")
	fs.Parse(args)
	k, closeFn, err := openSink(*out, *part*10000000)
	if err != nil {
		return err
	}
	defer closeFn()
	docs := derivedDocsScaled(testdataDocs(), *large, *scale)
	docs = append(docs, extraDocs(*extra)...)
	r := rand.New(rand.NewSource(*seed))
	for di, d := range docs {
		if di%*parts != *part {
			continue
		}
		formats := []string{d.Fmt}
		if d.Fmt == "stl" {
			formats = append(formats, "stl-ignore")
		}
		for _, f := range formats {
			emit := func(label string, sched []iox.Step) {
				res, dg, items, msg := parseWith(f, d.Data, sched)
				k.put(ioEvent{First: label == "bytes.Reader", Kind: "deliver", Fmt: f, Doc: d.Name, Len: len(d.Data), Sched: label, Res: res, Digest: dg, Items: items, Msg: msg})
			}
			n := len(d.Data)
			// the reference: the document in a bytes.Reader; every other delivery goes through a plain io.Reader
			// (no Seek, no ReadFrom) that hands the bytes out as scheduled
			emit("bytes.Reader", []iox.Step{{N: n, K: "bytes.Reader"}})
			emit("seekable-one-byte", []iox.Step{{N: 1, K: "seekable"}})
			emit("seekable-half", []iox.Step{{N: (n+1)/2 + 1, K: "seekable"}})
			emit("all-at-once", nil)
			emit("all-with-eof", []iox.Step{{n, "eof"}})
			emit("one-byte", iox.Chunks(n, 1))
			emit("half", iox.Chunks(n, (n+1)/2+1))
			emit("zero-then-all", []iox.Step{{0, "ok"}, {n, "ok"}})
			emit("bytes-with-zero-reads", iox.Chunks(n, 3, 0, 1, 0, 0, 7))
			emit("last-byte-with-eof", []iox.Step{{n - 1, "ok"}, {1, "eof"}})
			// every single split point (sampled beyond maxSplit: every position around a CR, LF or block edge, plus a stride)
			for p := 1; p < n; p++ {
				if n > *maxSplit {
					near := d.Data[p-1] == '\r' || d.Data[p-1] == '\n' || d.Data[p] == '\n' || p%128 <= 1 || p%1024 <= 1
					if !(near && r.Intn(*nearp) == 0) && r.Intn(n/150+1) != 0 {
						continue
					}
				}
				emit("split", []iox.Step{{p, "ok"}})
			}
			for i := 0; i < *nrand; i++ {
				var sizes []int
				for j := 0; j < 16; j++ {
					sizes = append(sizes, r.Intn(1+r.Intn(64)))
				}
				sizes = append(sizes, 1+r.Intn(300))
				emit("random", iox.Chunks(n, sizes...))
			}
			if n > 4096 {
				emit("4096", iox.Chunks(n, 4096))
				emit("4095+1", iox.Chunks(n, 4095, 1))
				emit("4097", iox.Chunks(n, 4097))
			}
			if n > 65536 {
				emit("65536", iox.Chunks(n, 65536))
				emit("65535", iox.Chunks(n, 65535))
			}
		}
	}
	return nil
}

func extraDocs(dir string) []doc {
	if dir == "" {
		return nil
	}
	var out []doc
	files, _ := filepath.Glob(filepath.Join(dir, "*"))
	for _, f := range files {
		if ft := fmtOfExt(f); ft != "" {
			if b, err := ioutil.ReadFile(f); err == nil {
				out = append(out, doc{Name: "x:" + filepath.Base(f), Fmt: ft, Data: b})
			}
		}
	}
	return out
}

// rootEnd returns the offset just after the end tag of the TTML root element (the part of the stream the
// XML decoder consumes).
func rootEnd(b []byte) int {
	i := bytes.LastIndex(b, []byte("</tt>"))
	if i < 0 {
		i = bytes.LastIndex(b, []byte("</tt:tt>"))
		if i < 0 {
			return len(b)
		}
		return i + len("</tt:tt>")
	}
	return i + len("</tt>")
}

// cmdFaults: C18 end to end.
func cmdFaults(args []string) error {
	fs := flag.NewFlagSet("faults", flag.ExitOnError)
	out := fs.String("out", "", "trace ndjson")
	seed := fs.Int64("seed", 1, "seed")
	part := fs.Int("part", 0, "partition")
	parts := fs.Int("parts", 1, "partitions")
	large := fs.Bool("large", false, "include large generated documents (sampled offsets)")
	maxAll := fs.Int("maxall", 3000, "documents up to this size get every fault offset")
	extra := fs.String("extra", "", "directory with additional documents")
	fs.Parse(args)
	k, closeFn, err := openSink(*out, *part*10000000)
	if err != nil {
		return err
	}
	defer closeFn()
	r := rand.New(rand.NewSource(*seed))
	docs := derivedDocs(testdataDocs(), *large)
	docs = append(docs, extraDocs(*extra)...)
	hung := map[string]bool{}
	for di, d := range docs {
		if di%*parts != *part {
			continue
		}
		// only documents that parse are interesting for silent truncation
		res0, dg0, _, _ := parseWith(d.Fmt, d.Data, nil)
		if res0 != "ok" || dg0 == "ERR" {
			continue
		}
		n := len(d.Data)
		end := n
		if d.Fmt == "ttml" {
			end = rootEnd(d.Data)
		}
		for p := 0; p <= n; p++ {
			if n > *maxAll && r.Intn(n / *maxAll * 4 + 1) != 0 && p != n && p != 0 {
				continue
			}
			for _, lbl := range []string{"fail-after", "fail-with-data", "fail-after-unexpected-eof", "fail-with-data-unexpected-eof"} {
				var sched []iox.Step
				switch lbl {
				case "fail-after":
					sched = iox.FailAt(p)
				case "fail-with-data":
					if p == 0 {
						continue
					}
					sched = []iox.Step{{p, "fail"}} // the failing read also carries data
				case "fail-after-unexpected-eof":
					// the stream's own error value is io.ErrUnexpectedEOF (what a decompressor reports for a cut stream)
					sched = iox.FailAtWith(p, "fail:ueof")
				case "fail-with-data-unexpected-eof":
					if p == 0 {
						continue
					}
					sched = []iox.Step{{p, "fail:ueof"}}
				}
				// a call that hangs keeps spinning in its goroutine: one witness per (format, kind of fault) is recorded,
				// the remaining offsets of that combination are not tried in this process
				if hung[d.Fmt+"|"+lbl] {
					continue
				}
				res, dg, items, msg := parseWith(d.Fmt, d.Data, sched)
				if res == "timeout" {
					hung[d.Fmt+"|"+lbl] = true
				}
				if dg == "ERR" {
					res = "err"
				}
				k.put(ioEvent{Kind: "readfault", Fmt: d.Fmt, Doc: d.Name, Len: n, K: p, Inside: p < end || (d.Fmt != "ttml"), Sched: lbl,
					Res: res, Digest: dg, Items: items, Msg: msg})
			}
		}
		// writers: every fault offset of the output
		s0, err := readDoc(d.Fmt, bytes.NewReader(d.Data))
		if err != nil || s0 == nil || n > *maxAll {
			continue
		}
		for _, wf := range writeFormats {
			var ref bytes.Buffer
			var werr error
			res, msg := run.Guard(30*time.Second, func() { werr = writeDoc(wf, s0, &ref) })
			if res != "ok" || werr != nil {
				// a writer that cannot write this list at all is C07/C08's business, not a fault-injection case
				continue
			}
			// clean run into the recording writer: everything must arrive
			cw := &iox.FailingWriter{Limit: ref.Len() + 1000}
			res, msg = run.Guard(30*time.Second, func() { werr = writeDoc(wf, s0, cw) })
			ev := ioEvent{Kind: "writeclean", Fmt: wf, Doc: d.Name, Len: ref.Len(), Res: res, Msg: msg, Items: len(cw.Got)}
			if res == "ok" && werr != nil {
				ev.Res = "err"
			}
			// STL embeds the clock: compare lengths only there
			ev.Inside = bytes.Equal(cw.Got, ref.Bytes()) || (wf == "stl" && len(cw.Got) == ref.Len())
			k.put(ev)
			for p := 0; p < ref.Len(); p++ {
				if ref.Len() > 1500 && r.Intn(ref.Len()/700+1) != 0 && p != 0 && p != ref.Len()-1 {
					continue
				}
				fw := &iox.FailingWriter{Limit: p}
				res, msg := run.Guard(30*time.Second, func() { werr = writeDoc(wf, s0, fw) })
				ev := ioEvent{Kind: "writefault", Fmt: wf, Doc: d.Name, Len: ref.Len(), K: p, Inside: true, Res: res, Msg: msg}
				if res == "ok" && werr != nil {
					ev.Res = "err"
				}
				k.put(ev)
				// the same fault reported together with a full count
				if p == 0 || p == ref.Len()-1 || p == ref.Len()/2 {
					fw := &iox.FailingWriter{Limit: p, Full: true}
					res, msg := run.Guard(30*time.Second, func() { werr = writeDoc(wf, s0, fw) })
					ev := ioEvent{Kind: "writefault", Fmt: wf, Doc: d.Name, Len: ref.Len(), K: p, Sched: "full-count", Inside: true, Res: res, Msg: msg}
					if res == "ok" && werr != nil {
						ev.Res = "err"
					}
					k.put(ev)
				}
			}
		}
	}
	if *part == 0 {
		longLines(k)
		fileHelpers(k)
		// "a writer's successful return means the complete document was handed to the destination": lists of n cues
		// around the sizes at which a writer might batch its output; what arrived is read back and must hold n cues
		// (Inside = it does; for STL also 1024 + 128 n bytes)
		for _, nc := range []int{1, 2, 63, 64, 65, 127, 128, 129, 256} {
			s := astisub.NewSubtitles()
			for i := 0; i < nc; i++ {
				s.Items = append(s.Items, &astisub.Item{StartAt: time.Duration(2*i) * time.Second, EndAt: time.Duration(2*i+1) * time.Second,
					Lines: []astisub.Line{{Items: []astisub.LineItem{{Text: fmt.Sprintf("cue %d", i)}}}}})
			}
			for _, wf := range writeFormats {
				cw := &iox.FailingWriter{Limit: 1 << 30}
				var werr error
				res, msg := run.Guard(30*time.Second, func() { werr = writeDoc(wf, s, cw) })
				ev := ioEvent{Kind: "writeclean", Fmt: wf, Doc: fmt.Sprintf("list-of-%d", nc), Len: len(cw.Got), Res: res, Msg: msg, Items: len(cw.Got), Expect: nc}
				if res == "ok" && werr != nil {
					ev.Res = "err"
				}
				if ev.Res == "ok" {
					back, rerr := readDoc(wf, bytes.NewReader(cw.Got))
					ev.Inside = rerr == nil && back != nil && len(back.Items) == nc && (wf != "stl" || len(cw.Got) == 1024+128*nc)
				}
				k.put(ev)
			}
		}
	}
	return nil
}

// longLines: documents in which one line has 2^16, 2^16+1 and 2^20 bytes, followed by more cues.
func longLines(k *sink) {
	for _, ll := range []int{1 << 16, 1<<16 + 1, 1 << 20, 70000} {
		long := strings.Repeat("m 0 0 l 10 10 ", ll/14+1)[:ll]
		srt := "1\n00:00:01,000 --> 00:00:02,000\nfirst\n\n2\n00:00:03,000 --> 00:00:04,000\n" + long + "\n\n3\n00:00:05,000 --> 00:00:06,000\nthird\n\n4\n00:00:07,000 --> 00:00:08,000\nfourth\n"
		vtt := "WEBVTT\n\n" + strings.ReplaceAll(srt, ",", ".")
		ssa := "[Script Info]\nScriptType: v4.00+\n\n[V4+ Styles]\nFormat: Name, Fontname, Fontsize\nStyle: Default,Arial,20\n\n[Events]\nFormat: Layer, Start, End, Style, Name, MarginL, MarginR, MarginV, Effect, Text\n" +
			"Dialogue: 0,0:00:01.00,0:00:02.00,Default,,0,0,0,,first\nDialogue: 0,0:00:03.00,0:00:04.00,Default,,0,0,0,,{\\p1}" + long + "\nDialogue: 0,0:00:05.00,0:00:06.00,Default,,0,0,0,,third\nDialogue: 0,0:00:07.00,0:00:08.00,Default,,0,0,0,,fourth\n"
		// the over-long line sits where the reader does not look at the content: a comment block, a style block, a section
		// it does not know - the cues after it are lost all the same unless the reader says so
		vttNote := "WEBVTT\n\n00:00:01.000 --> 00:00:02.000\nfirst\n\nNOTE " + long + "\n\n00:00:03.000 --> 00:00:04.000\nsecond\n\n00:00:05.000 --> 00:00:06.000\nthird\n\n00:00:07.000 --> 00:00:08.000\nfourth\n"
		ssaUnk := "[Script Info]\nScriptType: v4.00+\n\n[Events]\nFormat: Layer, Start, End, Style, Name, MarginL, MarginR, MarginV, Effect, Text\n" +
			"Dialogue: 0,0:00:01.00,0:00:02.00,Default,,0,0,0,,first\nDialogue: 0,0:00:03.00,0:00:04.00,Default,,0,0,0,,second\n\n[Graphics]\nfilename: logo.bmp\n" + long + "\n\n[Events]\n" +
			"Format: Layer, Start, End, Style, Name, MarginL, MarginR, MarginV, Effect, Text\nDialogue: 0,0:00:05.00,0:00:06.00,Default,,0,0,0,,third\nDialogue: 0,0:00:07.00,0:00:08.00,Default,,0,0,0,,fourth\n"
		for _, c := range []struct{ f, d string }{{"srt", srt}, {"vtt", vtt}, {"ssa", ssa}, {"vtt", vttNote}, {"ssa", ssaUnk}} {
			res, dg, items, msg := parseWith(c.f, []byte(c.d), nil)
			if dg == "ERR" {
				res = "err"
			}
			k.put(ioEvent{Kind: "longline", Fmt: c.f, Doc: "longline", Len: ll, Res: res, Items: items, Expect: 4, Msg: msg})
		}
	}
}

func fileHelpers(k *sink) {
	dir, err := ioutil.TempDir("", "verif-files-")
	if err != nil {
		return
	}
	defer os.RemoveAll(dir)
	put := func(what string, want string, f func() error) {
		var e error
		res, msg := run.Guard(10*time.Second, func() { e = f() })
		if res == "ok" && e != nil {
			res = "err"
		}
		k.put(ioEvent{Kind: "file", Doc: what, Sched: want, Res: res, Msg: msg})
	}
	s := astisub.NewSubtitles()
	s.Items = append(s.Items, &astisub.Item{StartAt: time.Second, EndAt: 2 * time.Second, Lines: []astisub.Line{{Items: []astisub.LineItem{{Text: "x"}}}}})
	for _, ext := range []string{".srt", ".vtt", ".ssa", ".stl", ".ttml", ".ts"} {
		ext := ext
		put("open-missing"+ext, "err", func() error { _, e := astisub.OpenFile(filepath.Join(dir, "missing"+ext)); return e })
		put("open-directory"+ext, "err", func() error {
			p := filepath.Join(dir, "dir"+ext)
			os.Mkdir(p, 0o755)
			_, e := astisub.OpenFile(p)
			return e
		})
		if ext != ".ts" {
			put("write-no-such-dir"+ext, "err", func() error { return s.Write(filepath.Join(dir, "nodir", "out"+ext)) })
			put("write-onto-directory"+ext, "err", func() error {
				p := filepath.Join(dir, "wdir"+ext)
				os.Mkdir(p, 0o755)
				return s.Write(p)
			})
		}
	}
	// a destination that can be created but not written: every write to /dev/full fails with ENOSPC (the fault may
	// surface on the first byte or, with a buffering helper, only at the final flush - a short and a long document)
	if _, err := os.Stat("/dev/full"); err == nil {
		big := astisub.NewSubtitles()
		for i := 0; i < 300; i++ {
			big.Items = append(big.Items, &astisub.Item{StartAt: time.Duration(i) * time.Second, EndAt: time.Duration(i+1) * time.Second,
				Lines: []astisub.Line{{Items: []astisub.LineItem{{Text: "a line of text that makes the document long"}}}}})
		}
		for _, ext := range []string{".srt", ".vtt", ".ssa", ".stl", ".ttml"} {
			ext := ext
			for li, list := range []*astisub.Subtitles{s, big} {
				name := []string{"short", "long"}[li]
				p := filepath.Join(dir, "full-"+name+ext)
				if os.Symlink("/dev/full", p) != nil {
					continue
				}
				put("write-device-full-"+name+ext, "err", func() error { return list.Write(p) })
			}
		}
	}
	put("write-ok.srt", "ok", func() error { return s.Write(filepath.Join(dir, "ok.srt")) })
	put("open-ok.srt", "ok", func() error { _, e := astisub.OpenFile(filepath.Join(dir, "ok.srt")); return e })
}
