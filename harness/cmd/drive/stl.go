package main

import (
	"bufio"
	"bytes"
	"encoding/json"
	"flag"
	"os"
	"time"

	astisub "github.com/asticode/go-astisub"
	"verif/harness/internal/run"
	"verif/harness/internal/stlx"
)

func init() {
	cmds["stl"] = cmdStl
}

type stlCase struct {
	G stlx.Truth `json:"g"`
	D stlx.Doc   `json:"d"`
}

type stlEvent struct {
	N      int        `json:"n"`
	Dir    string     `json:"dir"`    // read | write
	Ignore bool       `json:"ignore"` // read: option IgnoreTimecodeStartOfProgramme
	Mode   string     `json:"mode"`   // write: metadata full | nil | foreign
	G      stlx.Truth `json:"g"`
	D      stlx.Doc   `json:"d"`
	Post   stlx.Read  `json:"post"`
	Size   int        `json:"size"` // write: bytes emitted
	Tc2    bool       `json:"tc2"`  // write: read + write again left every timecode unchanged
	Res    string     `json:"res"`
	Msg    string     `json:"msg"`
	// what the hook after parseTTIBlock reported, one entry per TTI block: cues so far, extension block number
	Hooks []stlHook `json:"hooks"`
}

type stlHook struct {
	Items int `json:"items"`
	Ebn   int `json:"ebn"`
}

func stlRead(n int, c stlCase, ignore bool) stlEvent {
	c.G.Norm()
	c.D.Norm()
	ev := stlEvent{N: n, Dir: "read", Ignore: ignore, G: c.G, D: c.D, Hooks: []stlHook{}}
	ev.Post.Norm()
	raw := stlx.Pack(c.D)
	if n%3 == 2 && len(raw) > 255 {
		// the time code status of the GSI block ('1' intended for use, '0' not): it says nothing about the programme
		// start, which the statement subtracts "unless told to ignore it"
		raw[255] = '0'
	}
	dumpDoc("stl", n, raw)
	var s *astisub.Subtitles
	var err error
	rd := bytes.NewReader(raw)
	astisub.VerifHook = func(site string, key interface{}, kv ...interface{}) {
		if site == "stl.tti" && key == interface{}(rd) && len(kv) == 2 {
			ev.Hooks = append(ev.Hooks, stlHook{kv[0].(int), toInt(kv[1])})
		}
	}
	ev.Res, ev.Msg = run.Guard(10*time.Second, func() {
		s, err = astisub.ReadFromSTL(rd, astisub.STLOptions{IgnoreTimecodeStartOfProgramme: ignore})
	})
	astisub.VerifHook = nil
	if ev.Res == "ok" && err != nil {
		ev.Res, ev.Msg = "err", err.Error()
	}
	if ev.Res == "ok" {
		ev.Post = stlx.Project(s)
	}
	return ev
}

func toInt(v interface{}) int {
	switch x := v.(type) {
	case int:
		return x
	case uint8:
		return int(x)
	case uint16:
		return int(x)
	case uint32:
		return int(x)
	case uint:
		return int(x)
	}
	return -1
}

func timecodes(d stlx.Doc) (out [][4]int) {
	out = append(out, d.Tcp) // the timecode start of programme of the GSI block is a timecode like the others
	for _, t := range d.Ttis {
		out = append(out, t.Tci, t.Tco)
	}
	return
}

func stlWrite(n int, g stlx.Truth, mode string) stlEvent {
	g.Norm()
	ev := stlEvent{N: n, Dir: "write", Mode: mode, G: g, Hooks: []stlHook{}}
	ev.D.Norm()
	ev.Post.Norm()
	s := stlx.Build(g, mode)
	var buf, buf2 bytes.Buffer
	var err error
	ev.Res, ev.Msg = run.Guard(10*time.Second, func() { err = s.WriteToSTL(&buf) })
	if ev.Res == "ok" && err != nil {
		ev.Res, ev.Msg = "err", err.Error()
	}
	if ev.Res != "ok" {
		return ev
	}
	ev.Size = buf.Len()
	d, uerr := stlx.Unpack(buf.Bytes())
	if uerr != nil {
		ev.Res, ev.Msg = "bad-size", uerr.Error()
		return ev
	}
	ev.D = d
	var s2 *astisub.Subtitles
	res, msg := run.Guard(10*time.Second, func() {
		if s2, err = astisub.ReadFromSTL(bytes.NewReader(buf.Bytes()), astisub.STLOptions{}); err == nil {
			err = s2.WriteToSTL(&buf2)
		}
	})
	if res != "ok" || err != nil {
		ev.Res, ev.Msg = "reread-failed", msg
		if err != nil {
			ev.Msg = err.Error()
		}
		return ev
	}
	ev.Post = stlx.Project(s2)
	if d2, e2 := stlx.Unpack(buf2.Bytes()); e2 == nil {
		a, b := timecodes(d), timecodes(d2)
		ev.Tc2 = len(a) == len(b)
		for i := range a {
			if ev.Tc2 && a[i] != b[i] {
				ev.Tc2 = false
			}
		}
	}
	return ev
}

func cmdStl(args []string) error {
	fs := flag.NewFlagSet("stl", flag.ExitOnError)
	in := fs.String("cases", "", "cases ndjson ({g,d} pairs)")
	out := fs.String("out", "", "trace ndjson")
	n0 := fs.Int("n0", 0, "first case number")
	fs.Int64("seed", 1, "unused")
	fs.Int("num", 0, "unused")
	fs.Parse(args)
	o, err := os.Create(*out)
	if err != nil {
		return err
	}
	defer o.Close()
	bw := bufio.NewWriterSize(o, 1<<20)
	defer bw.Flush()
	enc := json.NewEncoder(bw)
	if *in == "" {
		return nil
	}
	f, err := os.Open(*in)
	if err != nil {
		return err
	}
	defer f.Close()
	sc := bufio.NewScanner(f)
	sc.Buffer(make([]byte, 1<<20), 1<<26)
	n := *n0
	seenG := map[string]bool{}
	for sc.Scan() {
		var c stlCase
		if err := json.Unmarshal(sc.Bytes(), &c); err != nil {
			return err
		}
		n++
		for _, ig := range []bool{false, true} {
			if err := enc.Encode(stlRead(n, c, ig)); err != nil {
				return err
			}
		}
		gb, _ := json.Marshal(c.G)
		if !seenG[string(gb)] {
			seenG[string(gb)] = true
			for _, mode := range []string{"full", "nil", "foreign"} {
				if !writable(c.G, mode) {
					continue
				}
				if err := enc.Encode(stlWrite(n, c.G, mode)); err != nil {
					return err
				}
			}
		}
	}
	return sc.Err()
}

// writable says whether a truth is inside the writer's quantifier: the STL writer carries italics, underline and
// boxing (the statement lists those), not teletext colours / double height; without STL metadata the writer picks
// 25 fps and no programme offset, so only truths expressed at 25 fps / offset 0 have timecodes to compare.
func writable(g stlx.Truth, mode string) bool {
	for _, c := range g.Cues {
		for _, row := range c.Rows {
			for _, r := range row {
				if r.Col >= 0 || r.Dh != 0 {
					return false
				}
			}
		}
	}
	if mode != "full" && (g.Fps != 25 || g.Tcp != [4]int{}) {
		return false
	}
	return true
}
