package main

// styleprop: the cross-format attribute propagation of subtitles.go (propagateSRTAttributes, propagateWebVTTAttributes,
// propagateTTMLAttributes, propagateSTLAttributes) as seen through a conversion: a one-cue, one-run document of
// format src carrying the look x is read, written as dst and read back. The event holds the looks after the first
// read ("mid") and after the read-back ("out"); spec/StyleProp.tla predicts both (TraceStyleProp). Cue count, text
// and times are C07's own clauses; the looks are outside the statement and a mismatch is impl-model drift.

import (
	"bufio"
	"bytes"
	"encoding/json"
	"flag"
	"fmt"
	"os"
	"strings"
	"time"

	astisub "github.com/asticode/go-astisub"
	"verif/harness/internal/run"
	"verif/harness/internal/stlx"
)

func init() { cmds["styleprop"] = cmdStyleProp }

// spX: the look a source document carries; every field is present for every source (uniform JSON records), a
// source only uses its own: srt b i u col | vtt tags align pos line voice | ssa voice | ttml col talign | stl jc vp mnr dsc it un bx
type spX struct {
	B      bool     `json:"b"`
	I      bool     `json:"i"`
	U      bool     `json:"u"`
	Col    string   `json:"col"`
	Tags   []string `json:"tags"`
	Align  string   `json:"align"`
	Pos    string   `json:"pos"`
	Line   string   `json:"line"`
	TAlign string   `json:"talign"`
	Jc     int      `json:"jc"`
	Vp     int      `json:"vp"`
	Mnr    int      `json:"mnr"`
	Dsc    int      `json:"dsc"`
	It     bool     `json:"it"`
	Un     bool     `json:"un"`
	Bx     bool     `json:"bx"`
	Voice  string   `json:"voice"`
	Title  string   `json:"title"` // document metadata: ttml title lang fr copy | ssa title | stl title lang fr
	Lang   string   `json:"lang"`  // Metadata.Language value ("" | english | french)
	Fr     int      `json:"fr"`    // 0 | 25 | 30
	Copy   string   `json:"copy"`
}

type spCase struct {
	Src string `json:"src"`
	Dst string `json:"dst"`
	X   spX    `json:"x"`
}

// spSA: the observed part of one StyleAttributes value ("" / false / -1 when the pointer is nil)
type spSA struct {
	Has    bool     `json:"has"` // the InlineStyle pointer is set
	B      bool     `json:"b"`
	I      bool     `json:"i"`
	U      bool     `json:"u"`
	Wb     bool     `json:"wb"` // WebVTTBold / Italics / Underline
	Wi     bool     `json:"wi"`
	Wu     bool     `json:"wu"`
	Col    string   `json:"col"`  // SRTColor
	TCol   string   `json:"tcol"` // TTMLColor
	Tags   []string `json:"tags"` // WebVTTTags, "name" or "name.class1.class2"
	Align  string   `json:"align"`
	Pos    string   `json:"pos"`
	Line   string   `json:"line"`
	TAlign string   `json:"talign"`
	Just   string   `json:"just"` // STLJustification: nil | u | l | c | r
	Row    int      `json:"row"`  // STLPosition.VerticalPosition, -1 = nil
	It     bool     `json:"it"`
	Un     bool     `json:"un"`
	Bx     bool     `json:"bx"`
}

type spLook struct {
	Cue   spSA   `json:"cue"`
	Run   spSA   `json:"run"`
	Voice string `json:"voice"` // VoiceName of the first line
	Meta  spMeta `json:"meta"`
}

// spMeta: the format-neutral part of Metadata (zero values when Metadata is nil)
type spMeta struct {
	Title string `json:"title"`
	Lang  string `json:"lang"`
	Fr    int    `json:"fr"`
	Copy  string `json:"copy"`
}

type spEvent struct {
	N      int    `json:"n"`
	Src    string `json:"src"`
	Dst    string `json:"dst"`
	X      spX    `json:"x"`
	Res    string `json:"res"` // ok | err:<stage> | panic | hang
	Msg    string `json:"msg"`
	Cues   int    `json:"cues"`   // cues read back
	TextOK bool   `json:"textok"` // the read-back cue's text is the source's
	TimeOK bool   `json:"timeok"` // the read-back cue's times are the source's (all sources sit on every grid)
	Mid    spLook `json:"mid"`
	Out    spLook `json:"out"`
}

const spText = "Hello"

func spSource(src string, x spX) ([]byte, error) {
	switch src {
	case "srt":
		t := spText
		if x.U {
			t = "<u>" + t + "</u>"
		}
		if x.I {
			t = "<i>" + t + "</i>"
		}
		if x.B {
			t = "<b>" + t + "</b>"
		}
		if x.Col != "" {
			t = `<font color="` + x.Col + `">` + t + "</font>"
		}
		return []byte("1\n00:00:01,000 --> 00:00:03,000\n" + t + "\n"), nil
	case "vtt":
		t := spText
		for k := len(x.Tags) - 1; k >= 0; k-- {
			name := x.Tags[k]
			if p := strings.IndexByte(name, '.'); p >= 0 {
				name = name[:p]
			}
			t = "<" + x.Tags[k] + ">" + t + "</" + name + ">"
		}
		h := "00:00:01.000 --> 00:00:03.000"
		if x.Align != "" {
			h += " align:" + x.Align
		}
		if x.Line != "" {
			h += " line:" + x.Line
		}
		if x.Pos != "" {
			h += " position:" + x.Pos
		}
		if x.Voice != "" {
			t = "<v " + x.Voice + ">" + t
		}
		return []byte("WEBVTT\n\n" + h + "\n" + t + "\n"), nil
	case "ttml":
		p, s := "", ""
		if x.TAlign != "" {
			p = ` tts:textAlign="` + x.TAlign + `"`
		}
		if x.Col != "" {
			s = ` tts:color="` + x.Col + `"`
		}
		tt, head := "", ""
		if x.Lang != "" {
			tt += ` xml:lang="` + map[string]string{"english": "en", "french": "fr"}[x.Lang] + `"`
		}
		if x.Fr != 0 {
			tt += fmt.Sprintf(` ttp:frameRate="%d"`, x.Fr)
		}
		if x.Title != "" || x.Copy != "" {
			head = "<head><metadata>"
			if x.Copy != "" {
				head += "<ttm:copyright>" + x.Copy + "</ttm:copyright>"
			}
			if x.Title != "" {
				head += "<ttm:title>" + x.Title + "</ttm:title>"
			}
			head += "</metadata></head>"
		}
		return []byte(`<?xml version="1.0" encoding="UTF-8"?>` + "\n" +
			`<tt xmlns="http://www.w3.org/ns/ttml" xmlns:tts="http://www.w3.org/ns/ttml#styling" xmlns:ttm="http://www.w3.org/ns/ttml#metadata" ` +
			`xmlns:ttp="http://www.w3.org/ns/ttml#parameter"` + tt + `>` + head + `<body><div>` +
			`<p begin="00:00:01.000" end="00:00:03.000"` + p + `><span` + s + `>` + spText + `</span></p></div></body></tt>`), nil
	case "ssa":
		title := ""
		if x.Title != "" {
			title = "Title: " + x.Title + "\n"
		}
		return []byte("[Script Info]\n" + title + "ScriptType: v4.00\n\n[V4 Styles]\nFormat: Name, Fontname, Fontsize\nStyle: Default,Arial,20\n\n" +
			"[Events]\nFormat: Marked, Start, End, Style, Name, MarginL, MarginR, MarginV, Effect, Text\n" +
			"Dialogue: Marked=0,0:00:01.00,0:00:03.00,Default," + x.Voice + ",0,0,0,," + spText + "\n"), nil
	case "stl":
		var tf []int
		if x.It {
			tf = append(tf, 0x80)
		}
		if x.Un {
			tf = append(tf, 0x82)
		}
		if x.Bx {
			tf = append(tf, 0x84)
		}
		for _, c := range []byte(spText) {
			tf = append(tf, int(c))
		}
		meta := map[string]int{"mnr": x.Mnr, "mnc": 40}
		if x.Title != "" {
			meta["opt"] = 1 // "My programme"
		}
		if x.Lang != "" {
			meta["lang"] = map[string]int{"english": 2, "french": 3}[x.Lang]
		}
		fps := 25
		if x.Fr == 30 {
			fps = 30
		}
		d := stlx.Doc{Fps: fps, Dsc: x.Dsc, Meta: meta,
			Ttis: []stlx.TTI{{Ebn: 255, Tci: [4]int{0, 0, 1, 0}, Tco: [4]int{0, 0, 3, 0}, Vp: x.Vp, Jc: x.Jc, Tf: tf}}}
		return stlx.Pack(d), nil
	}
	return nil, fmt.Errorf("unknown source format %q", src)
}

func spRead(f string, data []byte) (*astisub.Subtitles, error) {
	r := bytes.NewReader(data)
	switch f {
	case "srt":
		return astisub.ReadFromSRT(r)
	case "vtt":
		return astisub.ReadFromWebVTT(r)
	case "ttml":
		return astisub.ReadFromTTML(r)
	case "ssa":
		return astisub.ReadFromSSA(r)
	case "stl":
		return astisub.ReadFromSTL(r, astisub.STLOptions{})
	}
	return nil, fmt.Errorf("unknown format %q", f)
}

func spWrite(f string, s *astisub.Subtitles) ([]byte, error) {
	var b bytes.Buffer
	var err error
	switch f {
	case "srt":
		err = s.WriteToSRT(&b)
	case "vtt":
		err = s.WriteToWebVTT(&b)
	case "ttml":
		err = s.WriteToTTML(&b)
	case "ssa":
		err = s.WriteToSSA(&b)
	case "stl":
		err = s.WriteToSTL(&b)
	default:
		err = fmt.Errorf("unknown format %q", f)
	}
	return b.Bytes(), err
}

func spObserve(sa *astisub.StyleAttributes) spSA {
	o := spSA{Tags: []string{}, Just: "nil", Row: -1}
	if sa == nil {
		return o
	}
	o.Has = true
	o.B, o.I, o.U = sa.SRTBold, sa.SRTItalics, sa.SRTUnderline
	o.Wb, o.Wi, o.Wu = sa.WebVTTBold, sa.WebVTTItalics, sa.WebVTTUnderline
	if sa.SRTColor != nil {
		o.Col = *sa.SRTColor
	}
	if sa.TTMLColor != nil {
		o.TCol = *sa.TTMLColor
	}
	for _, t := range sa.WebVTTTags {
		n := t.Name
		if len(t.Classes) > 0 {
			n += "." + strings.Join(t.Classes, ".")
		}
		o.Tags = append(o.Tags, n)
	}
	o.Align, o.Pos, o.Line = sa.WebVTTAlign, sa.WebVTTPosition, sa.WebVTTLine
	if sa.TTMLTextAlign != nil {
		o.TAlign = *sa.TTMLTextAlign
	}
	if sa.STLJustification != nil {
		switch *sa.STLJustification {
		case astisub.JustificationUnchanged:
			o.Just = "u"
		case astisub.JustificationLeft:
			o.Just = "l"
		case astisub.JustificationCentered:
			o.Just = "c"
		case astisub.JustificationRight:
			o.Just = "r"
		default:
			o.Just = "?"
		}
	}
	if sa.STLPosition != nil {
		o.Row = sa.STLPosition.VerticalPosition
	}
	o.It = sa.STLItalics != nil && *sa.STLItalics
	o.Un = sa.STLUnderline != nil && *sa.STLUnderline
	o.Bx = sa.STLBoxing != nil && *sa.STLBoxing
	return o
}

func spLookOf(s *astisub.Subtitles) spLook {
	l := spLook{Cue: spObserve(nil), Run: spObserve(nil)}
	if s != nil && s.Metadata != nil {
		l.Meta = spMeta{Title: s.Metadata.Title, Lang: s.Metadata.Language, Fr: s.Metadata.Framerate, Copy: s.Metadata.TTMLCopyright}
	}
	if s == nil || len(s.Items) == 0 || s.Items[0] == nil {
		return l
	}
	it := s.Items[0]
	l.Cue = spObserve(it.InlineStyle)
	if len(it.Lines) > 0 {
		l.Voice = it.Lines[0].VoiceName
	}
	for _, ln := range it.Lines {
		for _, li := range ln.Items {
			if strings.TrimSpace(li.Text) != "" {
				l.Run = spObserve(li.InlineStyle)
				return l
			}
		}
	}
	return l
}

func spTextOf(it *astisub.Item) string {
	var parts []string
	for _, ln := range it.Lines {
		for _, li := range ln.Items {
			if t := strings.TrimSpace(li.Text); t != "" {
				parts = append(parts, t)
			}
		}
	}
	return strings.Join(parts, " ")
}

func spRun(n int, c spCase) spEvent {
	ev := spEvent{N: n, Src: c.Src, Dst: c.Dst, X: c.X, Mid: spLook{Cue: spObserve(nil), Run: spObserve(nil)}}
	ev.Out = ev.Mid
	if ev.X.Tags == nil {
		ev.X.Tags = []string{}
	}
	res, msg := run.Guard(10*time.Second, func() {
		ev.Res = "ok"
		data, err := spSource(c.Src, c.X)
		if err != nil {
			ev.Res, ev.Msg = "err:source", err.Error()
			return
		}
		s, err := spRead(c.Src, data)
		if err != nil || s == nil {
			ev.Res, ev.Msg = "err:read", fmt.Sprint(err)
			return
		}
		ev.Mid = spLookOf(s)
		out, err := spWrite(c.Dst, s)
		if err != nil {
			ev.Res, ev.Msg = "err:write", err.Error()
			return
		}
		s2, err := spRead(c.Dst, out)
		if err != nil || s2 == nil {
			ev.Res, ev.Msg = "err:reread", fmt.Sprint(err)
			return
		}
		ev.Cues = len(s2.Items)
		ev.Out = spLookOf(s2)
		if len(s2.Items) == 1 && s2.Items[0] != nil {
			ev.TextOK = spTextOf(s2.Items[0]) == spText
			ev.TimeOK = s2.Items[0].StartAt == time.Second && s2.Items[0].EndAt == 3*time.Second
		}
	})
	if res != "ok" {
		ev.Res, ev.Msg = res, msg
	}
	return ev
}

func cmdStyleProp(args []string) error {
	fs := flag.NewFlagSet("styleprop", flag.ContinueOnError)
	cases := fs.String("cases", "", "ndjson of [src, dst, x] cases (spec/GenStyleProp.tla)")
	out := fs.String("out", "", "trace file")
	if err := fs.Parse(args); err != nil {
		return err
	}
	in, err := os.Open(*cases)
	if err != nil {
		return err
	}
	defer in.Close()
	of, err := os.Create(*out)
	if err != nil {
		return err
	}
	defer of.Close()
	w := bufio.NewWriter(of)
	defer w.Flush()
	enc := json.NewEncoder(w)
	sc := bufio.NewScanner(in)
	sc.Buffer(make([]byte, 1<<20), 1<<24)
	n := 0
	for sc.Scan() {
		if len(bytes.TrimSpace(sc.Bytes())) == 0 {
			continue
		}
		var c spCase
		if err := json.Unmarshal(sc.Bytes(), &c); err != nil {
			return fmt.Errorf("case %d: %v", n+1, err)
		}
		n++
		if err := enc.Encode(spRun(n, c)); err != nil {
			return err
		}
	}
	return sc.Err()
}
