package main

import (
	"bufio"
	"bytes"
	"crypto/sha1"
	"encoding/json"
	"flag"
	"fmt"
	"io/ioutil"
	"math/rand"
	"os"
	"os/exec"
	"path/filepath"
	"sort"
	"strconv"
	"strings"
	"time"

	astisub "github.com/asticode/go-astisub"
	"verif/harness/internal/project"
	"verif/harness/internal/run"
)

func init() {
	cmds["writers"] = cmdWriters
}

type wStyle struct {
	Attrs []int `json:"attrs"`
	Css   []int `json:"css"`
}

type wCase struct {
	Styles  []wStyle `json:"styles"`
	Regions [][]int  `json:"regions"`
	Meta    bool     `json:"meta"`
	Keys    int      `json:"keys"` // 0: map key = ID; 1: foreign keys; 2: foreign keys, the first two styles / regions share one ID; 3: key = ID, pairs differing in letter case only
	Scheme  int      `json:"-"`    // naming scheme of the definitions (set by the driver from the case number)
}

// identifiers of styles: the order of byte-wise sorting, of case-insensitive sorting and of insertion all differ,
// and one scheme holds the name SubStation Alpha treats specially
var styleNames = [][]string{
	{"s1", "s2", "s3", "s4", "s5", "s6"},
	{"Default", "Alt", "Caption", "Bottom", "style_0", "Title"},
	{"Zed", "default", "Main", "xtra", "A", "mid"},
}

// keys 3: identifiers (and keys) of which the first two differ in letter case only
var caseNames = []string{"main", "Main", "other", "Other", "zed", "Zed"}

func styleName(c wCase, i int) string {
	if c.Keys == 3 {
		return caseNames[i%6]
	}
	if c.Keys == 2 && i == 1 {
		i = 0
	}
	return styleNames[c.Scheme%len(styleNames)][i%6]
}

// styleKey / regionKey: the map key of the i-th style / region; foreign keys sort differently from the IDs
func styleKey(c wCase, i int) string {
	if c.Keys == 0 || c.Keys == 3 {
		return styleName(c, i)
	}
	return fmt.Sprintf("k%d-%s", (7-i)%7, styleNames[c.Scheme%len(styleNames)][i%6])
}

func regionID(c wCase, i int) string {
	if c.Keys == 3 {
		return []string{"top", "Top", "bottom", "Bottom", "mid", "Mid"}[i%6]
	}
	if c.Keys == 2 && i == 1 {
		i = 0
	}
	return "r" + strconv.Itoa(i+1)
}

func regionKey(c wCase, i int) string {
	if c.Keys == 0 || c.Keys == 3 {
		return regionID(c, i)
	}
	return fmt.Sprintf("q%d", 9-i)
}

type wEvent struct {
	N      int    `json:"n"`
	First  bool   `json:"first"` // first write of (list, fmt) in this trace file
	List   int    `json:"list"`
	Fmt    string `json:"fmt"`
	Kind   string `json:"kind"` // repeat | rebuilt | after-option | order | process | clock
	Keys   int    `json:"keys"` // how the list's maps are keyed (wCase.Keys)
	Proc   int    `json:"proc"`
	Digest string `json:"digest"`
	Orig   string `json:"orig"`
	Pre    string `json:"pre"`
	Post   string `json:"post"`
	Res    string `json:"res"`
	Msg    string `json:"msg"`
}

func ip(v int) *int        { return &v }
func bp2(v bool) *bool     { return &v }
func sp2(v string) *string { return &v }

// buildW builds the list of a case; perm permutes the insertion order of the maps.
func buildW(c wCase, r *rand.Rand) *astisub.Subtitles {
	s := astisub.NewSubtitles()
	if c.Meta {
		cd := time.Date(2019, 5, 6, 0, 0, 0, 0, time.UTC)
		rd := time.Date(2019, 7, 8, 0, 0, 0, 0, time.UTC)
		s.Metadata = &astisub.Metadata{Framerate: 25, STLDisplayStandardCode: "0", STLCreationDate: &cd, STLRevisionDate: &rd, Title: "T",
			SSAScriptType: []string{"v4.00+", "v4.00"}[c.Keys%2], Language: astisub.LanguageEnglish, STLCountryOfOrigin: "NOR",
			// comments as a program may set them: one of them runs over two lines
			Comments:           []string{"first comment", "second comment\ncontinued on another line", " padded "},
			WebVTTTimestampMap: &astisub.WebVTTTimestampMap{Local: time.Second, MpegTS: 90000}}
	}
	order := r.Perm(len(c.Styles))
	for _, i := range order {
		st := c.Styles[i]
		sa := &astisub.StyleAttributes{}
		for _, a := range st.Attrs {
			switch a {
			case 1:
				sa.SSABold = bp2(i%2 == 0)
				sa.TTMLColor = sp2("#ff0000")
			case 2:
				sa.SSAFontName = "Font " + strconv.Itoa(i)
				sa.TTMLFontStyle = sp2("italic")
			case 3:
				sa.SSAAlignment = ip(2 + i)
				sa.TTMLTextAlign = sp2("center")
			case 4:
				sa.SSAPrimaryColour = &astisub.Color{Red: 255, Green: uint8(i)}
				sa.TTMLZIndex = ip(i)
			}
		}
		for _, l := range st.Css {
			sa.WebVTTStyles = append(sa.WebVTTStyles, fmt.Sprintf("::cue(.s%d) { color: c%d }", i, l))
		}
		s.Styles[styleKey(c, i)] = &astisub.Style{ID: styleName(c, i), InlineStyle: sa}
	}
	if len(c.Styles) > 1 {
		s.Styles[styleKey(c, 1)].Style = s.Styles[styleKey(c, 0)]
	}
	rorder := r.Perm(len(c.Regions))
	for _, i := range rorder {
		sa := &astisub.StyleAttributes{}
		for _, a := range c.Regions[i] {
			switch a {
			case 1:
				sa.WebVTTLines = 3 + i
				sa.TTMLExtent = sp2("80% 10%")
			case 2:
				sa.WebVTTWidth = "40%"
				sa.TTMLOrigin = sp2("10% 80%")
			}
		}
		rg := &astisub.Region{ID: regionID(c, i), InlineStyle: sa}
		if len(c.Styles) > 0 && i%2 == 0 {
			rg.Style = s.Styles[styleKey(c, 0)]
		}
		s.Regions[regionKey(c, i)] = rg
	}
	for k := 0; k < 3; k++ {
		j := astisub.JustificationCentered
		it := &astisub.Item{StartAt: time.Duration(k+1) * time.Second, EndAt: time.Duration(k+2) * time.Second, Index: k + 1,
			InlineStyle: &astisub.StyleAttributes{WebVTTAlign: "start", STLJustification: &j, STLPosition: &astisub.STLPosition{VerticalPosition: 20, MaxRows: 23, Rows: 1}},
			Comments:    []string{"a comment"},
			Lines: []astisub.Line{{VoiceName: "V", Items: []astisub.LineItem{{Text: "Hello"}, {Text: " world", InlineStyle: &astisub.StyleAttributes{SRTBold: true, STLItalics: bp2(true),
				WebVTTTags: []astisub.WebVTTTag{{Name: "b"}}, SSAEffect: `{\i1}`}}}}, {Items: []astisub.LineItem{{Text: "second line"}}}}}
		if len(c.Styles) > 0 && k != 2 {
			// the third cue has no style of its own (though its region may have one)
			it.Style = s.Styles[styleKey(c, k%len(c.Styles))]
			it.Lines[0].Items[0].Style = s.Styles[styleKey(c, 0)]
		}
		if k == 1 {
			it.InlineStyle = nil // a cue without any inline attribute
		}
		if k == 2 {
			// what the TTML reader returns for "<span>x</span><br/><span></span>": a trailing empty run and an empty last line
			it.Lines[1].Items = append(it.Lines[1].Items, astisub.LineItem{Text: ""})
			it.Lines = append(it.Lines, astisub.Line{Items: []astisub.LineItem{{Text: ""}}})
		}
		if len(c.Regions) > 0 {
			it.Region = s.Regions[regionKey(c, k%len(c.Regions))]
		}
		s.Items = append(s.Items, it)
	}
	// a last cue, out of order, that ends at the very instant the first one starts: the last timestamp one write
	// renders is the first one the next write renders
	s.Items = append(s.Items, &astisub.Item{StartAt: 500 * time.Millisecond, EndAt: time.Second, Index: 4,
		Lines: []astisub.Line{{Items: []astisub.LineItem{{Text: "before"}}}}})
	return s
}

func dig(b []byte) string { return fmt.Sprintf("%x", sha1.Sum(b))[:16] }

func writeOnce(s *astisub.Subtitles, f string) (string, string, string) {
	var buf bytes.Buffer
	var err error
	if strings.HasPrefix(f, "file:") {
		// through the file helper, which picks the writer by the extension
		dir, derr := ioutil.TempDir("", "verif-wfile-")
		if derr != nil {
			return "", "err", derr.Error()
		}
		defer os.RemoveAll(dir)
		path := filepath.Join(dir, "out."+strings.TrimPrefix(f, "file:"))
		res, msg := run.Guard(20*time.Second, func() { err = s.Write(path) })
		if res == "ok" && err != nil {
			res, msg = "err", err.Error()
		}
		b, _ := ioutil.ReadFile(path)
		return dig(b), res, msg
	}
	res, msg := run.Guard(20*time.Second, func() { err = writeDoc(strings.TrimSuffix(strings.TrimSuffix(f, "+dates"), "+zerodates"), s, &buf) })
	if res == "ok" && err != nil {
		res, msg = "err", err.Error()
	}
	return dig(buf.Bytes()), res, msg
}

func cmdWriters(args []string) error {
	fs := flag.NewFlagSet("writers", flag.ExitOnError)
	in := fs.String("cases", "", "cases ndjson")
	out := fs.String("out", "", "trace ndjson")
	seed := fs.Int64("seed", 1, "seed")
	reps := fs.Int("reps", 6, "repetitions per (list, format) in this process")
	procs := fs.Int("procs", 2, "additional processes (fresh hash seeds)")
	child := fs.Int("child", 0, "internal: child process number")
	nrand := fs.Int("nrand", 0, "extra random cases with 3..6 styles and regions")
	n0 := fs.Int("n0", 0, "first case number")
	orders := fs.Int("orders", 2, "cases for which all 120 writer orders are tried")
	fs.Parse(args)
	o, err := os.Create(*out)
	if err != nil {
		return err
	}
	defer o.Close()
	bw := bufio.NewWriterSize(o, 1<<20)
	defer bw.Flush()
	enc := json.NewEncoder(bw)
	var cases []wCase
	if *in != "" {
		f, err := os.Open(*in)
		if err != nil {
			return err
		}
		sc := bufio.NewScanner(f)
		sc.Buffer(make([]byte, 1<<20), 1<<26)
		for sc.Scan() {
			var c wCase
			if err := json.Unmarshal(sc.Bytes(), &c); err != nil {
				return err
			}
			cases = append(cases, c)
		}
		f.Close()
	}
	rr := rand.New(rand.NewSource(*seed))
	for i := 0; i < *nrand; i++ {
		var c wCase
		ns := 3 + rr.Intn(4)
		for j := 0; j < ns; j++ {
			var st wStyle
			for a := 1; a <= 4; a++ {
				if rr.Intn(2) == 0 {
					st.Attrs = append(st.Attrs, a)
				}
			}
			for l := 0; l < rr.Intn(3); l++ {
				st.Css = append(st.Css, l+1)
			}
			c.Styles = append(c.Styles, st)
		}
		for j := 0; j < 3+rr.Intn(4); j++ {
			var rg []int
			for a := 1; a <= 2; a++ {
				if rr.Intn(2) == 0 {
					rg = append(rg, a)
				}
			}
			c.Regions = append(c.Regions, rg)
		}
		c.Meta = rr.Intn(2) == 0
		c.Keys = rr.Intn(4)
		cases = append(cases, c)
	}
	for i := range cases {
		cases[i].Scheme = i % len(styleNames)
	}
	// the clock is injectable: fix it so that STL files without metadata dates are comparable at all
	fixed := time.Date(2021, 2, 3, 4, 5, 6, 0, time.UTC)
	astisub.Now = func() time.Time { return fixed }
	n := *n0
	var events []wEvent
	curKeys := 0
	emit := func(list int, f, kind string, s *astisub.Subtitles, orig string) {
		pre := project.Digest(s)
		d, res, msg := writeOnce(s, f)
		post := project.Digest(s)
		n++
		events = append(events, wEvent{N: n, List: list, Fmt: f, Kind: kind, Keys: curKeys, Proc: *child, Digest: d, Orig: orig, Pre: pre, Post: post, Res: res, Msg: msg})
	}
	r := rand.New(rand.NewSource(*seed + int64(*child)*7919))
	for ci, c := range cases {
		list := *n0 + ci + 1
		curKeys = c.Keys
		s := buildW(c, r)
		orig := project.Digest(s)
		kind := "repeat"
		if *child > 0 {
			kind = "process"
		}
		for _, f := range writeFormats {
			for k := 0; k < *reps; k++ {
				emit(list, f, kind, s, orig)
			}
			// the same list built again with another insertion order of the maps
			s2 := buildW(c, r)
			emit(list, f, "rebuilt", s2, project.Digest(s2))
			if f == "ttml" {
				// a writer called with options of its own leaves nothing behind: the next default write gives the same bytes
				var sink bytes.Buffer
				run.Guard(20*time.Second, func() { s2.WriteToTTML(&sink, astisub.WriteToTTMLWithIndentOption("\t")) })
				emit(list, f, "after-option", s, orig)
			}
		}
		if !c.Meta {
			// metadata without dates: the STL dates come from the injectable clock, and from nothing else - the same
			// list written under another injected clock, but with the first clock's date supplied as metadata, gives
			// the same bytes (a register of its own, "stl+dates": a list with metadata denotes other GSI fields than one
			// without)
			s4 := buildW(c, r)
			s4.Metadata = &astisub.Metadata{}
			emit(list, "stl+dates", "clock-default-base", s4, project.Digest(s4))
			s3 := buildW(c, r)
			cd, rd := fixed, fixed
			s3.Metadata = &astisub.Metadata{STLCreationDate: &cd, STLRevisionDate: &rd}
			astisub.Now = func() time.Time { return fixed.Add(1000 * time.Hour) }
			emit(list, "stl+dates", "clock-default", s3, project.Digest(s3))
			astisub.Now = func() time.Time { return fixed }
			// supplied dates are the caller's, whatever their value: the zero instant, supplied, is a date like any
			// other, and the bytes do not follow the clock (register "stl+zerodates")
			for _, now := range []time.Time{fixed, fixed.Add(1000 * time.Hour)} {
				s5 := buildW(c, r)
				s5.Metadata = &astisub.Metadata{STLCreationDate: &time.Time{}, STLRevisionDate: &time.Time{}}
				at := now
				astisub.Now = func() time.Time { return at }
				emit(list, "stl+zerodates", "clock-zero-date", s5, project.Digest(s5))
			}
			astisub.Now = func() time.Time { return fixed }
		}
		if ci%4 == 0 {
			// the file helper, one extension after the other on the same list object (.ass and .ssa share a writer)
			for _, ext := range []string{"ssa", "ass", "ssa", "srt", "vtt", "ttml", "stl", "ssa", "ASS"} {
				emit(list, "file:"+strings.ToLower(ext), kind, s, orig)
			}
		}
		if c.Meta {
			// the metadata supplies the STL dates: another clock must not change the bytes
			astisub.Now = func() time.Time { return fixed.Add(1000 * time.Hour) }
			emit(list, "stl", "clock", s, orig)
			astisub.Now = func() time.Time { return fixed }
		}
		if ci < *orders && *child == 0 {
			// every order of the five writers on one list object
			perm := []int{0, 1, 2, 3, 4}
			var rec func(k int)
			rec = func(k int) {
				if k == len(perm) {
					for _, i := range perm {
						emit(list, writeFormats[i], "order", s, orig)
					}
					return
				}
				for i := k; i < len(perm); i++ {
					perm[k], perm[i] = perm[i], perm[k]
					rec(k + 1)
					perm[k], perm[i] = perm[i], perm[k]
				}
			}
			rec(0)
		}
	}
	// other processes (fresh map hash seeds) write the same lists; all events of a list are then grouped so that the
	// trace can be split at list boundaries (first = first event of a list)
	if *child == 0 {
		for p := 1; p <= *procs; p++ {
			tmp := *out + fmt.Sprintf(".child%d", p)
			cmd := exec.Command(os.Args[0], "writers", "-cases", *in, "-out", tmp, "-seed", strconv.FormatInt(*seed, 10), "-reps", "2",
				"-child", strconv.Itoa(p), "-nrand", strconv.Itoa(*nrand), "-n0", strconv.Itoa(*n0), "-orders", "0")
			// another process may run in another time zone: the bytes are a function of the list
			cmd.Env = append(os.Environ(), "TZ="+[]string{"America/Los_Angeles", "Asia/Tokyo", "Pacific/Kiritimati", "America/Sao_Paulo"}[(p-1)%4])
			if outb, err := cmd.CombinedOutput(); err != nil {
				return fmt.Errorf("child %d: %v: %s", p, err, outb)
			}
			f, err := os.Open(tmp)
			if err != nil {
				return err
			}
			sc := bufio.NewScanner(f)
			sc.Buffer(make([]byte, 1<<20), 1<<26)
			for sc.Scan() {
				var ev wEvent
				if err := json.Unmarshal(sc.Bytes(), &ev); err != nil {
					return err
				}
				ev.N += p * 100000000
				events = append(events, ev)
			}
			f.Close()
			os.Remove(tmp)
		}
	}
	sort.SliceStable(events, func(i, j int) bool { return events[i].List < events[j].List })
	for i := range events {
		events[i].First = i == 0 || events[i].List != events[i-1].List
		if err := enc.Encode(events[i]); err != nil {
			return err
		}
	}
	return nil
}
