package main

import (
	"fmt"
	"io/ioutil"
	"log"
	"os"
)

var cmds = map[string]func(args []string) error{}

func main() {
	log.SetOutput(ioutil.Discard) // the library logs ignored lines through the log package
	if len(os.Args) < 2 {
		fmt.Fprintln(os.Stderr, "usage: drive <cmd> ...")
		os.Exit(2)
	}
	f, ok := cmds[os.Args[1]]
	if !ok {
		fmt.Fprintln(os.Stderr, "unknown command", os.Args[1])
		os.Exit(2)
	}
	if err := f(os.Args[2:]); err != nil {
		fmt.Fprintln(os.Stderr, "drive:", err)
		os.Exit(2)
	}
}
