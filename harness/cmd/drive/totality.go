package main

import (
	"bufio"
	"bytes"
	"encoding/json"
	"flag"
	"fmt"
	"io/ioutil"
	"math/rand"
	"os"
	"path/filepath"
	"strings"
	"time"

	astisub "github.com/asticode/go-astisub"
	"verif/harness/internal/abs"
	"verif/harness/internal/run"
)

func init() {
	cmds["totality"] = cmdTotality
}

type totCase struct {
	Kind  string            `json:"kind"`
	Fmt   string            `json:"fmt"`
	Toks  []string          `json:"toks"`
	Mut   map[string]string `json:"mut"`
	Shape abs.IntMap        `json:"shape"`
}

type totEvent struct {
	N     int      `json:"n"`
	Kind  string   `json:"kind"`
	Label string   `json:"label"`
	Sites []string `json:"sites"`
	Res   []string `json:"res"`
	Msg   string   `json:"msg"`
	Input string   `json:"input"` // what to replay: token list, mutation, shape (JSON) or "doc op offset byte"
}

var tokText = map[string]map[string]string{
	"srt": {
		"idx": "1", "junk": "chapter", "blank": "", "timing": "00:00:01,000 --> 00:00:02,000", "timing-noend": "00:00:01,000 --> ",
		"timing-nostart": " --> 00:00:02,000", "timing-bad": "x --> y", "arrow": "-->", "text": "Hello", "text-tags": "<b><i>x</b></u><font color=>y",
		"text-arrow": "a --> b --> c", "bom": "\xef\xbb\xbf", "timing-2arrows": "00:00:01,000 --> --> 00:00:02,000",
	},
	"vtt": {
		"header": "WEBVTT", "header-bad": "WEBVT", "blank": "", "note": "NOTE hello", "note-bare": "NOTE", "style": "STYLE", "css": "::cue { color: red }",
		"css-open": "::cue {", "region": "Region: id=fred lines=3", "region-bad": "Region: id lines=x", "id": "7", "timing": "00:00:01.000 --> 00:00:02.000",
		"timing-noend": "00:00:01.000 --> ", "timing-nostart": " --> 00:00:02.000", "timing-badset": "00:00:01.000 --> 00:00:02.000 align line:",
		"timing-unkregion": "00:00:01.000 --> 00:00:02.000 region:nobody", "tsmap": "X-TIMESTAMP-MAP=LOCAL:00:00:00.000,MPEGTS:900000",
		"tsmap-bad": "X-TIMESTAMP-MAP=LOCAL,MPEGTS:x", "text": "Hello", "text-unbalanced": "</b></i><c.x><v>a</c></c></c>", "text-v": "<v Bob><v>hi", "text-ts": "a<00:00:01.500><99:99>b<00:00:0x.000>",
		"timing-2arrows": "00:00:01.000 --> --> 00:00:02.000",
	},
	"ssa": {
		"sec-info": "[Script Info]", "sec-styles": "[V4+ Styles]", "sec-events": "[Events]", "sec-unknown": "[Fonts]", "info": "Title: x", "info-badnum": "PlayResX: abc",
		"comment": "; a comment", "junk": "not understood", "colon-only": ":", "format-style": "Format: Name, Fontname, Fontsize, PrimaryColour, Bold",
		"format-event": "Format: Layer, Start, End, Style, Text", "format-empty": "Format:", "style": "Style: Default,Arial,20,&H00FFFFFF,-1", "style-short": "Style: Default,Arial",
		"style-long": "Style: Default,Arial,20,&H00FFFFFF,-1,1,2,3", "style-badnum": "Style: Default,Arial,x,&HZZ,maybe", "dialogue": "Dialogue: 0,0:00:01.00,0:00:02.00,Default,Hello",
		"dialogue-short": "Dialogue: 0,0:00:01.00", "dialogue-badtime": "Dialogue: x,0:0x:01.00,later,*Nobody,{\\i1}{{}}\\N", "comment-event": "Comment: 0,0:00:01.00,0:00:02.00,Default,note", "blank": "",
	},
	"ttml": {
		"p": `<p begin="00:00:01.000" end="00:00:02.000">Hello</p>`, "p-nobegin": `<p end="00:00:02.000">x</p>`, "p-noend": `<p begin="00:00:01.000">x</p>`, "p-notimes": `<p>x</p>`,
		"p-badtime": `<p begin="1:2" end="abc">x</p>`, "p-unkstyle": `<p begin="1s" end="2s" style="nobody">x</p>`, "p-unkregion": `<p begin="1s" end="2s" region="nowhere">x</p>`,
		"p-span": `<p begin="1s" end="2s"><span style="s1">a</span><br/><span>b</span></p>`, "p-span-unkstyle": `<p begin="1s" end="2s"><span style="nobody">a</span></p>`,
		"p-br": `<p begin="1s" end="2s"><br/><br/>x<br/></p>`, "p-nested": `<p begin="1s" end="2s"><span>a<span>b<br/>c</span></span></p>`, "p-empty": `<p begin="75f" end="100000t"/>`,
		"style": `<style xml:id="s1" tts:color="red"/>`, "style-unkparent": `<style xml:id="s2" style="nobody"/>`, "style-selfparent": `<style xml:id="s3" style="s3"/>`,
		"region": `<region xml:id="r1" style="s1"/>`, "region-unkstyle": `<region xml:id="r2" style="nobody"/>`, "meta": `<metadata><ttm:title>T</ttm:title></metadata>`, "junk-element": `<foo bar="1"><p/></foo>`,
		"style-1token": `<style xml:id="s4" tts:extent="auto" tts:origin="100%" tts:fontSize="x"/>`,
		// geometry with fewer or more than two tokens under a vertical writing mode (which swaps the two coordinates)
		"style-1token-tb":  `<style xml:id="s5" tts:extent="auto" tts:origin="auto" tts:writingMode="tbrl"/>`,
		"region-1token-tb": `<region xml:id="r3" tts:origin="auto" tts:extent="50%" tts:writingMode="tblr"/>`,
		"p-1token-tb":      `<p begin="1s" end="2s" tts:origin="10%" tts:extent="" tts:writingMode="tb">x</p>`,
		"style-3token-tb":  `<style xml:id="s6" tts:extent="1% 2% 3%" tts:origin=" 1%  2% " tts:writingMode="tbrl"/>`,
	},
}

func concretiseTokens(format string, toks []string) []byte {
	tt := tokText[format]
	if format != "ttml" {
		var b bytes.Buffer
		for _, t := range toks {
			if t == "bom" {
				b.WriteString(tt[t])
				continue
			}
			b.WriteString(tt[t] + "\n")
		}
		return b.Bytes()
	}
	// TTML: head material and paragraphs go to their places inside a well-formed skeleton
	var head, body bytes.Buffer
	for _, t := range toks {
		switch {
		case strings.HasPrefix(t, "style"):
			head.WriteString("<styling>" + tt[t] + "</styling>")
		case strings.HasPrefix(t, "region"):
			head.WriteString("<layout>" + tt[t] + "</layout>")
		case t == "meta":
			head.WriteString(tt[t])
		default:
			body.WriteString(tt[t])
		}
	}
	return []byte(`<tt xmlns="http://www.w3.org/ns/ttml" xmlns:tts="http://www.w3.org/ns/ttml#styling" xmlns:ttm="http://www.w3.org/ns/ttml#metadata" ttp:frameRate="25" xmlns:ttp="http://www.w3.org/ns/ttml#parameter"><head>` +
		head.String() + `</head><body><div>` + body.String() + `</div></body></tt>`)
}

func callReader(format string, data []byte) (string, string) {
	var err error
	res, msg := run.Guard(watchdog(len(data)), func() { _, err = readDoc(format, bytes.NewReader(data)) })
	if res == "ok" && err != nil {
		return "err", ""
	}
	if res == "panic" && thirdPartyDemuxerCrash(msg) {
		// the statement covers the streams the third-party demultiplexer gets through without itself crashing
		return "demuxer-crash", msg
	}
	return res, msg
}

// thirdPartyDemuxerCrash reports whether the panic was raised inside go-astits (frames between panic() and the
// first go-astisub frame include the demultiplexer).
func thirdPartyDemuxerCrash(stack string) bool {
	i := strings.Index(stack, "panic(")
	if i < 0 {
		return false
	}
	rest := stack[i:]
	if j := strings.Index(rest, "go-astisub."); j >= 0 {
		rest = rest[:j]
	}
	return strings.Contains(rest, "go-astits.")
}

// watchdog: generous budget proportional to the input
func watchdog(n int) time.Duration { return 5*time.Second + time.Duration(n)*50*time.Microsecond }

var allReaders = []string{"srt", "vtt", "ssa", "stl", "stl-ignore", "ttml", "ts"}

func stlMutate(m map[string]string) []byte {
	base, err := ioutil.ReadFile(filepath.Join(repoDir(), "testdata", "example-opn-in.stl"))
	if err != nil || len(base) < 1024+128 {
		return nil
	}
	b := append([]byte{}, base...)
	type fld struct{ off, n int }
	gsi := map[string]fld{"dfc": {3, 8}, "dsc": {11, 1}, "cct": {12, 2}, "lc": {14, 2}, "cd": {224, 6}, "rd": {230, 6}, "rn": {236, 2}, "tnb": {238, 5}, "tns": {243, 5},
		"tng": {248, 3}, "mnc": {251, 2}, "mnr": {253, 2}, "tcp": {256, 8}, "tcf": {264, 8}, "tnd": {272, 1}, "dsn": {273, 1}}
	tti := map[string]fld{"tti-ebn": {3, 1}, "tti-tci": {5, 4}, "tti-tco": {9, 4}, "tti-vp": {13, 1}, "tti-jc": {14, 1}, "tti-cf": {15, 1}, "tti-text": {16, 112}}
	fill := func(off, n int, v string) {
		for i := 0; i < n; i++ {
			var c byte
			switch v {
			case "blank":
				c = ' '
			case "letters":
				c = 'x'
			case "zero":
				c = '0'
				if off >= 1024 {
					c = 0
				}
			case "max":
				c = '9'
			case "ff":
				c = 0xff
			case "half-blank": // digits then blanks: shorter than the field once trimmed
				c = '1'
				if i >= n/2 {
					c = ' '
				}
			case "lead-blank":
				c = '1'
				if i == 0 {
					c = ' '
				}
			case "negative": // a sign where only digits belong: -9999
				c = '9'
				if i == 0 {
					c = '-'
				}
			case "plus-sign": // +0001
				c = '0'
				if i == 0 {
					c = '+'
				}
				if i == n-1 {
					c = '1'
				}
			case "control":
				c = byte(i % 0x20)
			case "accent-first":
				c = 'a'
				if i == 0 {
					c = 0xc2
				}
			case "accent-last":
				c = 'a'
				if i == n-1 {
					c = 0xc2
				}
			case "rowbreaks":
				c = 0x8a
			case "full":
				c = 'A' + byte(i%26)
			}
			b[off+i] = c
		}
	}
	if f, ok := gsi[m["f"]]; ok {
		fill(f.off, f.n, m["v"])
	} else if f, ok := tti[m["f"]]; ok {
		fill(1024+f.off, f.n, m["v"])
	} else if m["f"] == "size" {
		switch m["v"] {
		case "empty":
			b = nil
		case "gsi-short":
			b = b[:500]
		case "gsi-only":
			b = b[:1024]
		case "tti-short":
			b = b[:1024+100]
		case "tti-plus-one":
			b = b[:1024+129]
		}
	}
	return b
}

var shapeTexts = []string{"plain", "", "́ë leading combining mark", "ctrl\x00\x01\x1b\x7f\u0085", "\U0001F600 non-BMP \U000E0001", "\xff\xfe invalid utf-8", "x\ny\r\nz --> w",
	// marks that only reach the front of the text through canonical decomposition / reordering
	"\u0341abc deprecated tone mark first", "\u0323\u0327x reordered marks first",
	// several marks before the first letter, marks stacked on a letter, a mark and nothing else
	"\u0301\u0308e two leading marks", "e\u0301\u0308\u0323 stacked marks", "\u0301"}

// buildShape builds a value of the public types in which each optional part is present or absent as the shape says.
func buildShape(sh abs.IntMap) *astisub.Subtitles {
	s := &astisub.Subtitles{}
	if sh["meta"] == 1 {
		s.Metadata = &astisub.Metadata{Title: "t"}
		if sh["tsmap"] == 1 {
			s.Metadata.WebVTTTimestampMap = &astisub.WebVTTTimestampMap{Local: time.Second, MpegTS: 9}
		}
	}
	var st *astisub.Style
	switch sh["styles"] {
	case 1:
		s.Styles = map[string]*astisub.Style{}
	case 2:
		st = &astisub.Style{ID: "s"}
		s.Styles = map[string]*astisub.Style{"s": st}
	case 3:
		st = &astisub.Style{ID: "s", InlineStyle: &astisub.StyleAttributes{SSAFontName: "f", WebVTTStyles: []string{"x"}}, Style: &astisub.Style{ID: "parent-not-in-map"}}
		s.Styles = map[string]*astisub.Style{"s": st}
	case 4:
		st = &astisub.Style{ID: "s", InlineStyle: &astisub.StyleAttributes{SSAFontName: "f"}}
		s.Styles = map[string]*astisub.Style{"s": st, "absent": nil}
	}
	var rg *astisub.Region
	switch sh["regions"] {
	case 1:
		s.Regions = map[string]*astisub.Region{}
	case 2:
		rg = &astisub.Region{ID: "r"}
		s.Regions = map[string]*astisub.Region{"r": rg}
	case 3:
		rg = &astisub.Region{ID: "r", InlineStyle: &astisub.StyleAttributes{WebVTTLines: 2}, Style: st}
		s.Regions = map[string]*astisub.Region{"key-differs-from-id": rg}
	case 4:
		rg = &astisub.Region{ID: "r", InlineStyle: &astisub.StyleAttributes{WebVTTLines: 2}}
		s.Regions = map[string]*astisub.Region{"r": rg, "absent": nil}
	}
	it := &astisub.Item{StartAt: time.Second, EndAt: 2 * time.Second}
	if sh["iinl"] == 1 {
		it.InlineStyle = &astisub.StyleAttributes{WebVTTAlign: "start"}
		if sh["stlpos"] == 1 {
			it.InlineStyle.STLPosition = &astisub.STLPosition{VerticalPosition: 5}
			j := astisub.JustificationRight
			it.InlineStyle.STLJustification = &j
		}
	}
	switch sh["istyle"] {
	case 1:
		it.Style = st
	case 2:
		it.Style = &astisub.Style{ID: "detached"}
	}
	switch sh["iregion"] {
	case 1:
		it.Region = rg
	case 2:
		it.Region = &astisub.Region{ID: "detached"}
	}
	txt := shapeTexts[sh["text"]%len(shapeTexts)]
	switch sh["lines"] {
	case 1:
		it.Lines = []astisub.Line{{}}
	case 2:
		li := astisub.LineItem{Text: txt}
		if sh["rinl"] == 1 {
			c := "red"
			li.InlineStyle = &astisub.StyleAttributes{SRTColor: &c, TTMLColor: &c, WebVTTTags: []astisub.WebVTTTag{{Name: "b"}, {}}}
		}
		if sh["rstyle"] == 1 {
			li.Style = &astisub.Style{ID: "runstyle"}
		}
		second := astisub.LineItem{Text: txt}
		if r := sh["rinl"]; r >= 2 {
			// neighbouring runs with related tag stacks (the WebVTT writer shares the common prefix of the stacks)
			stacks := [][2][]astisub.WebVTTTag{
				{{{Name: "c", Classes: []string{"loud", "red"}}}, {{Name: "c", Classes: []string{"loud"}}}},
				{{{Name: "c", Classes: []string{"loud"}}}, {{Name: "c", Classes: []string{"loud", "red"}}}},
				{{{Name: "c", Classes: []string{"loud"}}, {Name: "b"}}, {{Name: "c", Classes: []string{"loud"}}}},
				{{{Name: "c"}}, {{Name: "c", Classes: []string{"loud"}}, {Name: "i", Annotation: "x"}}},
			}[(r-2)%4]
			li.InlineStyle = &astisub.StyleAttributes{WebVTTTags: stacks[0]}
			second.InlineStyle = &astisub.StyleAttributes{WebVTTTags: stacks[1]}
		}
		it.Lines = []astisub.Line{{VoiceName: txt, Items: []astisub.LineItem{li, second}}, {Items: []astisub.LineItem{li}}}
	}
	s.Items = []*astisub.Item{it}
	return s
}

func cmdTotality(args []string) error {
	fs := flag.NewFlagSet("totality", flag.ExitOnError)
	in := fs.String("cases", "", "cases ndjson (TLC-enumerated); omit for the byte-level exploration")
	out := fs.String("out", "", "trace ndjson")
	seed := fs.Int64("seed", 1, "seed")
	n0 := fs.Int("n0", 0, "first case number")
	part := fs.Int("part", 0, "partition (exploration)")
	parts := fs.Int("parts", 1, "partitions (exploration)")
	dense := fs.Int("dense", 600, "documents up to this size get every offset (exploration)")
	extra := fs.String("extra", "", "directory with additional documents")
	fs.Int("num", 0, "unused")
	fs.Parse(args)
	o, err := os.Create(*out)
	if err != nil {
		return err
	}
	defer o.Close()
	bw := bufio.NewWriterSize(o, 1<<20)
	defer bw.Flush()
	enc := json.NewEncoder(bw)
	n := *n0
	put := func(ev totEvent) {
		n++
		ev.N = n
		enc.Encode(ev)
	}
	if *in != "" {
		f, err := os.Open(*in)
		if err != nil {
			return err
		}
		defer f.Close()
		sc := bufio.NewScanner(f)
		sc.Buffer(make([]byte, 1<<20), 1<<26)
		for sc.Scan() {
			var c totCase
			if err := json.Unmarshal(sc.Bytes(), &c); err != nil {
				return err
			}
			switch c.Kind {
			case "tokens":
				data := concretiseTokens(c.Fmt, c.Toks)
				res, msg := callReader(c.Fmt, data)
				put(totEvent{Kind: "tokens", Label: c.Fmt, Sites: []string{"read-" + c.Fmt}, Res: []string{res}, Msg: msg, Input: strings.Join(c.Toks, " ")})
			case "stl":
				data := stlMutate(c.Mut)
				ev := totEvent{Kind: "stl", Label: c.Mut["f"] + "=" + c.Mut["v"], Input: c.Mut["f"] + "=" + c.Mut["v"]}
				for _, r := range []string{"stl", "stl-ignore"} {
					res, msg := callReader(r, data)
					ev.Sites, ev.Res = append(ev.Sites, "read-"+r), append(ev.Res, res)
					if msg != "" {
						ev.Msg = msg
					}
				}
				put(ev)
			case "shape":
				sb, _ := json.Marshal(c.Shape)
				ev := totEvent{Kind: "shape", Label: "writers", Input: string(sb)}
				for _, wf := range writeFormats {
					s := buildShape(c.Shape)
					var buf bytes.Buffer
					res, msg := run.Guard(10*time.Second, func() { err = writeDoc(wf, s, &buf) })
					if res == "ok" && err != nil {
						res = "err"
					}
					ev.Sites, ev.Res = append(ev.Sites, "write-"+wf), append(ev.Res, res)
					if msg != "" && ev.Msg == "" {
						ev.Msg = msg
					}
				}
				// transformations on the same shapes (they are part of the public surface and must not panic either)
				for _, op := range []string{"optimize", "removestyling", "merge", "unfragment", "fragment", "forceduration"} {
					if c.Shape["styles"] == 4 || c.Shape["regions"] == 4 {
						break // a nil entry in a map: the statement speaks of the writers, the operations' own statements of definitions
					}
					s := buildShape(c.Shape)
					res, msg := run.Guard(10*time.Second, func() {
						switch op {
						case "optimize":
							s.Optimize()
						case "removestyling":
							s.RemoveStyling()
						case "merge":
							(&astisub.Subtitles{}).Merge(s)
						case "unfragment":
							s.Unfragment()
						case "fragment":
							s.Fragment(500 * time.Millisecond)
						case "forceduration":
							s.ForceDuration(1500*time.Millisecond, true)
						}
					})
					ev.Sites, ev.Res = append(ev.Sites, op), append(ev.Res, res)
					if msg != "" && ev.Msg == "" {
						ev.Msg = msg
					}
				}
				put(ev)
			}
		}
		return sc.Err()
	}
	// exploration: truncations, splices and junk on valid documents, every reader on every document
	r := rand.New(rand.NewSource(*seed))
	docs := derivedDocs(testdataDocs(), false)
	docs = append(docs, extraDocs(*extra)...)
	interesting := []byte{0x00, 0xff, '\n', '\r', ':', '-', '>', '<', ' ', ',', '.', '&', '[', '{', 0x0b, 0x8a, 0xc2, '9'}
	for di, d := range docs {
		if di%*parts != *part {
			continue
		}
		own := []string{d.Fmt}
		if d.Fmt == "stl" {
			own = append(own, "stl-ignore")
		}
		try := func(label, input string, readers []string, data []byte) {
			ev := totEvent{Kind: "bytes", Label: label, Input: input}
			for _, rd := range readers {
				res, msg := callReader(rd, data)
				ev.Sites, ev.Res = append(ev.Sites, "read-"+rd), append(ev.Res, res)
				if msg != "" && ev.Msg == "" {
					ev.Msg = msg
				}
			}
			put(ev)
		}
		// the document itself through every reader (cross-format input is arbitrary input)
		try("cross", d.Name, allReaders, d.Data)
		nlen := len(d.Data)
		for p := 0; p <= nlen; p++ {
			if nlen > *dense && r.Intn(nlen / *dense + 1) != 0 {
				continue
			}
			try("truncate", fmt.Sprintf("%s truncate %d", d.Name, p), own, d.Data[:p])
			if p < nlen {
				b := interesting[r.Intn(len(interesting))]
				m := append([]byte{}, d.Data...)
				m[p] = b
				try("replace", fmt.Sprintf("%s replace %d %d", d.Name, p, b), own, m)
				m2 := append(append(append([]byte{}, d.Data[:p]...), b), d.Data[p:]...)
				try("insert", fmt.Sprintf("%s insert %d %d", d.Name, p, b), own, m2)
				m3 := append(append([]byte{}, d.Data[:p]...), d.Data[p+1:]...)
				try("delete", fmt.Sprintf("%s delete %d", d.Name, p), own, m3)
			}
		}
		// splice: a random chunk of another document of the same format in the middle
		for k := 0; k < 10; k++ {
			o2 := docs[r.Intn(len(docs))]
			if len(o2.Data) < 4 || nlen < 4 {
				continue
			}
			a, b2 := r.Intn(nlen), r.Intn(len(o2.Data))
			c2 := b2 + r.Intn(len(o2.Data)-b2)
			m := append(append(append([]byte{}, d.Data[:a]...), o2.Data[b2:c2]...), d.Data[a:]...)
			try("splice", fmt.Sprintf("%s splice %d %s %d %d", d.Name, a, o2.Name, b2, c2), own, m)
		}
	}
	if *part == 0 {
		// random junk and degenerate inputs through every reader
		for k := 0; k < 300; k++ {
			b := make([]byte, r.Intn(3000))
			r.Read(b)
			ev := totEvent{Kind: "junk", Label: "random", Input: fmt.Sprintf("seed %d #%d len %d", *seed, k, len(b))}
			for _, rd := range allReaders {
				res, msg := callReader(rd, b)
				ev.Sites, ev.Res = append(ev.Sites, "read-"+rd), append(ev.Res, res)
				if msg != "" && ev.Msg == "" {
					ev.Msg = msg
				}
			}
			put(ev)
		}
		// the extension-dispatching opener
		dir, err := ioutil.TempDir("", "verif-open-")
		if err == nil {
			defer os.RemoveAll(dir)
			for _, d := range docs[:minInt(len(docs), 12)] {
				for _, ext := range []string{".srt", ".SRT", ".vtt", ".ssa", ".ass", ".stl", ".ttml", ".ts", ".txt", ""} {
					p := filepath.Join(dir, "f"+ext)
					ioutil.WriteFile(p, d.Data, 0o644)
					var e error
					res, msg := run.Guard(30*time.Second, func() { _, e = astisub.OpenFile(p) })
					if res == "ok" && e != nil {
						res = "err"
					}
					put(totEvent{Kind: "open", Label: ext, Sites: []string{"open" + ext}, Res: []string{res}, Msg: msg, Input: d.Name + " as " + ext})
				}
			}
		}
	}
	return nil
}

func minInt(a, b int) int {
	if a < b {
		return a
	}
	return b
}
