package main

import (
	"bytes"
	"fmt"
	"io"
	"io/ioutil"
	"os"
	"path/filepath"
	"sort"
	"strconv"
	"strings"
	"verif/harness/internal/stlx"

	astisub "github.com/asticode/go-astisub"
)

// doc is one input document of the end-to-end checks.
type doc struct {
	Name string
	Fmt  string // srt vtt ssa stl ttml ts
	Data []byte
}

func repoDir() string {
	if d := os.Getenv("VERIF_REPO"); d != "" {
		return d
	}
	return "/repo"
}

func fmtOfExt(name string) string {
	switch strings.ToLower(filepath.Ext(name)) {
	case ".srt":
		return "srt"
	case ".vtt":
		return "vtt"
	case ".ssa", ".ass":
		return "ssa"
	case ".stl":
		return "stl"
	case ".ttml":
		return "ttml"
	case ".ts":
		return "ts"
	}
	return ""
}

// readDoc runs the reader of the document's format on r.
func readDoc(format string, r io.Reader) (*astisub.Subtitles, error) {
	switch format {
	case "srt":
		return astisub.ReadFromSRT(r)
	case "vtt":
		return astisub.ReadFromWebVTT(r)
	case "ssa":
		return astisub.ReadFromSSA(r)
	case "stl":
		return astisub.ReadFromSTL(r, astisub.STLOptions{})
	case "stl-ignore":
		return astisub.ReadFromSTL(r, astisub.STLOptions{IgnoreTimecodeStartOfProgramme: true})
	case "ttml":
		return astisub.ReadFromTTML(r)
	case "ts":
		return astisub.ReadFromTeletext(r, astisub.TeletextOptions{})
	}
	return nil, fmt.Errorf("unknown format %s", format)
}

func writeDoc(format string, s *astisub.Subtitles, w io.Writer) error {
	switch format {
	case "srt":
		return s.WriteToSRT(w)
	case "vtt":
		return s.WriteToWebVTT(w)
	case "ssa":
		return s.WriteToSSA(w)
	case "stl":
		return s.WriteToSTL(w)
	case "ttml":
		return s.WriteToTTML(w)
	}
	return fmt.Errorf("unknown format %s", format)
}

var writeFormats = []string{"srt", "vtt", "ssa", "stl", "ttml"}

// testdataDocs returns the repository's own sample documents.
func testdataDocs() []doc {
	var out []doc
	files, _ := filepath.Glob(filepath.Join(repoDir(), "testdata", "*"))
	sort.Strings(files)
	for _, f := range files {
		ft := fmtOfExt(f)
		if ft == "" {
			continue
		}
		b, err := ioutil.ReadFile(f)
		if err != nil {
			continue
		}
		out = append(out, doc{Name: filepath.Base(f), Fmt: ft, Data: b})
	}
	return out
}

// dumpDoc keeps every VERIF_DUMP_EVERY-th generated document as a file in VERIF_DUMP_DIR (source documents of
// the conversion check come from the codec generators).
func dumpDoc(ext string, n int, raw []byte) {
	dir := os.Getenv("VERIF_DUMP_DIR")
	if dir == "" {
		return
	}
	every := 50
	if v, err := strconv.Atoi(os.Getenv("VERIF_DUMP_EVERY")); err == nil && v > 0 {
		every = v
	}
	if n%every != 0 {
		return
	}
	ioutil.WriteFile(filepath.Join(dir, fmt.Sprintf("gen%d.%s", n, ext)), raw, 0o644)
}

func isText(f string) bool { return f == "srt" || f == "vtt" || f == "ssa" || f == "ttml" }

// withEOL rewrites every line terminator of a text document.
func withEOL(b []byte, eol string) []byte {
	s := strings.ReplaceAll(string(b), "\r\n", "\n")
	s = strings.ReplaceAll(s, "\r", "\n")
	return []byte(strings.ReplaceAll(s, "\n", eol))
}

// derivedDocs adds EOL variants, truncations (invalid documents) and large generated documents.
func derivedDocs(base []doc, large bool) []doc { return derivedDocsScaled(base, large, 1) }

func derivedDocsScaled(base []doc, large bool, scale int) []doc {
	var out []doc
	for _, d := range base {
		out = append(out, d)
		if isText(d.Fmt) {
			out = append(out, doc{d.Name + "+crlf", d.Fmt, withEOL(d.Data, "\r\n")})
			out = append(out, doc{d.Name + "+cr", d.Fmt, withEOL(d.Data, "\r")})
		}
		if len(d.Data) > 40 {
			out = append(out, doc{d.Name + "+trunc", d.Fmt, d.Data[:len(d.Data)*2/3]})
		}
		// a byte order mark in front (the first read may hold less than all of it)
		if (d.Fmt == "srt" || d.Fmt == "vtt" || d.Fmt == "ssa") && !bytes.HasPrefix(d.Data, []byte{0xEF, 0xBB, 0xBF}) {
			out = append(out, doc{d.Name + "+bom", d.Fmt, append([]byte{0xEF, 0xBB, 0xBF}, d.Data...)})
		}
		// something after the end of the root element (tools sign their exports with a comment)
		if d.Fmt == "ttml" {
			out = append(out, doc{d.Name + "+trailer", d.Fmt, append(append([]byte{}, d.Data...), []byte("\n<!-- exported by subtitle-tool 1.2 -->\n")...)})
		}
	}
	// documents of one single line without a final line break (the smallest files a reader meets)
	for i, o := range []struct{ f, d string }{{"vtt", "WEBVTT"}, {"vtt", "WEBVTT - a title"}, {"srt", "1"}, {"srt", "text only"},
		{"ssa", "[Script Info]"}, {"ssa", "[Events]"}, {"ttml", "<tt></tt>"}} {
		out = append(out, doc{fmt.Sprintf("oneline%d.%s", i, o.f), o.f, []byte(o.d)})
	}
	out = append(out, stlChains()...)
	if large {
		out = append(out, largeDocs(scale)...)
	}
	return out
}

// stlChains: well-formed STL files in which the counts of the GSI block differ from each other and from the number
// of cues the reader returns: a subtitle continued over several TTI blocks (extension block numbers 00h.. then FFh)
// counts once in TNS and once per block in TNB, and user-data blocks (FEh) count in TNB only.
func stlChains() []doc {
	blk := func(ebn, sec int, text string) stlx.TTI {
		var tf []int
		for _, c := range []byte(text) {
			tf = append(tf, int(c))
		}
		return stlx.TTI{Ebn: ebn, Tci: [4]int{0, 0, sec, 0}, Tco: [4]int{0, 0, sec + 1, 0}, Vp: 20, Jc: 2, Tf: tf}
	}
	meta := map[string]int{"mnr": 23, "mnc": 40}
	return []doc{
		{"chain-first.stl", "stl", stlx.Pack(stlx.Doc{Fps: 25, Dsc: 0, Meta: meta, Ttis: []stlx.TTI{blk(0, 1, "continued"), blk(255, 1, "subtitle"), blk(255, 3, "last one")}})},
		{"chain-last.stl", "stl", stlx.Pack(stlx.Doc{Fps: 25, Dsc: 0, Meta: meta, Ttis: []stlx.TTI{blk(255, 1, "first one"), blk(0, 3, "continued"), blk(1, 3, "twice"), blk(255, 3, "subtitle")}})},
		{"userdata-last.stl", "stl", stlx.Pack(stlx.Doc{Fps: 25, Dsc: 0, Meta: meta, Ttis: []stlx.TTI{blk(255, 1, "first one"), blk(255, 3, "second one"), blk(254, 0, "user data")}})},
	}
}

func largeSRT(n int, eol string) []byte {
	var b bytes.Buffer
	for i := 0; i < n; i++ {
		s := i * 2000
		fmt.Fprintf(&b, "%d%s%02d:%02d:%02d,%03d --> %02d:%02d:%02d,%03d%s", i+1, eol,
			s/3600000, s/60000%60, s/1000%60, s%1000, (s+1500)/3600000, (s+1500)/60000%60, (s+1500)/1000%60, (s+1500)%1000, eol)
		fmt.Fprintf(&b, "line %d of the <i>large</i> document%ssecond row %d%s%s", i, eol, i*7, eol, eol)
	}
	return b.Bytes()
}

func largeDocs(scale int) []doc {
	var out []doc
	out = append(out, doc{"large-crlf.srt", "srt", largeSRT(900*scale, "\r\n")})
	out = append(out, doc{"large-cr.srt", "srt", largeSRT(300*scale, "\r")})
	// WebVTT with the same body
	v := append([]byte("WEBVTT\r\n\r\n"), bytes.ReplaceAll(largeSRT(900*scale, "\r\n"), []byte(","), []byte("."))...)
	out = append(out, doc{"large-crlf.vtt", "vtt", v})
	// large STL: repeat the TTI blocks of the sample
	if b, err := ioutil.ReadFile(filepath.Join(repoDir(), "testdata", "example-in.stl")); err == nil && len(b) > 1024+128 {
		var s bytes.Buffer
		s.Write(b[:1024])
		for i := 0; i < 60*scale; i++ {
			s.Write(b[1024:])
		}
		out = append(out, doc{"large.stl", "stl", s.Bytes()})
	}
	// large SSA: repeat the dialogue lines
	if b, err := ioutil.ReadFile(filepath.Join(repoDir(), "testdata", "example-in.ssa")); err == nil {
		txt := withEOL(b, "\r\n")
		idx := bytes.Index(txt, []byte("Dialogue:"))
		if idx > 0 {
			var s bytes.Buffer
			s.Write(txt[:idx])
			for i := 0; i < 200*scale; i++ {
				s.Write(txt[idx:])
				s.WriteString("\r\n")
			}
			out = append(out, doc{"large-crlf.ssa", "ssa", s.Bytes()})
		}
	}
	// large TTML: repeat the paragraphs
	if b, err := ioutil.ReadFile(filepath.Join(repoDir(), "testdata", "example-in.ttml")); err == nil {
		i1 := bytes.Index(b, []byte("<p "))
		i2 := bytes.LastIndex(b, []byte("</p>"))
		if i1 > 0 && i2 > i1 {
			var s bytes.Buffer
			s.Write(b[:i1])
			for i := 0; i < 80*scale; i++ {
				s.Write(b[i1 : i2+4])
				s.WriteString("\n")
			}
			s.Write(b[i2+4:])
			out = append(out, doc{"large.ttml", "ttml", s.Bytes()})
		}
	}
	return out
}
