package main

import (
	"bufio"
	"bytes"
	"encoding/json"
	"errors"
	"flag"
	"io"
	"os"
	"strings"
	"time"

	astisub "github.com/asticode/go-astisub"
	"verif/harness/internal/iox"
	"verif/harness/internal/run"
)

func init() {
	cmds["scan"] = cmdScan
}

type scanCase struct {
	Kind  string     `json:"kind"` // lines | blocks
	Doc   []string   `json:"doc"`  // lines: symbols c,l,x
	Len   int        `json:"len"`  // blocks: byte count
	B     int        `json:"b"`    // blocks: block size
	Sched []iox.Step `json:"sched"`
}

type scanEvent struct {
	N     int        `json:"n"`
	Kind  string     `json:"kind"`
	Doc   []string   `json:"doc"`
	Len   int        `json:"len"`
	B     int        `json:"b"`
	Sched []iox.Step `json:"sched"`
	Out   []int      `json:"out"` // lines: number of x per line (-1: foreign bytes); blocks: [count]
	Err   string     `json:"err"` // nil | fail | toolong | noprogress | short | other
	Res   string     `json:"res"`
	Msg   string     `json:"msg"`
}

func errKind(err error) string {
	switch {
	case err == nil:
		return "nil"
	case errors.Is(err, iox.ErrInjected):
		return "fail"
	case errors.Is(err, bufio.ErrTooLong):
		return "toolong"
	case errors.Is(err, io.ErrNoProgress):
		return "noprogress"
	case strings.Contains(err.Error(), "should have read"):
		return "short"
	}
	return "other"
}

func symBytes(doc []string) []byte {
	b := make([]byte, len(doc))
	for i, s := range doc {
		switch s {
		case "c":
			b[i] = '\r'
		case "l":
			b[i] = '\n'
		default:
			b[i] = 'x'
		}
	}
	return b
}

func execScan(n int, c scanCase) scanEvent {
	ev := scanEvent{N: n, Kind: c.Kind, Doc: c.Doc, Len: c.Len, B: c.B, Sched: c.Sched, Out: []int{}}
	if ev.Doc == nil {
		ev.Doc = []string{}
	}
	if ev.Sched == nil {
		ev.Sched = []iox.Step{}
	}
	switch c.Kind {
	case "lines":
		r := iox.NewScripted(symBytes(c.Doc), c.Sched)
		var lines []string
		var err error
		ev.Res, ev.Msg = run.Guard(10*time.Second, func() { lines, err = astisub.VerifScanLines(r) })
		for _, l := range lines {
			if strings.Trim(l, "x") != "" {
				ev.Out = append(ev.Out, -1)
			} else {
				ev.Out = append(ev.Out, len(l))
			}
		}
		ev.Err = errKind(err)
	case "blocks":
		doc := bytes.Repeat([]byte{0x20}, c.Len)
		for i := range doc {
			doc[i] = byte(i)
		}
		r := iox.NewScripted(doc, c.Sched)
		count := 0
		var err error
		ev.Res, ev.Msg = run.Guard(10*time.Second, func() {
			pos := 0
			for {
				var b []byte
				b, err = astisub.VerifReadNBytes(r, c.B)
				if err != nil {
					if err == io.EOF {
						err = nil
					}
					return
				}
				// the block must hold exactly the next B bytes of the document
				if !bytes.Equal(b, doc[pos:pos+c.B]) {
					err = errors.New("wrong block content")
					return
				}
				pos += c.B
				count++
			}
		})
		ev.Out = []int{count}
		ev.Err = errKind(err)
	}
	return ev
}

func cmdScan(args []string) error {
	fs := flag.NewFlagSet("scan", flag.ExitOnError)
	in := fs.String("cases", "", "cases ndjson")
	out := fs.String("out", "", "trace ndjson")
	n0 := fs.Int("n0", 0, "first case number")
	fs.Parse(args)
	f, err := os.Open(*in)
	if err != nil {
		return err
	}
	defer f.Close()
	o, err := os.Create(*out)
	if err != nil {
		return err
	}
	defer o.Close()
	bw := bufio.NewWriterSize(o, 1<<20)
	defer bw.Flush()
	enc := json.NewEncoder(bw)
	sc := bufio.NewScanner(f)
	sc.Buffer(make([]byte, 1<<20), 1<<26)
	n := *n0
	for sc.Scan() {
		var c scanCase
		if err := json.Unmarshal(sc.Bytes(), &c); err != nil {
			return err
		}
		n++
		if err := enc.Encode(execScan(n, c)); err != nil {
			return err
		}
	}
	return sc.Err()
}
