// Package iox provides harness-controlled io.Reader / io.Writer wrappers: scripted delivery schedules
// (short reads, zero-length reads, data together with EOF), injected faults at a byte offset.
package iox

import (
	"errors"
	"io"
)

// ErrInjected is the non-EOF error returned by faulting readers and writers.
var ErrInjected = errors.New("iox: injected fault")

// Step is one element of a delivery schedule (spec/Scanner.tla): deliver up to N bytes, then report K.
type Step struct {
	N int    `json:"n"`
	K string `json:"k"` // ok | eof | fail | fail:ueof (the stream's own error is io.ErrUnexpectedEOF, as a decompressor reports a cut stream)
}

// Scripted delivers doc according to sched. A step holding more bytes than the caller's buffer is
// delivered in pieces and reports its kind with the last piece. Once the schedule is exhausted the rest
// is delivered in full reads followed by (0, io.EOF).
type Scripted struct {
	doc    []byte
	sched  []Step
	Reads  int
	failed bool // a failed stream keeps failing
	err    error
}

func NewScripted(doc []byte, sched []Step) *Scripted {
	return &Scripted{doc: doc, sched: append([]Step{}, sched...)}
}

func (s *Scripted) Read(p []byte) (int, error) {
	s.Reads++
	if s.failed {
		return 0, s.err
	}
	if len(s.sched) == 0 {
		if len(s.doc) == 0 {
			return 0, io.EOF
		}
		n := copy(p, s.doc)
		s.doc = s.doc[n:]
		return n, nil
	}
	st := &s.sched[0]
	n := st.N
	if n > len(s.doc) {
		n = len(s.doc)
	}
	if n > len(p) {
		// partial delivery of the step
		m := copy(p, s.doc[:len(p)])
		s.doc = s.doc[m:]
		st.N = n - m
		return m, nil
	}
	copy(p, s.doc[:n])
	s.doc = s.doc[n:]
	k := st.K
	s.sched = s.sched[1:]
	switch k {
	case "eof":
		return n, io.EOF
	case "fail":
		s.failed, s.err = true, ErrInjected
		return n, ErrInjected
	case "fail:ueof":
		s.failed, s.err = true, io.ErrUnexpectedEOF
		return n, io.ErrUnexpectedEOF
	}
	return n, nil
}

// Chunked returns a schedule that delivers len bytes in the given chunk sizes (cycled), all "ok".
func Chunks(total int, sizes ...int) []Step {
	var out []Step
	i := 0
	for total > 0 {
		n := sizes[i%len(sizes)]
		if n > total {
			n = total
		}
		if n <= 0 {
			out = append(out, Step{0, "ok"})
			i++
			if i > 100000 {
				break
			}
			continue
		}
		out = append(out, Step{n, "ok"})
		total -= n
		i++
	}
	return out
}

// FailAt returns a schedule that delivers k bytes and then fails (without data).
func FailAt(k int) []Step {
	if k == 0 {
		return []Step{{0, "fail"}}
	}
	return []Step{{k, "ok"}, {0, "fail"}}
}

// SeekableChunked is a well-behaved io.ReadSeeker that hands out at most Chunk bytes per Read (a file on a slow
// medium, a buffered network file): being seekable says nothing about the size of the reads.
type SeekableChunked struct {
	Data  []byte
	Chunk int
	pos   int64
}

func (s *SeekableChunked) Read(p []byte) (int, error) {
	if s.pos >= int64(len(s.Data)) {
		return 0, io.EOF
	}
	n := len(p)
	if n > s.Chunk {
		n = s.Chunk
	}
	n = copy(p[:n], s.Data[s.pos:])
	s.pos += int64(n)
	return n, nil
}

func (s *SeekableChunked) Seek(offset int64, whence int) (int64, error) {
	switch whence {
	case io.SeekStart:
	case io.SeekCurrent:
		offset += s.pos
	case io.SeekEnd:
		offset += int64(len(s.Data))
	}
	if offset < 0 {
		return 0, errors.New("iox: negative position")
	}
	s.pos = offset
	return offset, nil
}

// FailAtWith is FailAt with the given failing kind.
func FailAtWith(k int, kind string) []Step {
	if k == 0 {
		return []Step{{0, kind}}
	}
	return []Step{{k, "ok"}, {0, kind}}
}

// FailingWriter accepts Limit bytes in total and then fails with a short count.
// With Full set, the failing call reports the whole count together with the error (a destination that took the
// bytes and then reported a problem, e.g. a failed flush or sync).
type FailingWriter struct {
	Limit int
	Got   []byte
	Calls int
	Full  bool
}

func (w *FailingWriter) Write(p []byte) (int, error) {
	w.Calls++
	room := w.Limit - len(w.Got)
	if room < 0 {
		room = 0
	}
	if len(p) > room {
		if w.Full {
			w.Got = append(w.Got, p...)
			return len(p), ErrInjected
		}
		w.Got = append(w.Got, p[:room]...)
		return room, ErrInjected
	}
	w.Got = append(w.Got, p...)
	return len(p), nil
}
