// Package tsx builds MPEG transport streams that carry EBU teletext (spec/Teletext.tla): its own teletext packet
// encoder (Hamming 8/4, odd parity, bit order, data units, PES payload) wrapped into a transport stream by the astits
// muxer, and the projection of the library's result onto the abstract cue model. No expected values here.
package tsx

import (
	"bytes"
	"context"
	"fmt"
	"math/bits"
	"time"

	"github.com/asticode/go-astikit"
	astisub "github.com/asticode/go-astisub"
	"github.com/asticode/go-astits"
)

// Cell is one element of a row's content.
type Cell struct {
	K string `json:"k"` // ch | sp | col | box | endbox | dh | nh | parerr
	V int    `json:"v"` // ch: 7-bit code; col: 0..7
}

// Unit is one teletext data unit (or a non-teletext unit) of the stream.
type Unit struct {
	K      string `json:"k"` // hdr | row | x26 | x28 | m29 | x30 | stuff | nonsub | badframe | hamerr | short
	Mag    int    `json:"mag"`
	Pt     int    `json:"pt"` // page tens (hex nibble)
	Pu     int    `json:"pu"` // page units (hex nibble)
	Sub    bool   `json:"sub"`
	Serial bool   `json:"serial"`
	Cs     int    `json:"cs"`
	Erase  bool   `json:"erase"`
	Row    int    `json:"row"`
	Cells  []Cell `json:"cells"`
	Grp    int    `json:"grp"` // x28 / m29: G0 and national option designation of triplet 1 (bits 10..13), 0 = default
	Dc     int    `json:"dc"`  // x28 / m29: designation code of the packet
}

// Pes is one PES packet: presentation time (in 90 kHz ticks relative to the stream's base), PID selector and units.
type Pes struct {
	Pts   int    `json:"pts"`
	Pid   int    `json:"pid"` // 0 = the teletext PID under test, 1 = a second teletext PID, 2 = a non-teletext PID
	Units []Unit `json:"units"`
}

type Stream struct {
	Pes      []Pes `json:"pes"`
	TwoPids  bool  `json:"twopids"`  // the PMT announces a second teletext PID (after the first)
	Repeat   bool  `json:"repeat"`   // PAT/PMT repeated inside the stream
	Vbi      bool  `json:"vbi"`      // the PMT announces the teletext PIDs with the VBI teletext descriptor (tag 46h) instead of the teletext one (56h)
	EmptyPes bool  `json:"emptypes"` // a PES with an empty / one-byte payload is inserted (totality)
}

func (s *Stream) Norm() {
	if s.Pes == nil {
		s.Pes = []Pes{}
	}
	for i := range s.Pes {
		if s.Pes[i].Units == nil {
			s.Pes[i].Units = []Unit{}
		}
		for j := range s.Pes[i].Units {
			if s.Pes[i].Units[j].Cells == nil {
				s.Pes[i].Units[j].Cells = []Cell{}
			}
		}
	}
}

var ham [16]byte
var hamBad byte // a byte the Hamming 8/4 decoder rejects

func init() {
	// the codeword of v is the byte that decodes to v together with all its single-bit corruptions
	found := 0
	for b := 0; b < 256; b++ {
		v, ok := astikit.ByteHamming84Decode(byte(b))
		if !ok || v > 15 {
			continue
		}
		all := true
		for k := 0; k < 8; k++ {
			if w, ok2 := astikit.ByteHamming84Decode(byte(b) ^ (1 << uint(k))); !ok2 || w != v {
				all = false
			}
		}
		if all {
			ham[v] = byte(b)
			found++
		}
	}
	if found != 16 {
		panic(fmt.Sprintf("tsx: found %d Hamming 8/4 codewords", found))
	}
	for b := 0; b < 256; b++ {
		if _, ok := astikit.ByteHamming84Decode(byte(b)); !ok {
			hamBad = byte(b)
			break
		}
	}
}

// parity returns the transmitted byte of a 7-bit character (odd parity, bits in transmission order).
func parity(c byte, broken bool) byte {
	c &= 0x7f
	p := c
	if bits.OnesCount8(c)%2 == 0 {
		p |= 0x80
	}
	if broken {
		p ^= 0x80
	}
	return bits.Reverse8(p)
}

const (
	PidA     = 0x100 // teletext PID under test
	PidB     = 0x101 // a second teletext PID
	PidOther = 0x102 // a private-data PID without teletext descriptor
)

func rowBytes(cells []Cell) []byte {
	out := make([]byte, 0, 40)
	for _, c := range cells {
		switch c.K {
		case "ch":
			out = append(out, parity(byte(c.V), false))
		case "sp":
			out = append(out, parity(0x20, false))
		case "col":
			out = append(out, parity(byte(c.V), false))
		case "box":
			out = append(out, parity(0x0b, false))
		case "endbox":
			out = append(out, parity(0x0a, false))
		case "dh":
			out = append(out, parity(0x0d, false))
		case "nh":
			out = append(out, parity(0x0c, false))
		case "parerr":
			out = append(out, parity(byte(c.V), true))
		}
	}
	for len(out) < 40 {
		out = append(out, parity(0x20, false))
	}
	return out[:40]
}

func magPkt(mag, pkt int) []byte {
	m := mag & 7 // magazine 8 is transmitted as 0
	h := byte(m) | byte(pkt)<<3
	return []byte{ham[h&0xf], ham[h>>4]}
}

// unitBytes encodes one data unit (data_unit_id, length, payload).
func unitBytes(u Unit) []byte {
	payload := func(mag, pkt int, data []byte) []byte {
		b := []byte{0xe0 | 0x07, 0xe4} // field parity / line offset, framing code
		b = append(b, magPkt(mag, pkt)...)
		b = append(b, data...)
		for len(b) < 44 {
			b = append(b, parity(0x20, false))
		}
		return b[:44]
	}
	// what an enhancement / service packet carries behind its designation code: bytes that would read as boxed
	// text if the packet were mistaken for a row
	looksLikeText := func(s string) []byte {
		b := []byte{parity(0x0b, false), parity(0x0b, false)}
		for _, c := range []byte(s) {
			b = append(b, parity(c, false))
		}
		return append(b, parity(0x0a, false), parity(0x0a, false))
	}
	switch u.K {
	case "hdr":
		d := []byte{ham[u.Pu&0xf], ham[u.Pt&0xf], ham[0], ham[0], ham[0], ham[0], ham[0], ham[0]}
		// S2 carries C4 (erase) in bit 3; S4 carries C5, C6 (subtitle) in bits 2, 3
		if u.Erase {
			d[3] = ham[0x8]
		}
		if u.Sub {
			d[5] = ham[0x8]
		}
		c := 0
		if u.Serial {
			c |= 1
		}
		c |= (u.Cs & 7) << 1
		d[7] = ham[c]
		for i := 0; i < 32; i++ {
			d = append(d, parity(0x20, false))
		}
		return append([]byte{0x03, 0x2c}, payload(u.Mag, 0, d)...)
	case "row":
		return append([]byte{0x03, 0x2c}, payload(u.Mag, u.Row, rowBytes(u.Cells))...)
	case "x26":
		return append([]byte{0x03, 0x2c}, payload(u.Mag, 26, append([]byte{ham[0]}, looksLikeText("X26")...))...)
	case "x28":
		// designation code 0, triplet 1 with format bits 0 (format 1) and a G0 designation
		return append([]byte{0x03, 0x2c}, payload(u.Mag, 28, append([]byte{ham[u.Dc&0xf], 0x00, byte(u.Grp << 2), 0x00}, looksLikeText("X28")...))...)
	case "m29":
		return append([]byte{0x03, 0x2c}, payload(u.Mag, 29, append([]byte{ham[u.Dc&0xf], 0x00, byte(u.Grp << 2), 0x00}, looksLikeText("M29")...))...)
	case "x30":
		return append([]byte{0x03, 0x2c}, payload(8, 30, append([]byte{ham[0]}, looksLikeText("X30")...))...)
	case "stuff":
		b := []byte{0xff, 0x2c}
		for i := 0; i < 44; i++ {
			b = append(b, 0xff)
		}
		return b
	case "nonsub":
		return append([]byte{0x02, 0x2c}, payload(u.Mag, u.Row, rowBytes(u.Cells))...)
	case "badframe":
		b := append([]byte{0x03, 0x2c}, payload(u.Mag, u.Row, rowBytes(u.Cells))...)
		b[3] = 0x27
		return b
	case "hamerr":
		b := append([]byte{0x03, 0x2c}, payload(u.Mag, u.Row, rowBytes(u.Cells))...)
		b[4] = hamBad // two bit errors: not correctable
		return b
	case "short":
		// a subtitle data unit that is shorter than a teletext packet (length 2)
		return []byte{0x03, 0x02, 0xe7, 0xe4}
	case "overlong":
		// the length byte points beyond the end of the PES payload
		return []byte{0x03, 0xf0, 0xe7, 0xe4}
	case "cut":
		// the payload ends right after a data_unit_id
		return []byte{0x03}
	}
	return nil
}

// Build returns the transport stream bytes.
func Build(s Stream) ([]byte, error) {
	var buf bytes.Buffer
	opts := []func(*astits.Muxer){}
	if s.Repeat {
		opts = append(opts, astits.MuxerOptTablesRetransmitPeriod(2))
	}
	mx := astits.NewMuxer(context.Background(), &buf, opts...)
	ttx := func(pid uint16, page uint8) astits.PMTElementaryStream {
		if s.Vbi {
			return astits.PMTElementaryStream{ElementaryPID: pid, StreamType: astits.StreamTypePrivateData,
				ElementaryStreamDescriptors: []*astits.Descriptor{{Tag: astits.DescriptorTagVBITeletext, Length: 5,
					VBITeletext: &astits.DescriptorTeletext{Items: []*astits.DescriptorTeletextItem{{Language: []byte("eng"), Type: 2, Magazine: 1, Page: page}}}}}}
		}
		return astits.PMTElementaryStream{ElementaryPID: pid, StreamType: astits.StreamTypePrivateData,
			ElementaryStreamDescriptors: []*astits.Descriptor{{Tag: astits.DescriptorTagTeletext, Length: 5,
				Teletext: &astits.DescriptorTeletext{Items: []*astits.DescriptorTeletextItem{{Language: []byte("eng"), Type: 2, Magazine: 1, Page: page}}}}}}
	}
	if err := mx.AddElementaryStream(astits.PMTElementaryStream{ElementaryPID: PidOther, StreamType: astits.StreamTypePrivateData}); err != nil {
		return nil, err
	}
	if err := mx.AddElementaryStream(ttx(PidA, 0)); err != nil {
		return nil, err
	}
	if s.TwoPids {
		if err := mx.AddElementaryStream(ttx(PidB, 1)); err != nil {
			return nil, err
		}
	}
	mx.SetPCRPID(PidA)
	if _, err := mx.WriteTables(); err != nil {
		return nil, err
	}
	const base = 900000 // 10 s
	npcr := 0
	write := func(pid uint16, pts int, data []byte) error {
		// the PCR PID carries a programme clock reference on another time base than the presentation time stamps:
		// cue times are presentation times
		var af *astits.PacketAdaptationField
		if pid == PidA {
			npcr++
			af = &astits.PacketAdaptationField{HasPCR: true, PCR: &astits.ClockReference{Base: int64(1234 + npcr*31000)}}
		}
		_, err := mx.WriteData(&astits.MuxerData{PID: pid, AdaptationField: af, PES: &astits.PESData{
			Header: &astits.PESHeader{StreamID: astits.StreamIDPrivateStream1, OptionalHeader: &astits.PESOptionalHeader{
				MarkerBits: 2, PTSDTSIndicator: astits.PTSDTSIndicatorOnlyPTS, PTS: &astits.ClockReference{Base: int64(base + pts)}}},
			Data: data}})
		return err
	}
	for i, p := range s.Pes {
		data := []byte{0x10}
		for _, u := range p.Units {
			data = append(data, unitBytes(u)...)
		}
		if len(p.Units) > 0 && p.Units[0].K == "nonebu" {
			// a PES packet of the same PID that carries other VBI data (EN 301 775): its data identifier lies outside
			// the EBU teletext range; it has a presentation time like any other
			data = append([]byte{0x99}, looksLikeVBI...)
		}
		pid := uint16(PidA)
		switch p.Pid {
		case 1:
			pid = PidB
			if !s.TwoPids {
				continue
			}
		case 2:
			pid = PidOther
		}
		if err := write(pid, p.Pts, data); err != nil {
			return nil, fmt.Errorf("pes %d: %v", i, err)
		}
		if s.EmptyPes && i == 0 {
			if err := write(PidA, p.Pts, []byte{0x10}); err != nil {
				return nil, err
			}
		}
	}
	return buf.Bytes(), nil
}

var looksLikeVBI = []byte{0xc3, 0x2c, 0x4f, 0xe4, 0x15, 0xea, 0x5e, 0x20, 0x20, 0x48, 0x49}

type Run struct {
	T   []int `json:"t"`
	Col int   `json:"col"`
	Dh  int   `json:"dh"`
}

type Cue struct {
	S     int     `json:"s"` // ms
	E     int     `json:"e"`
	Lines [][]Run `json:"lines"`
}

var colors = []*astisub.Color{astisub.ColorBlack, astisub.ColorRed, astisub.ColorGreen, astisub.ColorYellow, astisub.ColorBlue, astisub.ColorMagenta, astisub.ColorCyan, astisub.ColorWhite}

// Project maps the library's result onto the abstract cues.
func Project(s *astisub.Subtitles) []Cue {
	out := []Cue{}
	if s == nil {
		return out
	}
	for _, it := range s.Items {
		c := Cue{S: ms(it.StartAt), E: ms(it.EndAt), Lines: [][]Run{}}
		for _, l := range it.Lines {
			runs := []Run{}
			for _, li := range l.Items {
				r := Run{T: []int{}, Col: -1}
				for _, rn := range li.Text {
					r.T = append(r.T, int(rn))
				}
				if sa := li.InlineStyle; sa != nil {
					if sa.TeletextColor != nil {
						r.Col = -2
						for i, cl := range colors {
							if *cl == *sa.TeletextColor {
								r.Col = i
							}
						}
					}
					if sa.TeletextDoubleHeight != nil {
						r.Dh = 1
						if *sa.TeletextDoubleHeight {
							r.Dh = 2
						}
					}
				}
				runs = append(runs, r)
			}
			c.Lines = append(c.Lines, runs)
		}
		out = append(out, c)
	}
	return out
}

func ms(d time.Duration) int {
	if d%time.Millisecond != 0 {
		return -1
	}
	return int(d / time.Millisecond)
}
