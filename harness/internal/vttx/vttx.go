// Package vttx holds the WebVTT side of the codec checks (spec/VttCodec.tla): concretiser (token document ->
// bytes), independent lexer (bytes -> tokens, lexical grammar only), builder (truth -> library value) and
// projection (library value -> truth). No expected values are computed here.
package vttx

import (
	"bytes"
	"fmt"
	"regexp"
	"sort"
	"strconv"
	"strings"
	"time"

	astisub "github.com/asticode/go-astisub"
)

type Tag struct {
	Name string `json:"name"`
	Cls  []int  `json:"cls"`
	Ann  int    `json:"ann"`
}

type Inl struct {
	T   string `json:"t"` // o | c | x | ts
	Tag Tag    `json:"tag"`
	A   int    `json:"a"`
	Ms  int    `json:"ms"`
}

type Set struct {
	Align    int `json:"align"`
	Line     int `json:"line"`
	Position int `json:"position"`
	Size     int `json:"size"`
	Vertical int `json:"vertical"`
}

type Tok struct {
	K        string `json:"k"`
	Trail    bool   `json:"trail"`
	Local    int    `json:"local"`
	Mpegts   int    `json:"mpegts"`
	A        int    `json:"a"`
	ID       int    `json:"id"`
	Lines    int    `json:"lines"`
	Width    int    `json:"width"`
	Scroll   int    `json:"scroll"`
	Anchor   int    `json:"anchor"`   // regionanchor
	Viewport int    `json:"viewport"` // viewportanchor
	V        int    `json:"v"`
	S        int    `json:"s"`
	E        int    `json:"e"`
	Hrs      bool   `json:"hrs"`
	Tab      bool   `json:"tab"`
	Set      Set    `json:"set"`
	Region   int    `json:"region"`
	Voice    int    `json:"voice"`
	Its      []Inl  `json:"its"`
}

type Doc struct {
	Eol  string `json:"eol"`
	Bom  bool   `json:"bom"`
	Toks []Tok  `json:"toks"`
}

type Tsmap struct {
	Local  int `json:"local"`
	Mpegts int `json:"mpegts"`
}

type Region struct {
	ID       int `json:"id"`
	Lines    int `json:"lines"`
	Width    int `json:"width"`
	Scroll   int `json:"scroll"`
	Anchor   int `json:"anchor"`
	Viewport int `json:"viewport"`
}

type Run struct {
	A    int   `json:"a"`
	Tags []Tag `json:"tags"`
	Ts   int   `json:"ts"`
	// Col: the run carries a colour from another format (StyleAttributes.TTMLColor) that WebVTT expresses as a
	// class: the atom is the class atom whose name is the CSS colour (2 = yellow = #ffff00); 0 = none
	Col int `json:"col"`
}

var colourOf = map[int]string{2: "#ffff00"}

type Line struct {
	Voice int   `json:"voice"`
	Runs  []Run `json:"runs"`
}

type Cue struct {
	S      int    `json:"s"`
	E      int    `json:"e"`
	ID     int    `json:"id"`
	Notes  []int  `json:"notes"`
	Set    Set    `json:"set"`
	Region int    `json:"region"`
	Lines  []Line `json:"lines"`
}

type Truth struct {
	Tsmap   []Tsmap  `json:"tsmap"`
	Css     []int    `json:"css"`
	Regions []Region `json:"regions"`
	Cues    []Cue    `json:"cues"`
	Err     bool     `json:"err"`
}

// Norm replaces nil slices by empty ones (JSON [] instead of null).
func (t *Truth) Norm() {
	if t.Tsmap == nil {
		t.Tsmap = []Tsmap{}
	}
	if t.Css == nil {
		t.Css = []int{}
	}
	if t.Regions == nil {
		t.Regions = []Region{}
	}
	if t.Cues == nil {
		t.Cues = []Cue{}
	}
	for i := range t.Cues {
		c := &t.Cues[i]
		if c.Notes == nil {
			c.Notes = []int{}
		}
		if c.Lines == nil {
			c.Lines = []Line{}
		}
		for j := range c.Lines {
			if c.Lines[j].Runs == nil {
				c.Lines[j].Runs = []Run{}
			}
			for k := range c.Lines[j].Runs {
				r := &c.Lines[j].Runs[k]
				if r.Tags == nil {
					r.Tags = []Tag{}
				}
				for m := range r.Tags {
					if r.Tags[m].Cls == nil {
						r.Tags[m].Cls = []int{}
					}
				}
			}
		}
	}
}

func (d *Doc) Norm() {
	if d.Toks == nil {
		d.Toks = []Tok{}
	}
	for i := range d.Toks {
		if d.Toks[i].Its == nil {
			d.Toks[i].Its = []Inl{}
		}
		for j := range d.Toks[i].Its {
			if d.Toks[i].Its[j].Tag.Cls == nil {
				d.Toks[i].Its[j].Tag.Cls = []int{}
			}
		}
	}
}

// Pool maps atoms to concrete strings.
type Pool struct {
	Text, Note, Css, Cls, Ann, Voice, RegionID, Width, Scroll, Anchor, Viewport map[int]string
	Align, Line, Position, Size, Vertical                                       map[int]string
	ColUpper                                                                    bool // the run colours are spelled with upper-case hexadecimal digits
}

var base = Pool{
	Note:     map[int]string{1: "This is a comment", 2: "second comment line -> with arrow-like text"},
	Css:      map[int]string{1: "::cue { background: lime }", 2: "::cue(.loud) { color: red }"},
	Cls:      map[int]string{1: "loud", 2: "yellow", 3: "big"},
	Ann:      map[int]string{1: "en-GB", 2: "fr"},
	RegionID: map[int]string{1: "fred", 2: "bill"},
	Width:    map[int]string{1: "40%"},
	Scroll:   map[int]string{1: "up"},
	Anchor:   map[int]string{1: "0%,100%", 2: "50%,50%"},
	Viewport: map[int]string{1: "10%,90%", 2: "0%,0%"},
	Align:    map[int]string{1: "start", 2: "end"},
	Line:     map[int]string{1: "0", 2: "85%"},
	Position: map[int]string{1: "10%", 2: "50%,line-left"},
	Size:     map[int]string{1: "35%"},
	Vertical: map[int]string{1: "rl"},
}

var texts = []map[int]string{
	{1: "Hello world", 2: "second text", 3: "third"},
	{1: "a & b &c; d", 2: "x < y <3 z", 3: "1 > 0"},
	{1: "nb\u00a0sp", 2: "12", 3: "3"},
	{1: "\U0001F600 non-BMP", 2: "ünï cödé 日本語", 3: "çà"},
	// texts that literally contain entity-looking character sequences: they must survive one level of escaping
	{1: "AT&amp;T literally", 2: "&lt;i&gt; is not a tag", 3: "&nbsp;x"},
	// texts that begin like a block keyword or hold what looks like an inline timestamp once unescaped
	{1: "NOTEBOOK on the table", 2: "Press <00:00:05.000> to mark", 3: "STYLES and REGIONS"},
	// cue text that begins exactly like a comment, a style block or a region definition: inside a cue it is text
	{1: "NOTE to self", 2: "STYLES and REGIONS", 3: "Region: id=fake"},
	{1: "X-TIMESTAMP-MAP=LOCAL:00:00:00.000,MPEGTS:900000", 2: "second text", 3: "WEBVTT"},
}
var notePools = []map[int]string{
	base.Note,
	{1: "This is a comment", 2: "STYLE is what this cue lacks"},
	{1: "a comment of two lines", 2: "X-TIMESTAMP-MAP=LOCAL:00:00:00.000,MPEGTS:0"},
	{1: "another", 2: "Region: id=ghost"},
}
var voices = []map[int]string{{1: "Esme"}, {1: "Mary Ann"}, {1: "هذا"}, {1: "中文"}, {1: "Bob"}, {1: "Ann"}, {1: "Eve"}, {1: "Sam"}}

func PoolFor(n int) Pool {
	p := base
	k := ((n % len(texts)) + len(texts)) % len(texts)
	p.Text = texts[k]
	p.Voice = voices[k]
	p.ColUpper = (n/len(texts))%2 != 0
	// the second line of a comment may begin like a block of its own: it is a comment line all the same
	p.Note = notePools[((n/3)%len(notePools)+len(notePools))%len(notePools)]
	return p
}

// The model's integers are 32 bits wide: 2147483647 stands for the largest 33-bit MPEG-TS time stamp.
const maxTs33 = int64(8589934591)

func realTs(v int) int64 {
	if v == 2147483647 {
		return maxTs33
	}
	return int64(v)
}

func absTs(v int64) int {
	if v == maxTs33 {
		return 2147483647
	}
	if v > 2147483646 || v < 0 {
		return -2 // not a value of the model
	}
	return int(v)
}

func rev(m map[int]string, s string) int {
	for k, v := range m {
		if v == s {
			return k
		}
	}
	return -1
}

func esc(s string) string {
	s = strings.ReplaceAll(s, "&", "&amp;")
	s = strings.ReplaceAll(s, "<", "&lt;")
	s = strings.ReplaceAll(s, "\u00a0", "&nbsp;")
	return s
}

func unesc(s string) string {
	s = strings.ReplaceAll(s, "&nbsp;", "\u00a0")
	s = strings.ReplaceAll(s, "&lt;", "<")
	s = strings.ReplaceAll(s, "&gt;", ">")
	s = strings.ReplaceAll(s, "&amp;", "&")
	return s
}

func fmtTime(ms int, hrs bool) string {
	if hrs {
		return fmt.Sprintf("%02d:%02d:%02d.%03d", ms/3600000, ms/60000%60, ms/1000%60, ms%1000)
	}
	return fmt.Sprintf("%02d:%02d.%03d", ms/60000%60, ms/1000%60, ms%1000)
}

func (p Pool) tagOpen(t Tag) string {
	s := "<" + t.Name
	for _, c := range t.Cls {
		s += "." + p.Cls[c]
	}
	if t.Ann != 0 {
		s += " " + p.Ann[t.Ann]
	}
	return s + ">"
}

// Concretise renders a token document as bytes.
func Concretise(d Doc, p Pool) []byte {
	eol := map[string]string{"lf": "\n", "crlf": "\r\n", "cr": "\r"}[d.Eol]
	var b bytes.Buffer
	if d.Bom {
		b.Write([]byte{0xEF, 0xBB, 0xBF})
	}
	curHrs := true
	for _, t := range d.Toks {
		switch t.K {
		case "header":
			b.WriteString("WEBVTT")
			if t.Trail {
				b.WriteString(" - Translation of that film I like")
			}
		case "tsmap":
			fmt.Fprintf(&b, "X-TIMESTAMP-MAP=LOCAL:%s,MPEGTS:%d", fmtTime(t.Local, true), realTs(t.Mpegts))
		case "blank":
		case "note":
			b.WriteString("NOTE " + p.Note[t.A])
		case "cont":
			b.WriteString(p.Note[t.A])
		case "style":
			b.WriteString("STYLE")
		case "css":
			b.WriteString(p.Css[t.A])
		case "region":
			b.WriteString("Region: id=" + p.RegionID[t.ID])
			if t.Lines != 0 {
				b.WriteString(" lines=" + strconv.Itoa(t.Lines))
			}
			if t.Width != 0 {
				b.WriteString(" width=" + p.Width[t.Width])
			}
			if t.Anchor != 0 {
				b.WriteString(" regionanchor=" + p.Anchor[t.Anchor])
			}
			if t.Scroll != 0 {
				b.WriteString(" scroll=" + p.Scroll[t.Scroll])
			}
			if t.Viewport != 0 {
				b.WriteString(" viewportanchor=" + p.Viewport[t.Viewport])
			}
		case "id":
			if t.V < 0 {
				b.WriteString("NOTEPAD-7 intro") // a textual cue identifier
			} else {
				b.WriteString(strconv.Itoa(t.V))
			}
		case "timing":
			curHrs = t.Hrs // inline timestamps of the cue follow the cue's own choice of writing the hours
			b.WriteString(fmtTime(t.S, t.Hrs) + " --> " + fmtTime(t.E, t.Hrs))
			sep := " "
			if t.Tab {
				sep = "\t"
			}
			add := func(k, v string) { b.WriteString(sep + k + ":" + v) }
			if t.Set.Align != 0 {
				add("align", p.Align[t.Set.Align])
			}
			if t.Set.Line != 0 {
				add("line", p.Line[t.Set.Line])
			}
			if t.Set.Position != 0 {
				add("position", p.Position[t.Set.Position])
			}
			if t.Region != 0 {
				add("region", p.RegionID[t.Region])
			}
			if t.Set.Size != 0 {
				add("size", p.Size[t.Set.Size])
			}
			if t.Set.Vertical != 0 {
				add("vertical", p.Vertical[t.Set.Vertical])
			}
		case "text":
			if t.Voice != 0 {
				b.WriteString("<v " + p.Voice[t.Voice] + ">")
			}
			for _, it := range t.Its {
				switch it.T {
				case "o":
					b.WriteString(p.tagOpen(it.Tag))
				case "c":
					b.WriteString("</" + it.Tag.Name + ">")
				case "x":
					b.WriteString(esc(p.Text[it.A]))
				case "ts":
					b.WriteString("<" + fmtTime(it.Ms, curHrs || it.Ms >= 3600000) + ">")
				}
			}
		}
		b.WriteString(eol)
	}
	return b.Bytes()
}

var (
	reTiming = regexp.MustCompile(`^(?:(\d{2,}):)?(\d\d):(\d\d)\.(\d{3})[ \t]+-->[ \t]+(?:(\d{2,}):)?(\d\d):(\d\d)\.(\d{3})((?:[ \t]+\S+)*)[ \t]*$`)
	reTsmap  = regexp.MustCompile(`^X-TIMESTAMP-MAP=LOCAL:(?:(\d{2,}):)?(\d\d):(\d\d)\.(\d{3}),MPEGTS:(\d+)$`)
	reInl    = regexp.MustCompile(`<(/?)([A-Za-z]+)((?:\.[^\s.>]+)*)(?:\s+([^>]*))?>|<((?:\d{2,}:)?\d\d:\d\d\.\d{3})>`)
	reNum    = regexp.MustCompile(`^\d+$`)
)

func ms4(h, m, s, f string) int {
	a := func(x string) int { v, _ := strconv.Atoi(x); return v }
	return ((a(h)*60+a(m))*60+a(s))*1000 + a(f)
}

func splitLines(b []byte) []string {
	s := strings.ReplaceAll(string(b), "\r\n", "\n")
	s = strings.ReplaceAll(s, "\r", "\n")
	ls := strings.Split(s, "\n")
	if len(ls) > 0 && ls[len(ls)-1] == "" {
		ls = ls[:len(ls)-1]
	}
	return ls
}

// Lex is the independent WebVTT lexer (block structure + inline tokens).
func Lex(b []byte, p Pool) Doc {
	d := Doc{Eol: "lf", Toks: []Tok{}}
	if bytes.HasPrefix(b, []byte{0xEF, 0xBB, 0xBF}) {
		d.Bom = true
		b = b[3:]
	}
	if bytes.Contains(b, []byte("\r\n")) {
		d.Eol = "crlf"
	} else if bytes.Contains(b, []byte("\r")) {
		d.Eol = "cr"
	}
	ls := splitLines(b)
	mode := ""
	for i, l := range ls {
		t := Tok{Its: []Inl{}}
		switch {
		case i == 0 && strings.HasPrefix(l, "WEBVTT"):
			t.K, t.Trail = "header", len(l) > len("WEBVTT")
		case strings.TrimSpace(l) == "":
			t.K = "blank"
			mode = ""
		case mode == "note":
			t.K, t.A = "cont", rev(p.Note, l)
		case mode == "style":
			t.K, t.A = "css", rev(p.Css, l)
		case mode == "cue":
			t.K = "text"
			rest := l
			if strings.HasPrefix(rest, "<v ") {
				if j := strings.Index(rest, ">"); j > 0 {
					t.Voice = rev(p.Voice, rest[3:j])
					rest = rest[j+1:]
				}
			}
			for rest != "" {
				loc := reInl.FindStringSubmatchIndex(rest)
				if loc == nil {
					t.Its = append(t.Its, Inl{T: "x", A: rev(p.Text, unesc(rest)), Tag: Tag{Cls: []int{}}})
					break
				}
				if loc[0] > 0 {
					t.Its = append(t.Its, Inl{T: "x", A: rev(p.Text, unesc(rest[:loc[0]])), Tag: Tag{Cls: []int{}}})
				}
				m := reInl.FindStringSubmatch(rest)
				if m[5] != "" {
					parts := strings.Split(m[5], ":")
					h := "0"
					if len(parts) == 3 {
						h = parts[0]
						parts = parts[1:]
					}
					sf := strings.Split(parts[1], ".")
					t.Its = append(t.Its, Inl{T: "ts", Ms: ms4(h, parts[0], sf[0], sf[1]), Tag: Tag{Cls: []int{}}})
				} else {
					tag := Tag{Name: m[2], Cls: []int{}}
					if m[3] != "" {
						for _, c := range strings.Split(strings.TrimPrefix(m[3], "."), ".") {
							tag.Cls = append(tag.Cls, rev(p.Cls, c))
						}
					}
					if m[4] != "" {
						tag.Ann = rev(p.Ann, strings.TrimSpace(m[4]))
					}
					if m[1] == "/" {
						// a closing tag names only the element: report the name, the decoder pops the stack
						t.Its = append(t.Its, Inl{T: "c", Tag: Tag{Name: m[2], Cls: []int{}}})
					} else {
						t.Its = append(t.Its, Inl{T: "o", Tag: tag})
					}
				}
				rest = rest[loc[1]:]
			}
		case strings.HasPrefix(l, "X-TIMESTAMP-MAP"):
			t.K = "tsmap"
			if m := reTsmap.FindStringSubmatch(l); m != nil {
				h := m[1]
				if h == "" {
					h = "0"
				}
				t.Local = ms4(h, m[2], m[3], m[4])
				v, _ := strconv.ParseInt(m[5], 10, 64)
				t.Mpegts = absTs(v)
			} else {
				t.Local, t.Mpegts = -1, -1
			}
		case strings.HasPrefix(l, "NOTE ") || l == "NOTE":
			t.K, t.A = "note", rev(p.Note, strings.TrimPrefix(l, "NOTE "))
			mode = "note"
		case l == "STYLE":
			t.K = "style"
			mode = "style"
		case strings.HasPrefix(l, "Region: "):
			t.K = "region"
			for _, kv := range strings.Fields(strings.TrimPrefix(l, "Region: ")) {
				p2 := strings.SplitN(kv, "=", 2)
				if len(p2) != 2 {
					continue
				}
				switch p2[0] {
				case "id":
					t.ID = rev(p.RegionID, p2[1])
				case "lines":
					t.Lines, _ = strconv.Atoi(p2[1])
				case "width":
					t.Width = rev(p.Width, p2[1])
				case "scroll":
					t.Scroll = rev(p.Scroll, p2[1])
				case "regionanchor":
					t.Anchor = rev(p.Anchor, p2[1])
				case "viewportanchor":
					t.Viewport = rev(p.Viewport, p2[1])
				default:
					t.Scroll = -2 // a region field outside the model
				}
			}
		case reTiming.MatchString(l):
			m := reTiming.FindStringSubmatch(l)
			t.K = "timing"
			h1, h2 := m[1], m[5]
			t.Hrs = h1 != "" && h2 != ""
			if h1 == "" {
				h1 = "0"
			}
			if h2 == "" {
				h2 = "0"
			}
			t.S, t.E = ms4(h1, m[2], m[3], m[4]), ms4(h2, m[6], m[7], m[8])
			t.Tab = strings.Contains(m[9], "\t")
			for _, kv := range strings.Fields(m[9]) {
				p2 := strings.SplitN(kv, ":", 2)
				if len(p2) != 2 {
					t.Region = -2
					continue
				}
				switch p2[0] {
				case "align":
					t.Set.Align = rev(p.Align, p2[1])
				case "line":
					t.Set.Line = rev(p.Line, p2[1])
				case "position":
					t.Set.Position = rev(p.Position, p2[1])
				case "size":
					t.Set.Size = rev(p.Size, p2[1])
				case "vertical":
					t.Set.Vertical = rev(p.Vertical, p2[1])
				case "region":
					t.Region = rev(p.RegionID, p2[1])
				default:
					t.Region = -2
				}
			}
			mode = "cue"
		case reNum.MatchString(l) && i+1 < len(ls) && reTiming.MatchString(ls[i+1]):
			t.K = "id"
			t.V, _ = strconv.Atoi(l)
		default:
			t.K = "unknown"
		}
		d.Toks = append(d.Toks, t)
	}
	return d
}

func strOr(m map[int]string, k int) string {
	if k == 0 {
		return ""
	}
	return m[k]
}

// Build creates the library value of a truth.
func Build(g Truth, p Pool) *astisub.Subtitles {
	s := astisub.NewSubtitles()
	if len(g.Tsmap) > 0 {
		s.Metadata = &astisub.Metadata{WebVTTTimestampMap: &astisub.WebVTTTimestampMap{
			Local: time.Duration(g.Tsmap[0].Local) * time.Millisecond, MpegTS: realTs(g.Tsmap[0].Mpegts)}}
	}
	if len(g.Css) > 0 {
		sa := &astisub.StyleAttributes{}
		for _, c := range g.Css {
			sa.WebVTTStyles = append(sa.WebVTTStyles, p.Css[c])
		}
		s.Styles["astisub-webvtt-default-style-id"] = &astisub.Style{ID: "astisub-webvtt-default-style-id", InlineStyle: sa}
	}
	for _, r := range g.Regions {
		id := p.RegionID[r.ID]
		s.Regions[id] = &astisub.Region{ID: id, InlineStyle: &astisub.StyleAttributes{
			WebVTTLines: r.Lines, WebVTTWidth: strOr(p.Width, r.Width), WebVTTScroll: strOr(p.Scroll, r.Scroll),
			WebVTTRegionAnchor: strOr(p.Anchor, r.Anchor), WebVTTViewportAnchor: strOr(p.Viewport, r.Viewport)}}
		if r.Lines == 0 && r.Width == 0 && r.Scroll == 0 && r.Anchor == 0 && r.Viewport == 0 && p.ColUpper {
			// a region that carries nothing but its identifier may have no attribute object at all
			s.Regions[id].InlineStyle = nil
		}
	}
	for _, c := range g.Cues {
		it := &astisub.Item{StartAt: time.Duration(c.S) * time.Millisecond, EndAt: time.Duration(c.E) * time.Millisecond, Index: c.ID}
		for _, n := range c.Notes {
			it.Comments = append(it.Comments, p.Note[n])
		}
		if c.Set != (Set{}) {
			it.InlineStyle = &astisub.StyleAttributes{WebVTTAlign: strOr(p.Align, c.Set.Align), WebVTTLine: strOr(p.Line, c.Set.Line),
				WebVTTPosition: strOr(p.Position, c.Set.Position), WebVTTSize: strOr(p.Size, c.Set.Size), WebVTTVertical: strOr(p.Vertical, c.Set.Vertical)}
		}
		if c.Region != 0 {
			it.Region = s.Regions[p.RegionID[c.Region]]
		}
		for _, l := range c.Lines {
			line := astisub.Line{VoiceName: strOr(p.Voice, l.Voice)}
			for _, r := range l.Runs {
				li := astisub.LineItem{Text: p.Text[r.A], StartAt: time.Duration(r.Ts) * time.Millisecond}
				if len(r.Tags) > 0 || r.Col != 0 {
					sa := &astisub.StyleAttributes{}
					if r.Col != 0 {
						c := colourOf[r.Col]
						if p.ColUpper {
							c = strings.ToUpper(c) // #FFFF00 is the same colour as #ffff00
						}
						sa.TTMLColor = &c
					}
					for _, t := range r.Tags {
						wt := astisub.WebVTTTag{Name: t.Name, Annotation: strOr(p.Ann, t.Ann)}
						for _, cl := range t.Cls {
							wt.Classes = append(wt.Classes, p.Cls[cl])
						}
						sa.WebVTTTags = append(sa.WebVTTTags, wt)
					}
					li.InlineStyle = sa
				}
				line.Items = append(line.Items, li)
			}
			it.Lines = append(it.Lines, line)
		}
		s.Items = append(s.Items, it)
	}
	return s
}

func zrev(m map[int]string, s string) int {
	if s == "" {
		return 0
	}
	return rev(m, s)
}

func msOf(d time.Duration) int {
	if d%time.Millisecond != 0 || d < 0 {
		return -1
	}
	return int(d / time.Millisecond)
}

// Project maps the library's value onto the truth model.
func Project(s *astisub.Subtitles, p Pool) Truth {
	var g Truth
	if s == nil {
		g.Norm()
		return g
	}
	if s.Metadata != nil && s.Metadata.WebVTTTimestampMap != nil {
		g.Tsmap = []Tsmap{{Local: msOf(s.Metadata.WebVTTTimestampMap.Local), Mpegts: absTs(s.Metadata.WebVTTTimestampMap.MpegTS)}}
	}
	var styleIDs []string
	for id := range s.Styles {
		styleIDs = append(styleIDs, id)
	}
	sort.Strings(styleIDs)
	for _, id := range styleIDs {
		if st := s.Styles[id]; st != nil && st.InlineStyle != nil {
			for _, l := range st.InlineStyle.WebVTTStyles {
				g.Css = append(g.Css, rev(p.Css, l))
			}
		}
	}
	for _, r := range s.Regions {
		pr := Region{ID: rev(p.RegionID, r.ID)}
		if r.InlineStyle != nil {
			pr.Lines = r.InlineStyle.WebVTTLines
			pr.Width = zrev(p.Width, r.InlineStyle.WebVTTWidth)
			pr.Scroll = zrev(p.Scroll, r.InlineStyle.WebVTTScroll)
			pr.Anchor = zrev(p.Anchor, r.InlineStyle.WebVTTRegionAnchor)
			pr.Viewport = zrev(p.Viewport, r.InlineStyle.WebVTTViewportAnchor)
		}
		g.Regions = append(g.Regions, pr)
	}
	sort.Slice(g.Regions, func(i, j int) bool { return g.Regions[i].ID < g.Regions[j].ID })
	for _, it := range s.Items {
		c := Cue{S: msOf(it.StartAt), E: msOf(it.EndAt), ID: it.Index}
		for _, n := range it.Comments {
			c.Notes = append(c.Notes, rev(p.Note, n))
		}
		if sa := it.InlineStyle; sa != nil {
			c.Set = Set{zrev(p.Align, sa.WebVTTAlign), zrev(p.Line, sa.WebVTTLine), zrev(p.Position, sa.WebVTTPosition),
				zrev(p.Size, sa.WebVTTSize), zrev(p.Vertical, sa.WebVTTVertical)}
		}
		if it.Region != nil {
			c.Region = rev(p.RegionID, it.Region.ID)
		}
		for _, l := range it.Lines {
			pl := Line{Voice: zrev(p.Voice, l.VoiceName)}
			for _, li := range l.Items {
				r := Run{A: rev(p.Text, li.Text), Ts: msOf(li.StartAt)}
				if li.InlineStyle != nil {
					if li.InlineStyle.TTMLColor != nil {
						r.Col = -1
						for a, c := range colourOf {
							if strings.EqualFold(c, *li.InlineStyle.TTMLColor) {
								r.Col = a
							}
						}
					}
					for _, t := range li.InlineStyle.WebVTTTags {
						pt := Tag{Name: t.Name, Ann: zrev(p.Ann, t.Annotation)}
						for _, cl := range t.Classes {
							pt.Cls = append(pt.Cls, rev(p.Cls, cl))
						}
						r.Tags = append(r.Tags, pt)
					}
				}
				pl.Runs = append(pl.Runs, r)
			}
			c.Lines = append(c.Lines, pl)
		}
		g.Cues = append(g.Cues, c)
	}
	g.Norm()
	return g
}
