// Package abs holds the abstract (TLA+-side) data shared between the specification and the harness.
// See spec/Cues.tla for the meaning of every field.
package abs

import (
	"bytes"
	"encoding/json"
	"sort"
	"strconv"
)

type Cue struct {
	ID  int      `json:"id"`
	Ptr int      `json:"ptr"`
	S   int      `json:"s"`
	E   int      `json:"e"`
	T   int      `json:"t"`
	St  string   `json:"st"`
	Rg  string   `json:"rg"`
	Rs  []string `json:"rs"`
	Ni  int      `json:"ni"`
	Ok  bool     `json:"ok"`
}

// Def is a style ([id,parent,tag]) or region ([id,style,tag]) definition.
type Def struct {
	ID     string `json:"id"`
	Parent string `json:"parent"`
	Tag    string `json:"tag"`
}

// DefMap (un)marshals a TLA+ function key |-> Def. TLC prints the empty function as [] (an array).
type DefMap map[string]Def

func (m *DefMap) UnmarshalJSON(b []byte) error {
	b = bytes.TrimSpace(b)
	*m = DefMap{}
	if len(b) > 0 && b[0] == '[' {
		return nil
	}
	var x map[string]Def
	if err := json.Unmarshal(b, &x); err != nil {
		return err
	}
	*m = x
	return nil
}

func (m DefMap) MarshalJSON() ([]byte, error) {
	if len(m) == 0 {
		return []byte("{}"), nil
	}
	keys := make([]string, 0, len(m))
	for k := range m {
		keys = append(keys, k)
	}
	sort.Strings(keys)
	var buf bytes.Buffer
	buf.WriteByte('{')
	for i, k := range keys {
		if i > 0 {
			buf.WriteByte(',')
		}
		kb, _ := json.Marshal(k)
		vb, _ := json.Marshal(m[k])
		buf.Write(kb)
		buf.WriteByte(':')
		buf.Write(vb)
	}
	buf.WriteByte('}')
	return buf.Bytes(), nil
}

type Subs struct {
	Items   []Cue  `json:"items"`
	Styles  DefMap `json:"styles"`
	Regions DefMap `json:"regions"`
	SNil    bool   `json:"snil"`
	RNil    bool   `json:"rnil"`
}

func (s *Subs) Norm() {
	if s.Items == nil {
		s.Items = []Cue{}
	}
	for i := range s.Items {
		if s.Items[i].Rs == nil {
			s.Items[i].Rs = []string{}
		}
	}
	if s.Styles == nil {
		s.Styles = DefMap{}
	}
	if s.Regions == nil {
		s.Regions = DefMap{}
	}
}

// OpCase is one generated case of a list operation (inputs only).
type OpCase struct {
	Op   string `json:"op"`
	A    int    `json:"a"`
	B    int    `json:"b"`
	Pre  Subs   `json:"pre"`
	Pre2 Subs   `json:"pre2"`
}

// OpEvent is one observed call of the real code.
type OpEvent struct {
	N     int         `json:"n"`     // case number
	First bool        `json:"first"` // first event of its case (resets the trace state)
	Op    string      `json:"op"`
	A     int         `json:"a"`
	B     int         `json:"b"`
	Pre   Subs        `json:"pre"`
	Pre2  Subs        `json:"pre2"`
	Post  Subs        `json:"post"`
	Post2 Subs        `json:"post2"`
	Res   string      `json:"res"` // ok | panic | timeout
	Unit  int64       `json:"-"`
	Msg   string      `json:"msg"`
	Wb    []WriteBack `json:"wb"` // optimize: write -> read of the list before and after the call, per format
}

// WriteBack is the outcome of writing a list to one format and reading it back, before and after an operation:
// res = ok | write-<err> | read-<err>; cues = start ms, end ms, text of every cue read back.
type WriteBack struct {
	Fmt      string     `json:"fmt"`
	PreRes   string     `json:"preres"`
	PostRes  string     `json:"postres"`
	PreCues  [][]string `json:"precues"`
	PostCues [][]string `json:"postcues"`
}

// IntMap is a TLA+ function string |-> int (TLC prints the empty function as []).
type IntMap map[string]int

func (m *IntMap) UnmarshalJSON(b []byte) error {
	b = bytes.TrimSpace(b)
	*m = IntMap{}
	if len(b) > 0 && b[0] == '[' {
		return nil
	}
	var x map[string]int
	if err := json.Unmarshal(b, &x); err != nil {
		return err
	}
	*m = x
	return nil
}

func (m IntMap) MarshalJSON() ([]byte, error) {
	keys := make([]string, 0, len(m))
	for k := range m {
		keys = append(keys, k)
	}
	sort.Strings(keys)
	var buf bytes.Buffer
	buf.WriteByte('{')
	for i, k := range keys {
		if i > 0 {
			buf.WriteByte(',')
		}
		kb, _ := json.Marshal(k)
		buf.Write(kb)
		buf.WriteByte(':')
		buf.WriteString(strconv.Itoa(m[k]))
	}
	buf.WriteByte('}')
	return buf.Bytes(), nil
}
