// Package ttmlx holds the TTML side of the codec checks (spec/TtmlCodec.tla): concretiser (document record ->
// XML bytes), independent lexer (encoding/xml token stream -> document record; time expressions split into their
// fields, nothing resolved), builder and projection.
package ttmlx

import (
	"bytes"
	"encoding/json"
	"encoding/xml"
	"fmt"
	"io"
	"reflect"
	"regexp"
	"sort"
	"strconv"
	"strings"
	"time"

	astisub "github.com/asticode/go-astisub"
	"verif/harness/internal/abs"
)

type Expr struct {
	F    string `json:"f"` // clock | frames | off
	H    int    `json:"h"`
	M    int    `json:"m"`
	S    int    `json:"s"`
	Frac int    `json:"frac"`
	Fd   int    `json:"fd"`
	Ff   int    `json:"ff"`
	Unit string `json:"unit"`
	Vi   int    `json:"vi"`
	Vf   int    `json:"vf"`
	Vd   int    `json:"vd"`
}

type Node struct {
	K       string     `json:"k"` // text | br | span
	A       int        `json:"a"`
	Style   int        `json:"style"`
	Attrs   abs.IntMap `json:"attrs"`
	Content []Node     `json:"content"`
}

// Def is a style ([id, parent, attrs]) or a region ([id, style, attrs]) definition; IsRegion selects the JSON shape.
type Def struct {
	ID       int
	Parent   int
	Style    int
	Attrs    abs.IntMap
	IsRegion bool
}

type styleJSON struct {
	ID     int        `json:"id"`
	Parent int        `json:"parent"`
	Attrs  abs.IntMap `json:"attrs"`
}
type regionJSON struct {
	ID    int        `json:"id"`
	Style int        `json:"style"`
	Attrs abs.IntMap `json:"attrs"`
}

func (d Def) MarshalJSON() ([]byte, error) {
	if d.IsRegion {
		return json.Marshal(regionJSON{d.ID, d.Style, d.Attrs})
	}
	return json.Marshal(styleJSON{d.ID, d.Parent, d.Attrs})
}

func (d *Def) UnmarshalJSON(b []byte) error {
	var x struct {
		ID     int        `json:"id"`
		Parent int        `json:"parent"`
		Style  *int       `json:"style"`
		Attrs  abs.IntMap `json:"attrs"`
	}
	if err := json.Unmarshal(b, &x); err != nil {
		return err
	}
	d.ID, d.Parent, d.Attrs = x.ID, x.Parent, x.Attrs
	if x.Style != nil {
		d.Style, d.IsRegion = *x.Style, true
	}
	return nil
}

type P struct {
	Begin   Expr       `json:"begin"`
	End     Expr       `json:"end"`
	Style   int        `json:"style"`
	Region  int        `json:"region"`
	Attrs   abs.IntMap `json:"attrs"`
	Content []Node     `json:"content"`
}

type Doc struct {
	Indent    bool  `json:"indent"`
	Prefix    bool  `json:"prefix"`
	Lang      int   `json:"lang"`
	Title     int   `json:"title"`
	Copyright int   `json:"copyright"`
	Fr        int   `json:"fr"`
	Tr        int   `json:"tr"`
	Styles    []Def `json:"styles"`
	Regions   []Def `json:"regions"`
	Ps        []P   `json:"ps"`
}

type Run struct {
	A     int        `json:"a"`
	Style int        `json:"style"`
	Attrs abs.IntMap `json:"attrs"`
}

// Cue of the decoder's shape: instants as [ms, ns].
type Cue struct {
	S      [2]int     `json:"s"`
	E      [2]int     `json:"e"`
	Style  int        `json:"style"`
	Region int        `json:"region"`
	Attrs  abs.IntMap `json:"attrs"`
	Lines  [][]Run    `json:"lines"`
}

// TCue of the generator's truth: instants in ms.
type TCue struct {
	S      int        `json:"s"`
	E      int        `json:"e"`
	Style  int        `json:"style"`
	Region int        `json:"region"`
	Attrs  abs.IntMap `json:"attrs"`
	Lines  [][]Run    `json:"lines"`
}

type Truth struct {
	Lang      int    `json:"lang"`
	Title     int    `json:"title"`
	Copyright int    `json:"copyright"`
	Fr        int    `json:"fr"`
	Tr        int    `json:"tr"`
	Styles    []Def  `json:"styles"`
	Regions   []Def  `json:"regions"`
	Cues      []TCue `json:"cues"`
}

// Read is what the library returned, in the decoder's shape.
type Read struct {
	Lang      int   `json:"lang"`
	Title     int   `json:"title"`
	Copyright int   `json:"copyright"`
	Fr        int   `json:"fr"`
	Styles    []Def `json:"styles"`
	Regions   []Def `json:"regions"`
	Cues      []Cue `json:"cues"`
}

func normDefs(d []Def) []Def {
	if d == nil {
		return []Def{}
	}
	for i := range d {
		if d[i].Attrs == nil {
			d[i].Attrs = abs.IntMap{}
		}
	}
	return d
}

func normRuns(ls [][]Run) [][]Run {
	if ls == nil {
		return [][]Run{}
	}
	for i := range ls {
		if ls[i] == nil {
			ls[i] = []Run{}
		}
		for j := range ls[i] {
			if ls[i][j].Attrs == nil {
				ls[i][j].Attrs = abs.IntMap{}
			}
		}
	}
	return ls
}

func normNodes(ns []Node) []Node {
	if ns == nil {
		return []Node{}
	}
	for i := range ns {
		if ns[i].Attrs == nil {
			ns[i].Attrs = abs.IntMap{}
		}
		ns[i].Content = normNodes(ns[i].Content)
	}
	return ns
}

func (t *Truth) Norm() {
	t.Styles, t.Regions = normDefs(t.Styles), normDefs(t.Regions)
	if t.Cues == nil {
		t.Cues = []TCue{}
	}
	for i := range t.Cues {
		if t.Cues[i].Attrs == nil {
			t.Cues[i].Attrs = abs.IntMap{}
		}
		t.Cues[i].Lines = normRuns(t.Cues[i].Lines)
	}
}

func (r *Read) Norm() {
	r.Styles, r.Regions = normDefs(r.Styles), normDefs(r.Regions)
	if r.Cues == nil {
		r.Cues = []Cue{}
	}
	for i := range r.Cues {
		if r.Cues[i].Attrs == nil {
			r.Cues[i].Attrs = abs.IntMap{}
		}
		r.Cues[i].Lines = normRuns(r.Cues[i].Lines)
	}
}

func (d *Doc) Norm() {
	d.Styles, d.Regions = normDefs(d.Styles), normDefs(d.Regions)
	if d.Ps == nil {
		d.Ps = []P{}
	}
	for i := range d.Ps {
		if d.Ps[i].Attrs == nil {
			d.Ps[i].Attrs = abs.IntMap{}
		}
		d.Ps[i].Content = normNodes(d.Ps[i].Content)
	}
}

var (
	langCode = map[int]string{1: "zh", 2: "en", 3: "fr", 4: "ja", 5: "no", 6: "de"}
	langName = map[string]int{astisub.LanguageChinese: 1, astisub.LanguageEnglish: 2, astisub.LanguageFrench: 3, astisub.LanguageJapanese: 4, astisub.LanguageNorwegian: 5}
	titles   = map[int]string{1: "Title & <more>"}
	copyr    = map[int]string{1: "Copyright © 2020 \"quoted\""}
	// every tts:* attribute the library carries: name -> value atoms (the field is TTML + the capitalised name)
	attrVals = map[string]map[int]string{"color": {1: "#ff0000", 2: "white"}, "textAlign": {1: "center", 2: "start"}, "fontStyle": {1: "italic", 2: "oblique"}, "zIndex": {1: "1", 2: "2"},
		"backgroundColor": {1: "#000000", 2: "transparent"}, "direction": {1: "ltr", 2: "rtl"}, "display": {1: "auto", 2: "none"}, "displayAlign": {1: "before", 2: "after"},
		"extent": {1: "80% 10%", 2: "40% 20%"}, "fontFamily": {1: "monospaceSerif", 2: "Arial"}, "fontSize": {1: "100%", 2: "18px"}, "fontWeight": {1: "bold", 2: "normal"},
		"lineHeight": {1: "125%", 2: "normal"}, "opacity": {1: "1.0", 2: "0.5"}, "origin": {1: "10% 80%", 2: "0% 0%"}, "overflow": {1: "visible", 2: "hidden"},
		"padding": {1: "0px", 2: "1px 2px"}, "showBackground": {1: "always", 2: "whenActive"}, "textDecoration": {1: "underline", 2: "none"},
		"textOutline": {1: "black 1px", 2: "none"}, "unicodeBidi": {1: "normal", 2: "embed"}, "visibility": {1: "visible", 2: "hidden"},
		"wrapOption": {1: "wrap", 2: "noWrap"}, "writingMode": {1: "lrtb", 2: "tbrl"}}
	textPools = []map[int]string{
		{1: "Hello world", 2: "second text", 3: "third"},
		{1: "a & b <c> \"d\" 'e'", 2: "x < y > z", 3: "\U0001F600 non-BMP \U00010348"},
		{1: "ünï cödé 日本語", 2: "12:34:56", 3: "tab\there"},
		{1: "A", 2: "b", 3: "!"}, // one-character runs
	}
)

type Pool struct{ Text map[int]string }

func PoolFor(n int) Pool {
	return Pool{Text: textPools[((n%len(textPools))+len(textPools))%len(textPools)]}
}

func rev(m map[int]string, s string) int {
	for k, v := range m {
		if v == s {
			return k
		}
	}
	return -1
}

func sid(i int) string { return "s" + strconv.Itoa(i) }
func rid(i int) string { return "r" + strconv.Itoa(i) }

func parseID(s, pfx string) int {
	if s == "" {
		return 0
	}
	if strings.HasPrefix(s, pfx) {
		if v, err := strconv.Atoi(s[len(pfx):]); err == nil {
			return v
		}
	}
	return -1
}

func pad(v, w int) string { return fmt.Sprintf("%0*d", w, v) }

// ExprString renders a time expression.
func ExprString(x Expr) string {
	switch x.F {
	case "clock":
		s := fmt.Sprintf("%02d:%02d:%02d", x.H, x.M, x.S)
		if x.Fd > 0 {
			s += "." + pad(x.Frac, x.Fd)
		}
		return s
	case "frames":
		return fmt.Sprintf("%02d:%02d:%02d:%02d", x.H, x.M, x.S, x.Ff)
	}
	if x.Unit == "T" {
		// vi * 10^4 ticks, written out in full
		return strconv.Itoa(x.Vi) + "0000t"
	}
	s := strconv.Itoa(x.Vi)
	if x.Vd > 0 {
		s += "." + pad(x.Vf, x.Vd)
	}
	return s + x.Unit
}

var (
	reClock  = regexp.MustCompile(`^(\d+):(\d\d):(\d\d)(?:\.(\d+))?$`)
	reFrames = regexp.MustCompile(`^(\d+):(\d\d):(\d\d):(\d+)$`)
	reOff    = regexp.MustCompile(`^(\d+)(?:\.(\d+))?(h|m|s|ms|f|t)$`)
)

// ParseExpr splits a time expression into its fields (no resolution).
func ParseExpr(s string) Expr {
	a := func(x string) int { v, _ := strconv.Atoi(x); return v }
	if m := reFrames.FindStringSubmatch(s); m != nil {
		return Expr{F: "frames", H: a(m[1]), M: a(m[2]), S: a(m[3]), Ff: a(m[4])}
	}
	if m := reClock.FindStringSubmatch(s); m != nil {
		return Expr{F: "clock", H: a(m[1]), M: a(m[2]), S: a(m[3]), Frac: a(m[4]), Fd: len(m[4])}
	}
	if m := reOff.FindStringSubmatch(s); m != nil {
		return Expr{F: "off", Unit: m[3], Vi: a(m[1]), Vf: a(m[2]), Vd: len(m[2])}
	}
	return Expr{F: "unparsed"}
}

func escText(s string) string {
	var b bytes.Buffer
	xml.EscapeText(&b, []byte(s))
	return b.String()
}

func attrString(attrs abs.IntMap, prefix bool) string {
	keys := make([]string, 0, len(attrs))
	for k := range attrs {
		keys = append(keys, k)
	}
	sort.Strings(keys)
	s := ""
	for _, k := range keys {
		name := k
		if prefix {
			name = "tts:" + k
		}
		s += fmt.Sprintf(` %s="%s"`, name, escText(attrVals[k][attrs[k]]))
	}
	return s
}

// Concretise renders a document record as XML bytes. n picks spelling variants.
func Concretise(d Doc, p Pool, n int) []byte {
	var b bytes.Buffer
	nl, ind := "", func(int) string { return "" }
	if d.Indent {
		nl = "\n"
		ind = func(k int) string { return strings.Repeat("  ", k) }
	}
	px := func(ns, name string) string {
		if d.Prefix {
			return ns + ":" + name
		}
		return name
	}
	b.WriteString(`<?xml version="1.0" encoding="UTF-8"?>` + "\n")
	b.WriteString(`<tt xmlns="http://www.w3.org/ns/ttml" xmlns:tts="http://www.w3.org/ns/ttml#styling" xmlns:ttm="http://www.w3.org/ns/ttml#metadata" xmlns:ttp="http://www.w3.org/ns/ttml#parameter"`)
	if d.Lang != 0 {
		code := langCode[d.Lang]
		if n%2 == 1 && d.Lang == 2 {
			code = "en-GB"
		}
		b.WriteString(` xml:lang="` + code + `"`)
	}
	if d.Fr != 0 {
		fmt.Fprintf(&b, ` %s="%d"`, px("ttp", "frameRate"), d.Fr)
	}
	if d.Tr != 0 {
		fmt.Fprintf(&b, ` %s="%d"`, px("ttp", "tickRate"), d.Tr)
	}
	b.WriteString(">" + nl)
	b.WriteString(ind(1) + "<head>" + nl)
	if d.Title != 0 || d.Copyright != 0 {
		b.WriteString(ind(2) + "<metadata>" + nl)
		if d.Title != 0 {
			b.WriteString(ind(3) + "<" + px("ttm", "title") + ">" + escText(titles[d.Title]) + "</" + px("ttm", "title") + ">" + nl)
		}
		if d.Copyright != 0 {
			b.WriteString(ind(3) + "<" + px("ttm", "copyright") + ">" + escText(copyr[d.Copyright]) + "</" + px("ttm", "copyright") + ">" + nl)
		}
		b.WriteString(ind(2) + "</metadata>" + nl)
	}
	idAttr := "id"
	if d.Prefix {
		idAttr = "xml:id"
	}
	b.WriteString(ind(2) + "<styling>" + nl)
	for _, s := range d.Styles {
		b.WriteString(ind(3) + `<style ` + idAttr + `="` + sid(s.ID) + `"`)
		if s.Parent != 0 {
			b.WriteString(` style="` + sid(s.Parent) + `"`)
		}
		b.WriteString(attrString(s.Attrs, d.Prefix) + "/>" + nl)
	}
	b.WriteString(ind(2) + "</styling>" + nl)
	b.WriteString(ind(2) + "<layout>" + nl)
	for _, r := range d.Regions {
		b.WriteString(ind(3) + `<region ` + idAttr + `="` + rid(r.ID) + `"`)
		if r.Style != 0 {
			b.WriteString(` style="` + sid(r.Style) + `"`)
		}
		b.WriteString(attrString(r.Attrs, d.Prefix) + "/>" + nl)
	}
	b.WriteString(ind(2) + "</layout>" + nl + ind(1) + "</head>" + nl)
	b.WriteString(ind(1) + "<body>" + nl + ind(2) + "<div>" + nl)
	for _, q := range d.Ps {
		b.WriteString(ind(3) + `<p begin="` + ExprString(q.Begin) + `" end="` + ExprString(q.End) + `"`)
		if q.Style != 0 {
			b.WriteString(` style="` + sid(q.Style) + `"`)
		}
		if q.Region != 0 {
			b.WriteString(` region="` + rid(q.Region) + `"`)
		}
		b.WriteString(attrString(q.Attrs, d.Prefix) + ">" + nl)
		for _, nd := range q.Content {
			b.WriteString(ind(4))
			switch nd.K {
			case "text":
				t := escText(p.Text[nd.A])
				if i := strings.Index(t, " "); (n/7)%2 == 1 && nl != "" && i > 0 {
					// a long text wrapped over two source lines: the blank before the line break is part of the text,
					// the indentation of the next line is not
					t = t[:i+1] + nl + ind(5) + t[i+1:]
				}
				b.WriteString(t)
			case "br":
				b.WriteString("<br/>")
			case "span":
				b.WriteString("<span")
				if nd.Style != 0 {
					b.WriteString(` style="` + sid(nd.Style) + `"`)
				}
				b.WriteString(attrString(nd.Attrs, d.Prefix) + ">")
				for _, c := range nd.Content {
					if c.K == "br" {
						b.WriteString("<br/>")
					} else {
						b.WriteString(escText(p.Text[c.A]))
					}
				}
				b.WriteString("</span>")
			}
			b.WriteString(nl)
		}
		b.WriteString(ind(3) + "</p>" + nl)
	}
	b.WriteString(ind(2) + "</div>" + nl + ind(1) + "</body>" + nl + "</tt>" + nl)
	if d.Prefix && n%2 == 0 {
		// spelling variant: the elements of the TT namespace carry a prefix too (<tt:p>, <tt:span>, <tt:br/>)
		out := reTTElement.ReplaceAll(b.Bytes(), []byte("<${1}tt:${2}${3}"))
		return bytes.Replace(out, []byte(`<tt:tt xmlns="http://www.w3.org/ns/ttml"`), []byte(`<tt:tt xmlns:tt="http://www.w3.org/ns/ttml"`), 1)
	}
	return b.Bytes()
}

var reTTElement = regexp.MustCompile(`<(/?)(tt|head|metadata|styling|style|layout|region|body|div|p|span|br)([ />])`)

func attrsOf(se xml.StartElement) (abs.IntMap, map[string]string) {
	m := abs.IntMap{}
	other := map[string]string{}
	for _, a := range se.Attr {
		if vals, ok := attrVals[a.Name.Local]; ok {
			m[a.Name.Local] = rev(vals, a.Value)
		} else {
			other[a.Name.Local] = a.Value
		}
	}
	return m, other
}

// Lex parses XML with encoding/xml's token stream into a document record (independent of the library's structs).
func Lex(data []byte, p Pool) (Doc, error) {
	var d Doc
	d.Norm()
	dec := xml.NewDecoder(bytes.NewReader(data))
	var stack []string
	var curP *P
	var curSpan *Node
	var text bytes.Buffer
	for {
		tok, err := dec.Token()
		if err == io.EOF {
			break
		}
		if err != nil {
			return d, err
		}
		switch t := tok.(type) {
		case xml.StartElement:
			name := t.Name.Local
			stack = append(stack, name)
			am, other := attrsOf(t)
			switch name {
			case "tt":
				for k, v := range other {
					switch k {
					case "lang":
						d.Lang = -1
						for i, c := range langCode {
							if strings.HasPrefix(v, c) {
								d.Lang = i
							}
						}
					case "frameRate":
						d.Fr, _ = strconv.Atoi(v)
					case "tickRate":
						d.Tr, _ = strconv.Atoi(v)
					}
				}
			case "style":
				d.Styles = append(d.Styles, Def{ID: parseID(other["id"], "s"), Parent: parseID(other["style"], "s"), Attrs: am})
			case "region":
				d.Regions = append(d.Regions, Def{ID: parseID(other["id"], "r"), Style: parseID(other["style"], "s"), Attrs: am, IsRegion: true})
			case "p":
				d.Ps = append(d.Ps, P{Begin: ParseExpr(other["begin"]), End: ParseExpr(other["end"]), Style: parseID(other["style"], "s"),
					Region: parseID(other["region"], "r"), Attrs: am, Content: []Node{}})
				curP = &d.Ps[len(d.Ps)-1]
			case "span":
				if curP != nil {
					curSpan = &Node{K: "span", Style: parseID(other["style"], "s"), Attrs: am, Content: []Node{}}
				}
			case "br":
				if curSpan != nil {
					curSpan.Content = append(curSpan.Content, Node{K: "br", Attrs: abs.IntMap{}, Content: []Node{}})
				} else if curP != nil {
					curP.Content = append(curP.Content, Node{K: "br", Attrs: abs.IntMap{}, Content: []Node{}})
				}
			}
			text.Reset()
		case xml.CharData:
			s := string(t)
			switch {
			case curSpan != nil:
				// a span's character data is its text (an empty span still is a run)
				if s != "" {
					curSpan.Content = append(curSpan.Content, Node{K: "text", A: rev(p.Text, s), Attrs: abs.IntMap{}, Content: []Node{}})
				}
			case curP != nil:
				if strings.TrimSpace(s) != "" {
					curP.Content = append(curP.Content, Node{K: "text", A: rev(p.Text, strings.TrimSpace(s)), Attrs: abs.IntMap{}, Content: []Node{}})
				}
			default:
				text.WriteString(s)
			}
		case xml.EndElement:
			name := t.Name.Local
			switch name {
			case "title":
				d.Title = rev(titles, text.String())
			case "copyright":
				d.Copyright = rev(copyr, text.String())
			case "span":
				if curP != nil && curSpan != nil {
					curP.Content = append(curP.Content, *curSpan)
				}
				curSpan = nil
			case "p":
				curP = nil
			}
			if len(stack) > 0 {
				stack = stack[:len(stack)-1]
			}
			text.Reset()
		}
	}
	sort.Slice(d.Styles, func(i, j int) bool { return d.Styles[i].ID < d.Styles[j].ID })
	sort.Slice(d.Regions, func(i, j int) bool { return d.Regions[i].ID < d.Regions[j].ID })
	d.Norm()
	return d, nil
}

func sp(s string) *string { return &s }

func fieldOf(sa *astisub.StyleAttributes, attr string) reflect.Value {
	return reflect.ValueOf(sa).Elem().FieldByName("TTML" + strings.ToUpper(attr[:1]) + attr[1:])
}

func buildAttrs(m abs.IntMap) *astisub.StyleAttributes {
	if len(m) == 0 {
		return nil
	}
	sa := &astisub.StyleAttributes{}
	for k, v := range m {
		f := fieldOf(sa, k)
		if !f.IsValid() {
			panic("no TTML attribute " + k)
		}
		if k == "zIndex" {
			z, _ := strconv.Atoi(attrVals[k][v])
			f.Set(reflect.ValueOf(&z))
			continue
		}
		f.Set(reflect.ValueOf(sp(attrVals[k][v])))
	}
	return sa
}

// Build creates the library value of a truth.
func Build(g Truth, p Pool) *astisub.Subtitles {
	s := astisub.NewSubtitles()
	m := &astisub.Metadata{Framerate: g.Fr}
	for name, i := range langName {
		if i == g.Lang {
			m.Language = name
		}
	}
	if g.Title != 0 {
		m.Title = titles[g.Title]
	}
	if g.Copyright != 0 {
		m.TTMLCopyright = copyr[g.Copyright]
	}
	s.Metadata = m
	for _, st := range g.Styles {
		s.Styles[sid(st.ID)] = &astisub.Style{ID: sid(st.ID), InlineStyle: buildAttrs(st.Attrs)}
	}
	for _, st := range g.Styles {
		if st.Parent != 0 {
			s.Styles[sid(st.ID)].Style = s.Styles[sid(st.Parent)]
		}
	}
	for _, r := range g.Regions {
		rg := &astisub.Region{ID: rid(r.ID), InlineStyle: buildAttrs(r.Attrs)}
		if r.Style != 0 {
			rg.Style = s.Styles[sid(r.Style)]
		}
		s.Regions[rg.ID] = rg
	}
	for _, c := range g.Cues {
		it := &astisub.Item{StartAt: time.Duration(c.S) * time.Millisecond, EndAt: time.Duration(c.E) * time.Millisecond, InlineStyle: buildAttrs(c.Attrs)}
		if c.Style != 0 {
			it.Style = s.Styles[sid(c.Style)]
		}
		if c.Region != 0 {
			it.Region = s.Regions[rid(c.Region)]
		}
		for _, l := range c.Lines {
			var line astisub.Line
			for _, r := range l {
				li := astisub.LineItem{Text: p.Text[r.A], InlineStyle: buildAttrs(r.Attrs)}
				if r.Style != 0 {
					li.Style = s.Styles[sid(r.Style)]
				}
				line.Items = append(line.Items, li)
			}
			it.Lines = append(it.Lines, line)
		}
		s.Items = append(s.Items, it)
	}
	return s
}

func projAttrs(sa *astisub.StyleAttributes) abs.IntMap {
	m := abs.IntMap{}
	if sa == nil {
		return m
	}
	for k, vals := range attrVals {
		f := fieldOf(sa, k)
		if !f.IsValid() || f.IsNil() {
			continue
		}
		if k == "zIndex" {
			m[k] = rev(vals, strconv.Itoa(int(f.Elem().Int())))
			continue
		}
		m[k] = rev(vals, f.Elem().String())
	}
	return m
}

func inst(d time.Duration) [2]int {
	if d < 0 {
		return [2]int{-1, 0}
	}
	return [2]int{int(d / time.Millisecond), int(d % time.Millisecond)}
}

// Project maps the library's value onto the decoder's shape.
func Project(s *astisub.Subtitles, p Pool) Read {
	var r Read
	r.Norm()
	if s == nil {
		return r
	}
	if m := s.Metadata; m != nil {
		if m.Language != "" {
			r.Lang = -1
			if i, ok := langName[m.Language]; ok {
				r.Lang = i
			}
		}
		r.Fr = m.Framerate
		if m.Title != "" {
			r.Title = rev(titles, m.Title)
		}
		if m.TTMLCopyright != "" {
			r.Copyright = rev(copyr, m.TTMLCopyright)
		}
	}
	for _, st := range s.Styles {
		d := Def{ID: parseID(st.ID, "s"), Attrs: projAttrs(st.InlineStyle)}
		if st.Style != nil {
			d.Parent = parseID(st.Style.ID, "s")
		}
		r.Styles = append(r.Styles, d)
	}
	sort.Slice(r.Styles, func(i, j int) bool { return r.Styles[i].ID < r.Styles[j].ID })
	for _, rg := range s.Regions {
		d := Def{ID: parseID(rg.ID, "r"), Attrs: projAttrs(rg.InlineStyle), IsRegion: true}
		if rg.Style != nil {
			d.Style = parseID(rg.Style.ID, "s")
		}
		r.Regions = append(r.Regions, d)
	}
	sort.Slice(r.Regions, func(i, j int) bool { return r.Regions[i].ID < r.Regions[j].ID })
	for _, it := range s.Items {
		c := Cue{S: inst(it.StartAt), E: inst(it.EndAt), Attrs: projAttrs(it.InlineStyle), Lines: [][]Run{}}
		if it.Style != nil {
			c.Style = parseID(it.Style.ID, "s")
		}
		if it.Region != nil {
			c.Region = parseID(it.Region.ID, "r")
		}
		for _, l := range it.Lines {
			runs := []Run{}
			for _, li := range l.Items {
				run := Run{A: rev(p.Text, li.Text), Attrs: projAttrs(li.InlineStyle)}
				if li.Style != nil {
					run.Style = parseID(li.Style.ID, "s")
				}
				runs = append(runs, run)
			}
			c.Lines = append(c.Lines, runs)
		}
		r.Cues = append(r.Cues, c)
	}
	r.Norm()
	return r
}
