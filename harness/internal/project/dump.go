// Package project turns values of the library's public types into canonical, deterministic text
// (maps sorted, pointers followed, cycles cut) so that two results can be compared for deep equality
// across calls, goroutines and processes.
package project

import (
	"crypto/sha1"
	"fmt"
	"reflect"
	"sort"
	"strings"
	"time"
)

// Dump returns the canonical text of v.
func Dump(v interface{}) string {
	var b strings.Builder
	dump(&b, reflect.ValueOf(v), map[uintptr]bool{}, 0)
	return b.String()
}

// Digest returns a short hash of Dump(v).
func Digest(v interface{}) string {
	return fmt.Sprintf("%x", sha1.Sum([]byte(Dump(v))))[:16]
}

var timeType = reflect.TypeOf(time.Time{})

func dump(b *strings.Builder, v reflect.Value, seen map[uintptr]bool, depth int) {
	if !v.IsValid() {
		b.WriteString("nil")
		return
	}
	if depth > 60 {
		b.WriteString("<deep>")
		return
	}
	switch v.Kind() {
	case reflect.Ptr:
		if v.IsNil() {
			b.WriteString("nil")
			return
		}
		if seen[v.Pointer()] {
			b.WriteString("<cycle>")
			return
		}
		seen[v.Pointer()] = true
		b.WriteString("&")
		dump(b, v.Elem(), seen, depth+1)
		delete(seen, v.Pointer())
	case reflect.Interface:
		if v.IsNil() {
			b.WriteString("nil")
			return
		}
		dump(b, v.Elem(), seen, depth+1)
	case reflect.Struct:
		if v.Type() == timeType {
			if v.CanInterface() {
				t := v.Interface().(time.Time)
				fmt.Fprintf(b, "time(%d)", t.UnixNano())
			} else {
				b.WriteString("time(?)")
			}
			return
		}
		b.WriteString(v.Type().Name())
		b.WriteString("{")
		for i := 0; i < v.NumField(); i++ {
			f := v.Field(i)
			if isZero(f) {
				continue
			}
			b.WriteString(v.Type().Field(i).Name)
			b.WriteString(":")
			dump(b, f, seen, depth+1)
			b.WriteString(",")
		}
		b.WriteString("}")
	case reflect.Slice, reflect.Array:
		if v.Kind() == reflect.Slice && v.IsNil() {
			b.WriteString("nil")
			return
		}
		if v.Type().Elem().Kind() == reflect.Uint8 {
			fmt.Fprintf(b, "%q", bytesOf(v))
			return
		}
		b.WriteString("[")
		for i := 0; i < v.Len(); i++ {
			dump(b, v.Index(i), seen, depth+1)
			b.WriteString(",")
		}
		b.WriteString("]")
	case reflect.Map:
		if v.IsNil() {
			b.WriteString("nilmap")
			return
		}
		keys := v.MapKeys()
		ks := make([]string, len(keys))
		idx := map[string]reflect.Value{}
		for i, k := range keys {
			ks[i] = fmt.Sprintf("%v", k)
			idx[ks[i]] = k
		}
		sort.Strings(ks)
		b.WriteString("map{")
		for _, k := range ks {
			fmt.Fprintf(b, "%q:", k)
			dump(b, v.MapIndex(idx[k]), seen, depth+1)
			b.WriteString(",")
		}
		b.WriteString("}")
	case reflect.String:
		fmt.Fprintf(b, "%q", v.String())
	case reflect.Bool:
		fmt.Fprintf(b, "%v", v.Bool())
	case reflect.Int, reflect.Int8, reflect.Int16, reflect.Int32, reflect.Int64:
		fmt.Fprintf(b, "%d", v.Int())
	case reflect.Uint, reflect.Uint8, reflect.Uint16, reflect.Uint32, reflect.Uint64, reflect.Uintptr:
		fmt.Fprintf(b, "%d", v.Uint())
	case reflect.Float32, reflect.Float64:
		fmt.Fprintf(b, "%g", v.Float())
	case reflect.Func:
		if v.IsNil() {
			b.WriteString("nilfunc")
		} else {
			b.WriteString("func")
		}
	default:
		fmt.Fprintf(b, "<%s>", v.Kind())
	}
}

func bytesOf(v reflect.Value) []byte {
	o := make([]byte, v.Len())
	for i := range o {
		o[i] = byte(v.Index(i).Uint())
	}
	return o
}

func isZero(v reflect.Value) bool {
	switch v.Kind() {
	case reflect.Ptr, reflect.Interface, reflect.Map, reflect.Slice, reflect.Func:
		return v.IsNil()
	case reflect.String:
		return v.Len() == 0
	case reflect.Bool:
		return !v.Bool()
	case reflect.Int, reflect.Int8, reflect.Int16, reflect.Int32, reflect.Int64:
		return v.Int() == 0
	case reflect.Uint, reflect.Uint8, reflect.Uint16, reflect.Uint32, reflect.Uint64:
		return v.Uint() == 0
	case reflect.Float32, reflect.Float64:
		return v.Float() == 0
	}
	return false
}
