// Package bigx encodes integers as the limb records of spec/BigInt.tla (little-endian, base 10^4).
package bigx

import "math/big"

type Big struct {
	Neg bool  `json:"neg"`
	Mag []int `json:"mag"`
}

var base = big.NewInt(10000)

func FromBig(x *big.Int) Big {
	b := Big{Mag: []int{}}
	v := new(big.Int).Set(x)
	if v.Sign() < 0 {
		b.Neg = true
		v.Neg(v)
	}
	r := new(big.Int)
	for v.Sign() > 0 {
		v.DivMod(v, base, r)
		b.Mag = append(b.Mag, int(r.Int64()))
	}
	return b
}

func FromInt64(x int64) Big { return FromBig(big.NewInt(x)) }
