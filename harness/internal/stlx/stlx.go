// Package stlx holds the EBU STL side of the codec checks (spec/StlCodec.tla): a fixed-offset GSI/TTI packer and
// unpacker written from the Tech 3264 layout (the independent decoder at the lexical level: bytes <-> fields and
// text-field codes, no interpretation of the codes), builder and projection.
package stlx

import (
	"fmt"
	"sort"
	"strconv"
	"strings"
	"time"

	astisub "github.com/asticode/go-astisub"
	"verif/harness/internal/abs"
)

type TTI struct {
	Ebn int    `json:"ebn"`
	Tci [4]int `json:"tci"`
	Tco [4]int `json:"tco"`
	Vp  int    `json:"vp"`
	Jc  int    `json:"jc"`
	Tf  []int  `json:"tf"`
}

type Doc struct {
	Fps  int        `json:"fps"`
	Dsc  int        `json:"dsc"`
	Tcp  [4]int     `json:"tcp"`
	Meta abs.IntMap `json:"meta"`
	Ttis []TTI      `json:"ttis"`
}

type Run struct {
	T   []int `json:"t"`
	It  int   `json:"it"`
	Un  int   `json:"un"`
	Bx  int   `json:"bx"`
	Col int   `json:"col"`
	Dh  int   `json:"dh"`
}

type TCue struct {
	Tci  [4]int  `json:"tci"`
	Tco  [4]int  `json:"tco"`
	Vp   int     `json:"vp"`
	Jc   int     `json:"jc"`
	Rows [][]Run `json:"rows"`
}

type Truth struct {
	Fps  int        `json:"fps"`
	Dsc  int        `json:"dsc"`
	Tcp  [4]int     `json:"tcp"`
	Meta abs.IntMap `json:"meta"`
	Cues []TCue     `json:"cues"`
}

// RCue / Read: what the library returned, in the decoder's shape (instants as [ms, ns]).
type RCue struct {
	S    [2]int  `json:"s"`
	E    [2]int  `json:"e"`
	Vp   int     `json:"vp"`
	Jc   int     `json:"jc"`
	Rows [][]Run `json:"rows"`
}

type Read struct {
	Fps  int        `json:"fps"`
	Dsc  int        `json:"dsc"`
	Meta abs.IntMap `json:"meta"`
	Cues []RCue     `json:"cues"`
}

func normRows(rs [][]Run) [][]Run {
	if rs == nil {
		return [][]Run{}
	}
	for i := range rs {
		if rs[i] == nil {
			rs[i] = []Run{}
		}
		for j := range rs[i] {
			if rs[i][j].T == nil {
				rs[i][j].T = []int{}
			}
		}
	}
	return rs
}

func (t *Truth) Norm() {
	if t.Meta == nil {
		t.Meta = abs.IntMap{}
	}
	if t.Cues == nil {
		t.Cues = []TCue{}
	}
	for i := range t.Cues {
		t.Cues[i].Rows = normRows(t.Cues[i].Rows)
	}
}

func (r *Read) Norm() {
	if r.Meta == nil {
		r.Meta = abs.IntMap{}
	}
	if r.Cues == nil {
		r.Cues = []RCue{}
	}
	for i := range r.Cues {
		r.Cues[i].Rows = normRows(r.Cues[i].Rows)
	}
}

func (d *Doc) Norm() {
	if d.Meta == nil {
		d.Meta = abs.IntMap{}
	}
	if d.Ttis == nil {
		d.Ttis = []TTI{}
	}
	for i := range d.Ttis {
		if d.Ttis[i].Tf == nil {
			d.Ttis[i].Tf = []int{}
		}
	}
}

// GSI text fields of the model: name -> (offset, length, pool)
type field struct {
	off, n int
	pool   map[int]string
}

var (
	langCode = map[int]string{1: "75", 2: "09", 3: "0F", 4: "69", 5: "1E"}
	langName = map[string]int{astisub.LanguageChinese: 1, astisub.LanguageEnglish: 2, astisub.LanguageFrench: 3, astisub.LanguageJapanese: 4, astisub.LanguageNorwegian: 5}
	fields   = map[string]field{
		"opt": {16, 32, map[int]string{1: "My programme", 2: "Other title 123"}},
		"oet": {48, 32, map[int]string{1: "Episode one"}},
		"tpt": {80, 32, map[int]string{1: "Mon programme"}},
		"tet": {112, 32, map[int]string{1: "Episode un"}},
		"tn":  {144, 32, map[int]string{1: "A. Translator"}},
		"tcd": {176, 32, map[int]string{1: "translator@example.org"}},
		"slr": {208, 16, map[int]string{1: "REF-0042"}},
		"pub": {277, 32, map[int]string{1: "The Publisher"}},
		"en":  {309, 32, map[int]string{1: "An Editor"}},
		"ecd": {341, 32, map[int]string{1: "editor@example.org"}},
		"co":  {274, 3, map[int]string{1: "FRA"}},
	}
)

// value 3 of every GSI text field fills the field to its last byte
func init() {
	const fill = "ABCDEFGHIJKLMNOPQRSTUVWXYZ0123456789"
	for k, f := range fields {
		f.pool[3] = fill[:f.n]
		fields[k] = f
	}
}

func rev(m map[int]string, s string) int {
	for k, v := range m {
		if v == s {
			return k
		}
	}
	return -1
}

func put(b []byte, off, n int, s string) {
	for i := 0; i < n; i++ {
		if i < len(s) {
			b[off+i] = s[i]
		} else {
			b[off+i] = ' '
		}
	}
}

// Pack builds the bytes of a document: one 1024-byte GSI block and one 128-byte TTI block per entry.
func Pack(d Doc) []byte {
	g := make([]byte, 1024)
	for i := range g {
		g[i] = ' '
	}
	put(g, 0, 3, "850")
	put(g, 3, 8, fmt.Sprintf("STL%d.01", d.Fps))
	g[11] = byte('0' + d.Dsc)
	if d.Dsc < 0 {
		g[11] = ' ' // undefined display standard
	}
	put(g, 12, 2, "00")
	if l, ok := d.Meta["lang"]; ok {
		put(g, 14, 2, langCode[l])
	}
	for name, f := range fields {
		if v, ok := d.Meta[name]; ok {
			put(g, f.off, f.n, f.pool[v])
		}
	}
	put(g, 224, 6, "200102")
	put(g, 230, 6, "200304")
	put(g, 236, 2, fmt.Sprintf("%02d", d.Meta["rn"]))
	nsub := 0
	for _, t := range d.Ttis {
		if t.Ebn == 255 {
			nsub++
		}
	}
	put(g, 238, 5, fmt.Sprintf("%05d", len(d.Ttis)))
	put(g, 243, 5, fmt.Sprintf("%05d", nsub))
	put(g, 248, 3, "001")
	put(g, 251, 2, fmt.Sprintf("%02d", d.Meta["mnc"]))
	put(g, 253, 2, fmt.Sprintf("%02d", d.Meta["mnr"]))
	g[255] = '1'
	put(g, 256, 8, fmt.Sprintf("%02d%02d%02d%02d", d.Tcp[0], d.Tcp[1], d.Tcp[2], d.Tcp[3]))
	if len(d.Ttis) > 0 {
		t := d.Ttis[0].Tci
		put(g, 264, 8, fmt.Sprintf("%02d%02d%02d%02d", t[0], t[1], t[2], t[3]))
	} else {
		put(g, 264, 8, "00000000")
	}
	g[272], g[273] = '1', '1'
	out := g
	sn := 0
	for _, t := range d.Ttis {
		b := make([]byte, 128)
		b[0] = 0
		if t.Ebn == 255 {
			sn++
		}
		b[1], b[2] = byte(sn), byte(sn>>8)
		b[3] = byte(t.Ebn)
		b[4] = 0
		for i := 0; i < 4; i++ {
			b[5+i], b[9+i] = byte(t.Tci[i]), byte(t.Tco[i])
		}
		b[13], b[14], b[15] = byte(t.Vp), byte(t.Jc), 0
		for i := 16; i < 128; i++ {
			b[i] = 0x8f
		}
		for i, c := range t.Tf {
			if 16+i < 128 {
				b[16+i] = byte(c)
			}
		}
		out = append(out, b...)
	}
	return out
}

func trimField(b []byte) string { return strings.TrimSpace(string(b)) }

// Unpack splits bytes into the document record (fixed offsets; text field = the codes before the padding).
func Unpack(data []byte) (Doc, error) {
	var d Doc
	d.Norm()
	if len(data) < 1024 || (len(data)-1024)%128 != 0 {
		return d, fmt.Errorf("size %d is not 1024 + 128n", len(data))
	}
	g := data[:1024]
	switch string(g[3:11]) {
	case "STL25.01":
		d.Fps = 25
	case "STL30.01":
		d.Fps = 30
	default:
		d.Fps = -1
	}
	d.Dsc = int(g[11]) - '0'
	if g[11] == ' ' {
		d.Dsc = -1
	}
	if l := trimField(g[14:16]); l != "" {
		d.Meta["lang"] = rev(langCode, l)
	}
	for name, f := range fields {
		if s := trimField(g[f.off : f.off+f.n]); s != "" {
			d.Meta[name] = rev(f.pool, s)
		}
	}
	num := func(a, b int) int {
		v, err := strconv.Atoi(trimField(g[a:b]))
		if err != nil {
			return -1
		}
		return v
	}
	if v := num(236, 238); v != 0 {
		d.Meta["rn"] = v
	}
	d.Meta["mnc"], d.Meta["mnr"] = num(251, 253), num(253, 255)
	for i := 0; i < 4; i++ {
		d.Tcp[i] = num(256+2*i, 258+2*i)
	}
	for p := 1024; p < len(data); p += 128 {
		b := data[p : p+128]
		t := TTI{Ebn: int(b[3]), Vp: int(b[13]), Jc: int(b[14]), Tf: []int{}}
		for i := 0; i < 4; i++ {
			t.Tci[i], t.Tco[i] = int(b[5+i]), int(b[9+i])
		}
		end := 128
		for end > 16 && b[end-1] == 0x8f {
			end--
		}
		for _, c := range b[16:end] {
			t.Tf = append(t.Tf, int(c))
		}
		d.Ttis = append(d.Ttis, t)
	}
	return d, nil
}

func tcDur(tc [4]int, fps int) time.Duration {
	fr := time.Duration((int64(tc[3])*1e9 + int64(fps) - 1) / int64(fps))
	return time.Duration(tc[0])*time.Hour + time.Duration(tc[1])*time.Minute + time.Duration(tc[2])*time.Second + fr
}

func bp(v int) *bool {
	if v == 0 {
		return nil
	}
	b := v == 2
	return &b
}

var teletextColors = []*astisub.Color{astisub.ColorBlack, astisub.ColorRed, astisub.ColorGreen, astisub.ColorYellow, astisub.ColorBlue, astisub.ColorMagenta, astisub.ColorCyan, astisub.ColorWhite}

func cps(t []int) string {
	var b strings.Builder
	for _, c := range t {
		b.WriteRune(rune(c))
	}
	return b.String()
}

// Build creates the library value of a truth. metaMode: "full" (STL metadata as the STL reader would set it),
// "nil" (no metadata at all), "foreign" (metadata as another format's reader leaves it: title / language only).
func Build(g Truth, metaMode string) *astisub.Subtitles {
	s := astisub.NewSubtitles()
	tcp := tcDur(g.Tcp, g.Fps)
	switch metaMode {
	case "full":
		m := &astisub.Metadata{Framerate: g.Fps, STLDisplayStandardCode: strconv.Itoa(g.Dsc), STLTimecodeStartOfProgramme: tcp}
		if g.Dsc < 0 {
			m.STLDisplayStandardCode = "" // what the reader returns for a blank (undefined) display standard code
		}
		cd := time.Date(2020, 1, 2, 0, 0, 0, 0, time.UTC)
		rd := time.Date(2020, 3, 4, 0, 0, 0, 0, time.UTC)
		m.STLCreationDate, m.STLRevisionDate = &cd, &rd
		for k, v := range g.Meta {
			switch k {
			case "opt":
				m.Title = fields[k].pool[v]
			case "oet":
				m.STLOriginalEpisodeTitle = fields[k].pool[v]
			case "tpt":
				m.STLTranslatedProgramTitle = fields[k].pool[v]
			case "tet":
				m.STLTranslatedEpisodeTitle = fields[k].pool[v]
			case "tn":
				m.STLTranslatorName = fields[k].pool[v]
			case "tcd":
				m.STLTranslatorContactDetails = fields[k].pool[v]
			case "slr":
				m.STLSubtitleListReferenceCode = fields[k].pool[v]
			case "pub":
				m.STLPublisher = fields[k].pool[v]
			case "en":
				m.STLEditorName = fields[k].pool[v]
			case "ecd":
				m.STLEditorContactDetails = fields[k].pool[v]
			case "co":
				m.STLCountryOfOrigin = fields[k].pool[v]
			case "lang":
				for n, i := range langName {
					if i == v {
						m.Language = n
					}
				}
			case "mnc":
				x := v
				m.STLMaximumNumberOfDisplayableCharactersInAnyTextRow = &x
			case "mnr":
				x := v
				m.STLMaximumNumberOfDisplayableRows = &x
			case "rn":
				m.STLRevisionNumber = v
			}
		}
		s.Metadata = m
	case "foreign":
		s.Metadata = &astisub.Metadata{Title: "A title", Language: astisub.LanguageEnglish}
	}
	for _, c := range g.Cues {
		it := &astisub.Item{StartAt: tcDur(c.Tci, g.Fps) - tcp, EndAt: tcDur(c.Tco, g.Fps) - tcp}
		j := astisub.Justification(c.Jc + 1) // Unchanged=1 Left=2 Centered=3 Right=4 <-> jc 0..3
		it.InlineStyle = &astisub.StyleAttributes{STLJustification: &j, STLPosition: &astisub.STLPosition{VerticalPosition: c.Vp, MaxRows: g.Meta["mnr"], Rows: len(c.Rows)}}
		for _, row := range c.Rows {
			var l astisub.Line
			for _, r := range row {
				li := astisub.LineItem{Text: cps(r.T)}
				if r.It != 0 || r.Un != 0 || r.Bx != 0 || r.Col >= 0 || r.Dh != 0 {
					sa := &astisub.StyleAttributes{STLItalics: bp(r.It), STLUnderline: bp(r.Un), STLBoxing: bp(r.Bx), TeletextDoubleHeight: bp(r.Dh)}
					if r.Col >= 0 {
						sa.TeletextColor = teletextColors[r.Col]
					}
					li.InlineStyle = sa
				}
				l.Items = append(l.Items, li)
			}
			it.Lines = append(it.Lines, l)
		}
		s.Items = append(s.Items, it)
	}
	return s
}

func tri(b *bool) int {
	if b == nil {
		return 0
	}
	if *b {
		return 2
	}
	return 1
}

func inst(d time.Duration) [2]int {
	if d < 0 {
		return [2]int{-1, int(-d % 1000000)}
	}
	return [2]int{int(d / time.Millisecond), int(d % time.Millisecond)}
}

// Project maps the library's value onto the decoder's shape.
func Project(s *astisub.Subtitles) Read {
	var r Read
	r.Norm()
	if s == nil {
		return r
	}
	if m := s.Metadata; m != nil {
		r.Fps = m.Framerate
		if v, err := strconv.Atoi(m.STLDisplayStandardCode); err == nil {
			r.Dsc = v
		} else {
			r.Dsc = -1
		}
		set := func(k, v string) {
			if v != "" {
				r.Meta[k] = rev(fields[k].pool, v)
			}
		}
		set("opt", m.Title)
		set("oet", m.STLOriginalEpisodeTitle)
		set("tpt", m.STLTranslatedProgramTitle)
		set("tet", m.STLTranslatedEpisodeTitle)
		set("tn", m.STLTranslatorName)
		set("tcd", m.STLTranslatorContactDetails)
		set("slr", m.STLSubtitleListReferenceCode)
		set("pub", m.STLPublisher)
		set("en", m.STLEditorName)
		set("ecd", m.STLEditorContactDetails)
		set("co", m.STLCountryOfOrigin)
		if m.Language != "" {
			r.Meta["lang"] = -1
			if i, ok := langName[m.Language]; ok {
				r.Meta["lang"] = i
			}
		}
		if m.STLMaximumNumberOfDisplayableCharactersInAnyTextRow != nil {
			r.Meta["mnc"] = *m.STLMaximumNumberOfDisplayableCharactersInAnyTextRow
		}
		if m.STLMaximumNumberOfDisplayableRows != nil {
			r.Meta["mnr"] = *m.STLMaximumNumberOfDisplayableRows
		}
		if m.STLRevisionNumber != 0 {
			r.Meta["rn"] = m.STLRevisionNumber
		}
	}
	for _, it := range s.Items {
		c := RCue{S: inst(it.StartAt), E: inst(it.EndAt), Rows: [][]Run{}, Jc: -1, Vp: -1}
		if sa := it.InlineStyle; sa != nil {
			if sa.STLJustification != nil {
				c.Jc = int(*sa.STLJustification) - 1
			}
			if sa.STLPosition != nil {
				c.Vp = sa.STLPosition.VerticalPosition
			}
		}
		for _, l := range it.Lines {
			row := []Run{}
			for _, li := range l.Items {
				run := Run{T: []int{}, Col: -1}
				for _, rn := range li.Text {
					run.T = append(run.T, int(rn))
				}
				if sa := li.InlineStyle; sa != nil {
					run.It, run.Un, run.Bx, run.Dh = tri(sa.STLItalics), tri(sa.STLUnderline), tri(sa.STLBoxing), tri(sa.TeletextDoubleHeight)
					if sa.TeletextColor != nil {
						run.Col = -2
						for i, cl := range teletextColors {
							if *cl == *sa.TeletextColor {
								run.Col = i
							}
						}
					}
				}
				row = append(row, run)
			}
			c.Rows = append(c.Rows, row)
		}
		r.Cues = append(r.Cues, c)
	}
	r.Norm()
	return r
}

// SortedKeys is used by drivers for deterministic output.
func SortedKeys(m abs.IntMap) []string {
	ks := make([]string, 0, len(m))
	for k := range m {
		ks = append(ks, k)
	}
	sort.Strings(ks)
	return ks
}
