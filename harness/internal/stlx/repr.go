package stlx

import (
	_ "embed"
	"encoding/json"

	"golang.org/x/text/unicode/norm"
)

//go:embed tables.json
var tablesJSON []byte

var (
	latinRunes = map[rune]bool{}
	diaRunes   = map[rune]bool{}
)

func init() {
	var t struct {
		Latin map[string]int `json:"latin"`
		Dia   map[string]int `json:"dia"`
	}
	if err := json.Unmarshal(tablesJSON, &t); err != nil {
		panic(err)
	}
	for _, v := range t.Latin {
		latinRunes[rune(v)] = true
	}
	for _, v := range t.Dia {
		diaRunes[rune(v)] = true
	}
}

// Representable reports whether every character of s has a code in the EBU Latin table (ISO 6937: base
// characters and the floating diacritics), i.e. whether the text can be carried by an STL file.
func Representable(s string) bool {
	for _, r := range norm.NFD.String(s) {
		if r == '\n' {
			continue
		}
		if !latinRunes[r] && !diaRunes[r] {
			return false
		}
	}
	return true
}
