// Package srtx holds the SubRip side of the codec checks (spec/SrtCodec.tla): the concretiser turns a
// token document into bytes, the lexer turns bytes back into tokens using nothing but SubRip's lexical
// grammar (an independent decoder front end: no code shared with the library), and the projection maps
// the library's value onto the abstract cue model. No expected values are computed here.
package srtx

import (
	"bytes"
	"fmt"
	"regexp"
	"strconv"
	"strings"
	"time"

	astisub "github.com/asticode/go-astisub"
)

type Inl struct {
	T string `json:"t"` // o | c | x
	G string `json:"g"`
	A int    `json:"a"`
	C int    `json:"c"`
}

type Tok struct {
	K   string `json:"k"` // idx | junk | blank | timing | text
	V   int    `json:"v"`
	S   int    `json:"s"`
	E   int    `json:"e"`
	Sep string `json:"sep"`
	Fd  int    `json:"fd"`
	Sp  int    `json:"sp"`
	Xy  bool   `json:"xy"`
	Its []Inl  `json:"its"`
}

type Doc struct {
	Eol  string `json:"eol"`
	Bom  bool   `json:"bom"`
	Toks []Tok  `json:"toks"`
}

type Run struct {
	A int  `json:"a"`
	B bool `json:"b"`
	I bool `json:"i"`
	U bool `json:"u"`
	C int  `json:"c"`
}

type Cue struct {
	S     int     `json:"s"`
	E     int     `json:"e"`
	Lines [][]Run `json:"lines"`
}

// Pool maps text atoms and colour atoms to concrete strings. Text strings are mutually distinct, contain no
// line terminator and no "-->", and have no leading / trailing white space.
type Pool struct {
	Text  map[int]string
	Color map[int]string
}

var pools = []Pool{
	{Text: map[int]string{1: "Hello world", 2: "second text"}, Color: map[int]string{1: "#ff0000", 2: "blue"}},
	{Text: map[int]string{1: "a & b &c; d", 2: "x < y <3 z"}, Color: map[int]string{1: "red", 2: "#00FF00"}},
	{Text: map[int]string{1: "nb\u00a0sp", 2: "12"}, Color: map[int]string{1: "#abcdef", 2: "#123456"}},
	{Text: map[int]string{1: "\U0001F600 non-BMP \U00010348", 2: "ünï cödé → 日本語"}, Color: map[int]string{1: "yellow", 2: "#fff"}},
	{Text: map[int]string{1: "quote \" and ' and > gt", 2: "{\\an8} brace"}, Color: map[int]string{1: "white", 2: "#0a0b0c"}},
	// texts that literally contain entity-looking character sequences: they must survive one level of escaping
	{Text: map[int]string{1: "AT&amp;T literally", 2: "&lt;b&gt; is not a tag&nbsp;here"}, Color: map[int]string{1: "#010203", 2: "black"}},
	// a run that holds a no-break space and nothing else (written as the entity): it is text, not padding
	{Text: map[int]string{1: "top", 2: "\u00a0"}, Color: map[int]string{1: "#040506", 2: "green"}},
}

func PoolFor(n int) Pool { return pools[((n%len(pools))+len(pools))%len(pools)] }

func (p Pool) atomOf(s string) int {
	for a, t := range p.Text {
		if t == s {
			return a
		}
	}
	return -1
}

func (p Pool) colorOf(s string) int {
	for a, t := range p.Color {
		if t == s {
			return a
		}
	}
	return -1
}

func esc(s string) string {
	s = strings.ReplaceAll(s, "&", "&amp;")
	s = strings.ReplaceAll(s, "<", "&lt;")
	s = strings.ReplaceAll(s, "\u00a0", "&nbsp;")
	return s
}

func unesc(s string) string {
	s = strings.ReplaceAll(s, "&nbsp;", "\u00a0")
	s = strings.ReplaceAll(s, "&lt;", "<")
	s = strings.ReplaceAll(s, "&gt;", ">")
	s = strings.ReplaceAll(s, "&amp;", "&")
	return s
}

func fmtTime(ms int, sep string, fd int) string {
	frac := ms % 1000
	for i := 0; i < 3-fd; i++ {
		frac /= 10
	}
	return fmt.Sprintf("%02d:%02d:%02d%s%0*d", ms/3600000, ms/60000%60, ms/1000%60, sep, fd, frac)
}

// Concretise renders a token document as bytes.
func Concretise(d Doc, p Pool) []byte {
	eol := map[string]string{"lf": "\n", "crlf": "\r\n", "cr": "\r"}[d.Eol]
	var b bytes.Buffer
	if d.Bom {
		b.Write([]byte{0xEF, 0xBB, 0xBF})
	}
	for _, t := range d.Toks {
		switch t.K {
		case "idx":
			b.WriteString(strconv.Itoa(t.V))
		case "junk":
			b.WriteString("chapter one")
		case "blank":
		case "timing":
			arrow := []string{" --> ", "  -->   ", "-->"}[t.Sp]
			b.WriteString(fmtTime(t.S, t.Sep, t.Fd) + arrow + fmtTime(t.E, t.Sep, t.Fd))
			if t.Xy {
				// the coordinates follow the end time after white space: blanks or a tab
				b.WriteString([]string{"  ", "\t", " \t "}[(t.S+t.Fd)%3] + "X1:40 X2:600 Y1:20 Y2:50")
			}
		case "text":
			for _, it := range t.Its {
				switch it.T {
				case "o":
					if it.G == "font" {
						if it.C%2 == 0 {
							// the colour is not the tag's first attribute
							b.WriteString(`<font face="Arial" color="` + p.Color[it.C] + `">`)
						} else {
							b.WriteString(`<font color="` + p.Color[it.C] + `">`)
						}
					} else {
						b.WriteString("<" + it.G + ">")
					}
				case "c":
					b.WriteString("</" + it.G + ">")
				case "x":
					b.WriteString(esc(p.Text[it.A]))
				}
			}
		}
		b.WriteString(eol)
	}
	return b.Bytes()
}

var (
	reTiming = regexp.MustCompile(`^\s*(\d+):(\d\d):(\d\d)([,.])(\d{1,3})(\s*)-->(\s*)(\d+):(\d\d):(\d\d)([,.])(\d{1,3})(\s+\S.*)?\s*$`)
	reTag    = regexp.MustCompile(`<(/?)(b|i|u|font)(?:\s+color="([^"]*)")?\s*>`)
	reNum    = regexp.MustCompile(`^\s*\d+\s*$`)
)

func splitLines(b []byte) []string {
	s := string(b)
	s = strings.ReplaceAll(s, "\r\n", "\n")
	s = strings.ReplaceAll(s, "\r", "\n")
	ls := strings.Split(s, "\n")
	if len(ls) > 0 && ls[len(ls)-1] == "" {
		ls = ls[:len(ls)-1] // the final terminator does not start a line
	}
	return ls
}

func toMs(h, m, s, f string) int {
	hh, _ := strconv.Atoi(h)
	mm, _ := strconv.Atoi(m)
	ss, _ := strconv.Atoi(s)
	ff, _ := strconv.Atoi(f)
	for i := len(f); i < 3; i++ {
		ff *= 10
	}
	return ((hh*60+mm)*60+ss)*1000 + ff
}

// Lex is the independent SubRip lexer. A non-blank line directly before a timing line is that cue's number.
func Lex(b []byte, p Pool) (Doc, error) {
	d := Doc{Eol: "lf", Toks: []Tok{}}
	if bytes.HasPrefix(b, []byte{0xEF, 0xBB, 0xBF}) {
		d.Bom = true
		b = b[3:]
	}
	if bytes.Contains(b, []byte("\r\n")) {
		d.Eol = "crlf"
	} else if bytes.Contains(b, []byte("\r")) {
		d.Eol = "cr"
	}
	ls := splitLines(b)
	for i, l := range ls {
		t := Tok{Its: []Inl{}}
		switch {
		case strings.TrimSpace(l) == "":
			t.K = "blank"
		case reTiming.MatchString(l):
			m := reTiming.FindStringSubmatch(l)
			t.K = "timing"
			t.S, t.E = toMs(m[1], m[2], m[3], m[5]), toMs(m[8], m[9], m[10], m[12])
			t.Sep, t.Fd = m[4], len(m[5])
			if m[4] != m[11] || len(m[5]) != len(m[12]) {
				t.Sep, t.Fd = "mixed", 0
			}
			switch {
			case m[6] == " " && m[7] == " ":
				t.Sp = 0
			case m[6] == "" && m[7] == "":
				t.Sp = 2
			default:
				t.Sp = 1
			}
			t.Xy = strings.TrimSpace(m[13]) != ""
		case i+1 < len(ls) && reTiming.MatchString(ls[i+1]):
			if reNum.MatchString(l) {
				t.K = "idx"
				t.V, _ = strconv.Atoi(strings.TrimSpace(l))
			} else {
				t.K = "junk"
			}
		default:
			t.K = "text"
			rest := strings.TrimSpace(l)
			for rest != "" {
				loc := reTag.FindStringSubmatchIndex(rest)
				if loc == nil {
					t.Its = append(t.Its, Inl{T: "x", A: p.atomOf(unesc(rest))})
					break
				}
				if loc[0] > 0 {
					t.Its = append(t.Its, Inl{T: "x", A: p.atomOf(unesc(rest[:loc[0]]))})
				}
				m := reTag.FindStringSubmatch(rest)
				it := Inl{T: "o", G: m[2]}
				if m[1] == "/" {
					it.T = "c"
				} else if m[2] == "font" {
					it.C = p.colorOf(m[3])
				}
				t.Its = append(t.Its, it)
				rest = rest[loc[1]:]
			}
		}
		d.Toks = append(d.Toks, t)
	}
	return d, nil
}

// Build creates the library value of an abstract cue list.
func Build(g []Cue, p Pool) *astisub.Subtitles {
	s := astisub.NewSubtitles()
	for _, c := range g {
		it := &astisub.Item{StartAt: time.Duration(c.S) * time.Millisecond, EndAt: time.Duration(c.E) * time.Millisecond}
		for _, l := range c.Lines {
			var line astisub.Line
			for _, r := range l {
				li := astisub.LineItem{Text: p.Text[r.A]}
				if r.B || r.I || r.U || r.C != 0 {
					sa := &astisub.StyleAttributes{SRTBold: r.B, SRTItalics: r.I, SRTUnderline: r.U}
					if r.C != 0 {
						col := p.Color[r.C]
						sa.SRTColor = &col
					}
					li.InlineStyle = sa
				}
				line.Items = append(line.Items, li)
			}
			it.Lines = append(it.Lines, line)
		}
		s.Items = append(s.Items, it)
	}
	return s
}

// Project maps the library's value onto the abstract cue model.
func Project(s *astisub.Subtitles, p Pool) []Cue {
	out := []Cue{}
	if s == nil {
		return out
	}
	for _, it := range s.Items {
		c := Cue{S: msOf(it.StartAt), E: msOf(it.EndAt), Lines: [][]Run{}}
		for _, l := range it.Lines {
			runs := []Run{}
			for _, li := range l.Items {
				r := Run{A: p.atomOf(li.Text)}
				if sa := li.InlineStyle; sa != nil {
					r.B, r.I, r.U = sa.SRTBold, sa.SRTItalics, sa.SRTUnderline
					if sa.SRTColor != nil {
						r.C = p.colorOf(*sa.SRTColor)
					}
				}
				runs = append(runs, r)
			}
			c.Lines = append(c.Lines, runs)
		}
		out = append(out, c)
	}
	return out
}

func msOf(d time.Duration) int {
	if d%time.Millisecond != 0 || d < 0 || d > 1000*time.Hour {
		return -1
	}
	return int(d / time.Millisecond)
}
