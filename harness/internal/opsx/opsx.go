// Package opsx builds real *astisub.Subtitles values from abstract lists, runs the list
// operations of the real code and projects the outcome back (spec/Cues.tla, spec/Ops.tla).
// It contains no expected values.
package opsx

import (
	"bytes"
	"fmt"
	"reflect"
	"strconv"
	"strings"
	"time"

	astisub "github.com/asticode/go-astisub"
	"verif/harness/internal/abs"
	"verif/harness/internal/run"
)

const FillerText = "..."

// World remembers pointer identities and deep snapshots of everything built for one case.
type World struct {
	Unit      time.Duration
	itemID    map[*astisub.Item]int
	snap      map[int]*astisub.Item // id -> deep copy at build time
	origSt    map[int]*astisub.Style
	origRg    map[int]*astisub.Region
	textAtom  map[string]int
	Decorate  bool
	Scheme    int  // how the even text atoms are laid out (see Build)
	DecoRefs  bool // decorated cues without a style / region of their own get a detached one (carried along by the operations)
	SplitRuns bool // cues with an even identifier hold their text in two runs, the others in one: the same text
	Twins     bool // a style's parent pointer is an object of its own carrying the parent's ID, not the object the list defines
}

func NewWorld(unit time.Duration, decorate bool) *World {
	return &World{Unit: unit, itemID: map[*astisub.Item]int{}, snap: map[int]*astisub.Item{},
		origSt: map[int]*astisub.Style{}, origRg: map[int]*astisub.Region{},
		textAtom: map[string]int{TextKey(&astisub.Item{Lines: []astisub.Line{{Items: []astisub.LineItem{{Text: FillerText}}}}}): -1}, Decorate: decorate}
}

func atomText(t int) string { return fmt.Sprintf("Text%d", t) }

// TextKey is the harness's own notion of a cue's text: the texts of the runs with their line structure. It does not
// go through Item.String(), which the library itself uses to compare texts.
func TextKey(it *astisub.Item) string {
	var b strings.Builder
	for _, l := range it.Lines {
		for _, li := range l.Items {
			b.WriteString(li.Text) // how a line's text is split into runs is styling, not text
		}
		b.WriteByte(0x1e)
	}
	return b.String()
}

// Build creates the Go value of an abstract list. nilMaps: leave Styles/Regions nil where the abstract says so.
func (w *World) Build(a abs.Subs) *astisub.Subtitles {
	s := &astisub.Subtitles{}
	if !a.SNil {
		s.Styles = map[string]*astisub.Style{}
	}
	if !a.RNil {
		s.Regions = map[string]*astisub.Region{}
	}
	// styles by id (definitions), parents linked by id; unknown parent ids get a detached object
	byID := map[string]*astisub.Style{}
	for k, d := range a.Styles {
		st := &astisub.Style{ID: d.ID, InlineStyle: &astisub.StyleAttributes{SSAFontName: d.Tag}}
		byID[d.ID] = st
		if s.Styles != nil {
			s.Styles[k] = st
		}
	}
	styleRef := func(id string) *astisub.Style {
		if id == "" {
			return nil
		}
		if st, ok := byID[id]; ok {
			return st
		}
		st := &astisub.Style{ID: id}
		byID[id] = st
		return st
	}
	for _, d := range a.Styles {
		byID[d.ID].Style = styleRef(d.Parent)
		if w.Twins && d.Parent != "" {
			// what Merge leaves behind when both lists define the parent: the child points at its own list's object,
			// the receiver's map holds another one under the same identifier (references are by identifier)
			byID[d.ID].Style = &astisub.Style{ID: d.Parent}
		}
	}
	regByID := map[string]*astisub.Region{}
	for k, d := range a.Regions {
		rg := &astisub.Region{ID: d.ID, Style: styleRef(d.Parent), InlineStyle: &astisub.StyleAttributes{SSAFontName: d.Tag}}
		regByID[d.ID] = rg
		if s.Regions != nil {
			s.Regions[k] = rg
		}
	}
	regionRef := func(id string) *astisub.Region {
		if id == "" {
			return nil
		}
		if rg, ok := regByID[id]; ok {
			return rg
		}
		rg := &astisub.Region{ID: id}
		regByID[id] = rg
		return rg
	}
	for _, c := range a.Items {
		it := &astisub.Item{Index: c.ID, StartAt: time.Duration(c.S) * w.Unit, EndAt: time.Duration(c.E) * w.Unit,
			Style: styleRef(c.St), Region: regionRef(c.Rg)}
		// an even atom is a two-line text whose characters are those of the odd atom before it: the texts
		// differ only in their line structure
		// (scheme 0); or the odd atom's line after an empty first line (scheme 1); or no text line at all (scheme 2,
		// cues without run styles)
		txt, second, lead, lineless := atomText(c.T), "", false, false
		if c.T == -1 {
			txt = FillerText // a genuine cue that happens to carry the placeholder text
		}
		if c.T > 0 && c.T%2 == 0 {
			switch {
			case w.Scheme == 1:
				txt, lead = atomText(c.T-1), true
			case w.Scheme == 2 && len(c.Rs) == 0:
				lineless = true
			default:
				txt, second = "Text", strconv.Itoa(c.T-1)
			}
		}
		if len(c.Rs) == 0 && w.SplitRuns && c.ID%2 == 0 && len(txt) > 2 {
			it.Lines = []astisub.Line{{Items: []astisub.LineItem{{Text: txt[:2]}, {Text: txt[2:]}}}}
		} else if len(c.Rs) == 0 {
			it.Lines = []astisub.Line{{Items: []astisub.LineItem{{Text: txt}}}}
		} else {
			// one run per referenced run style; the text is split over the runs (Item.String() joins them)
			var l astisub.Line
			for j, r := range c.Rs {
				t := ""
				if j == 0 {
					t = txt
				}
				l.Items = append(l.Items, astisub.LineItem{Text: t, Style: styleRef(r)})
			}
			it.Lines = []astisub.Line{l}
		}
		if second != "" {
			it.Lines = append(it.Lines, astisub.Line{Items: []astisub.LineItem{{Text: second}}})
		}
		if lead {
			it.Lines = append([]astisub.Line{{Items: []astisub.LineItem{{Text: ""}}}}, it.Lines...)
		}
		if lineless {
			it.Lines = nil
		}
		w.textAtom[TextKey(it)] = c.T
		if w.Decorate {
			// content that the operations must carry along untouched
			it.Comments = []string{fmt.Sprintf("comment %d", c.ID)}
			if c.ID%2 == 1 {
				col := "#ff0000"
				it.InlineStyle = &astisub.StyleAttributes{SRTBold: true, SRTColor: &col, WebVTTAlign: "left"}
			}
			if c.ID%3 == 0 && len(it.Lines) > 0 {
				it.Lines[0].VoiceName = fmt.Sprintf("voice%d", c.ID)
				it.Lines[0].Items[0].InlineStyle = &astisub.StyleAttributes{SRTItalics: true}
			}
			if w.DecoRefs && c.ID%2 == 0 {
				if it.Region == nil {
					it.Region = &astisub.Region{ID: "deco-region"}
				}
				if it.Style == nil {
					it.Style = &astisub.Style{ID: "deco-style"}
				}
			}
			if c.ID%2 == 0 && len(it.Lines) > 0 {
				// an inline timestamp (WebVTT karaoke timing) is timing and content, not styling
				it.Lines[len(it.Lines)-1].Items[0].StartAt = time.Duration(c.ID) * 100 * time.Millisecond
			}
		}
		w.itemID[it] = c.ID
		w.snap[c.ID] = DeepCopy(it).(*astisub.Item)
		w.origSt[c.ID] = it.Style
		w.origRg[c.ID] = it.Region
		s.Items = append(s.Items, it)
	}
	return s
}

func countInline(it *astisub.Item) int {
	n := 0
	if it.InlineStyle != nil {
		n++
	}
	for _, l := range it.Lines {
		for _, li := range l.Items {
			if li.InlineStyle != nil {
				n++
			}
		}
	}
	return n
}

// stripStyling removes styling from a snapshot copy (what RemoveStyling is allowed to change).
func stripStyling(it *astisub.Item) *astisub.Item {
	c := DeepCopy(it).(*astisub.Item)
	c.Region, c.Style, c.InlineStyle = nil, nil, nil
	for i := range c.Lines {
		for j := range c.Lines[i].Items {
			c.Lines[i].Items[j].InlineStyle = nil
			c.Lines[i].Items[j].Style = nil
		}
	}
	return c
}

// Project maps the Go value back to the abstract list. stripped: compare content against the styling-free snapshot.
func (w *World) Project(s *astisub.Subtitles, stripped bool) abs.Subs {
	var a abs.Subs
	a.SNil = s.Styles == nil
	a.RNil = s.Regions == nil
	a.Styles = abs.DefMap{}
	a.Regions = abs.DefMap{}
	for k, st := range s.Styles {
		d := abs.Def{}
		if st != nil {
			d.ID = st.ID
			if st.Style != nil {
				d.Parent = st.Style.ID
			}
			if st.InlineStyle != nil {
				d.Tag = st.InlineStyle.SSAFontName
			}
		}
		a.Styles[k] = d
	}
	for k, rg := range s.Regions {
		d := abs.Def{}
		if rg != nil {
			d.ID = rg.ID
			if rg.Style != nil {
				d.Parent = rg.Style.ID
			}
			if rg.InlineStyle != nil {
				d.Tag = rg.InlineStyle.SSAFontName
			}
		}
		a.Regions[k] = d
	}
	a.Items = []abs.Cue{}
	for _, it := range s.Items {
		c := abs.Cue{Rs: []string{}}
		if it == nil {
			c.T = -3
			a.Items = append(a.Items, c)
			continue
		}
		c.ID = it.Index
		c.Ptr = w.itemID[it]
		c.S, c.E = w.toUnit(it.StartAt), w.toUnit(it.EndAt)
		if t, ok := w.textAtom[TextKey(it)]; ok {
			c.T = t
		} else {
			c.T = -2
		}
		if it.Style != nil {
			c.St = it.Style.ID
		}
		if it.Region != nil {
			c.Rg = it.Region.ID
		}
		// one entry per text run of the first line ("" = the run references no style)
		if len(it.Lines) > 0 {
			for _, li := range it.Lines[0].Items {
				if li.Style != nil {
					c.Rs = append(c.Rs, li.Style.ID)
				} else {
					c.Rs = append(c.Rs, "")
				}
			}
		}
		c.Ni = countInline(it)
		c.Ok = w.contentOK(it, stripped)
		a.Items = append(a.Items, c)
	}
	return a
}

// toUnit converts to abstract units; a value that is not a whole number of units is reported
// as an impossible value (negative sentinel that no normative operator produces).
func (w *World) toUnit(d time.Duration) int {
	if d%w.Unit != 0 {
		return -999999
	}
	q := d / w.Unit
	if q > 1<<30 || q < -(1<<30) {
		return -999998
	}
	return int(q)
}

func (w *World) contentOK(it *astisub.Item, stripped bool) bool {
	if it.Index == 0 {
		// allocated by the operation without a source (ForceDuration's filler): content = placeholder text only
		return TextKey(it) == TextKey(&astisub.Item{Lines: []astisub.Line{{Items: []astisub.LineItem{{Text: FillerText}}}}}) && it.Style == nil && it.Region == nil && it.InlineStyle == nil && len(it.Comments) == 0
	}
	sn, ok := w.snap[it.Index]
	if !ok {
		return false
	}
	want := sn
	if stripped {
		want = stripStyling(sn)
	} else {
		// pointer identity of the definitions the cue refers to
		if it.Style != w.origSt[it.Index] || it.Region != w.origRg[it.Index] {
			return false
		}
	}
	a, b := *it, *want
	a.StartAt, a.EndAt, b.StartAt, b.EndAt = 0, 0, 0, 0
	return reflect.DeepEqual(a, b)
}

// Exec runs one case on the real code and returns the observed events.
func Exec(n int, c abs.OpCase, unit time.Duration, decorate bool) []abs.OpEvent {
	w := NewWorld(unit, decorate)
	w.Scheme = n % 3
	w.Twins = n%5 == 4
	w.SplitRuns = (c.Op == "unfragment" || c.Op == "fragment+unfragment") && n%2 == 1
	w.DecoRefs = !(c.Op == "optimize" || c.Op == "removestyling" || c.Op == "merge")
	if c.Op == "optimize" || c.Op == "removestyling" || c.Op == "merge" {
		w.Scheme = 0 // those lists are also written to files: an empty first line or no line at all is not representable there
	}
	c.Pre.Norm()
	c.Pre2.Norm()
	A := w.Build(c.Pre)
	var B *astisub.Subtitles
	if c.Op == "merge" {
		B = w.Build(c.Pre2)
	} else {
		B = astisub.NewSubtitles()
	}
	steps := []string{c.Op}
	if c.Op == "fragment+unfragment" {
		steps = []string{"fragment", "unfragment"}
	}
	if c.Op == "add+addinv" {
		steps = []string{"add", "add"}
	}
	var evs []abs.OpEvent
	for i, op := range steps {
		ev := abs.OpEvent{N: n, First: i == 0, Op: op, A: c.A, B: c.B}
		if c.Op == "fragment+unfragment" && op == "unfragment" {
			ev.Op = "unfragment-inv"
		}
		ev.Pre = w.Project(A, false)
		ev.Pre2 = w.Project(B, false)
		if c.Op == "add+addinv" && i == 1 {
			ev.Op = "add-inv"
			ev.A = -c.A
		}
		d := time.Duration(ev.A) * unit
		ev.Wb = []abs.WriteBack{}
		if op == "optimize" {
			before := DeepCopy(A).(*astisub.Subtitles)
			for _, f := range wbFormats {
				wb := abs.WriteBack{Fmt: f, PostCues: [][]string{}}
				wb.PreRes, wb.PreCues = writeBack(before, f)
				ev.Wb = append(ev.Wb, wb)
			}
		}
		ev.Res, ev.Msg = run.Guard(20*time.Second, func() {
			switch op {
			case "add":
				A.Add(d)
			case "fragment":
				A.Fragment(d)
			case "unfragment":
				A.Unfragment()
			case "order":
				A.Order()
			case "merge":
				A.Merge(B)
			case "optimize":
				A.Optimize()
			case "removestyling":
				A.RemoveStyling()
			case "force":
				A.ForceDuration(d, c.B != 0)
			default:
				panic("unknown op " + op)
			}
		})
		if ev.Res == "ok" {
			ev.Post = w.Project(A, op == "removestyling")
			ev.Post2 = w.Project(B, false)
			for i := range ev.Wb {
				ev.Wb[i].PostRes, ev.Wb[i].PostCues = writeBack(A, ev.Wb[i].Fmt)
			}
		} else {
			ev.Post, ev.Post2 = ev.Pre, ev.Pre2
		}
		evs = append(evs, ev)
		if ev.Res != "ok" {
			break
		}
	}
	return evs
}

var wbFormats = []string{"srt", "vtt", "ssa", "stl", "ttml"}

// writeBack writes the list in one format and reads the bytes back with the format's reader.
func writeBack(s *astisub.Subtitles, f string) (res string, cues [][]string) {
	cues = [][]string{}
	var buf bytes.Buffer
	var err error
	var back *astisub.Subtitles
	r, _ := run.Guard(20*time.Second, func() {
		switch f {
		case "srt":
			err = s.WriteToSRT(&buf)
		case "vtt":
			err = s.WriteToWebVTT(&buf)
		case "ssa":
			err = s.WriteToSSA(&buf)
		case "stl":
			err = s.WriteToSTL(&buf)
		case "ttml":
			err = s.WriteToTTML(&buf)
		}
	})
	if r != "ok" {
		return "write-" + r, cues
	}
	if err != nil {
		return "write-error", cues
	}
	r, _ = run.Guard(20*time.Second, func() {
		rd := bytes.NewReader(buf.Bytes())
		switch f {
		case "srt":
			back, err = astisub.ReadFromSRT(rd)
		case "vtt":
			back, err = astisub.ReadFromWebVTT(rd)
		case "ssa":
			back, err = astisub.ReadFromSSA(rd)
		case "stl":
			back, err = astisub.ReadFromSTL(rd, astisub.STLOptions{})
		case "ttml":
			back, err = astisub.ReadFromTTML(rd)
		}
	})
	if r != "ok" {
		return "read-" + r, cues
	}
	if err != nil {
		return "read-error", cues
	}
	for _, it := range back.Items {
		cues = append(cues, []string{fmt.Sprint(it.StartAt.Milliseconds()), fmt.Sprint(it.EndAt.Milliseconds()), it.String()})
	}
	return "ok", cues
}

// SameExceptTimes reports whether two lists are deeply equal once every cue's start and end are disregarded.
func SameExceptTimes(a, b *astisub.Subtitles) bool {
	x := DeepCopy(a).(*astisub.Subtitles)
	y := DeepCopy(b).(*astisub.Subtitles)
	for _, s := range []*astisub.Subtitles{x, y} {
		for _, it := range s.Items {
			it.StartAt, it.EndAt = 0, 0
		}
	}
	return reflect.DeepEqual(x, y)
}
