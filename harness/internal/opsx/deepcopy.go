package opsx

import "reflect"

// DeepCopy returns a structural copy of v (pointers, slices, maps, structs), preserving sharing and cycles.
func DeepCopy(v interface{}) interface{} {
	if v == nil {
		return nil
	}
	memo := map[uintptr]reflect.Value{}
	return deepCopy(reflect.ValueOf(v), memo).Interface()
}

func deepCopy(v reflect.Value, memo map[uintptr]reflect.Value) reflect.Value {
	switch v.Kind() {
	case reflect.Ptr:
		if v.IsNil() {
			return reflect.Zero(v.Type())
		}
		if c, ok := memo[v.Pointer()]; ok {
			return c
		}
		n := reflect.New(v.Type().Elem())
		memo[v.Pointer()] = n
		n.Elem().Set(deepCopy(v.Elem(), memo))
		return n
	case reflect.Slice:
		if v.IsNil() {
			return reflect.Zero(v.Type())
		}
		n := reflect.MakeSlice(v.Type(), v.Len(), v.Len())
		for i := 0; i < v.Len(); i++ {
			n.Index(i).Set(deepCopy(v.Index(i), memo))
		}
		return n
	case reflect.Map:
		if v.IsNil() {
			return reflect.Zero(v.Type())
		}
		n := reflect.MakeMapWithSize(v.Type(), v.Len())
		for _, k := range v.MapKeys() {
			n.SetMapIndex(deepCopy(k, memo), deepCopy(v.MapIndex(k), memo))
		}
		return n
	case reflect.Struct:
		n := reflect.New(v.Type()).Elem()
		for i := 0; i < v.NumField(); i++ {
			if n.Field(i).CanSet() {
				n.Field(i).Set(deepCopy(v.Field(i), memo))
			} else {
				// unexported field (e.g. time.Time internals): copy the whole struct by value
				n.Set(v)
				return n
			}
		}
		return n
	case reflect.Interface:
		if v.IsNil() {
			return reflect.Zero(v.Type())
		}
		n := reflect.New(v.Type()).Elem()
		n.Set(deepCopy(v.Elem(), memo))
		return n
	default:
		return v
	}
}
