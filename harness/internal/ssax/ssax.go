// Package ssax holds the SubStation Alpha side of the codec checks (spec/SsaCodec.tla): concretiser, independent
// lexer (sections, Format / Style / Dialogue rows split into typed cells - no interpretation of what a column
// means), builder and projection. Cell values are atoms: 0 = absent/default.
package ssax

import (
	"bytes"
	"encoding/json"
	"fmt"
	"reflect"
	"regexp"
	"sort"
	"strconv"
	"strings"
	"time"

	astisub "github.com/asticode/go-astisub"
)

// IntMap is a TLA+ function string |-> int (TLC prints the empty function as []).
type IntMap map[string]int

func (m *IntMap) UnmarshalJSON(b []byte) error {
	b = bytes.TrimSpace(b)
	*m = IntMap{}
	if len(b) > 0 && b[0] == '[' {
		return nil
	}
	var x map[string]int
	if err := json.Unmarshal(b, &x); err != nil {
		return err
	}
	*m = x
	return nil
}

func (m IntMap) MarshalJSON() ([]byte, error) {
	keys := make([]string, 0, len(m))
	for k := range m {
		keys = append(keys, k)
	}
	sort.Strings(keys)
	var buf bytes.Buffer
	buf.WriteByte('{')
	for i, k := range keys {
		if i > 0 {
			buf.WriteByte(',')
		}
		kb, _ := json.Marshal(k)
		buf.Write(kb)
		buf.WriteByte(':')
		buf.WriteString(strconv.Itoa(m[k]))
	}
	buf.WriteByte('}')
	return buf.Bytes(), nil
}

type Run struct {
	A  int `json:"a"`
	Fx int `json:"fx"`
}

type Event struct {
	S     int     `json:"s"`
	E     int     `json:"e"`
	Cols  IntMap  `json:"cols"`
	Lines [][]Run `json:"lines"`
}

type Truth struct {
	Plus   bool     `json:"plus"`
	Info   IntMap   `json:"info"`
	Notes  []int    `json:"notes"`
	Styles []IntMap `json:"styles"`
	Events []Event  `json:"events"`
}

func (t *Truth) Norm() {
	if t.Info == nil {
		t.Info = IntMap{}
	}
	if t.Notes == nil {
		t.Notes = []int{}
	}
	if t.Styles == nil {
		t.Styles = []IntMap{}
	}
	if t.Events == nil {
		t.Events = []Event{}
	}
	for i := range t.Events {
		if t.Events[i].Cols == nil {
			t.Events[i].Cols = IntMap{}
		}
		if t.Events[i].Lines == nil {
			t.Events[i].Lines = [][]Run{}
		}
		for j := range t.Events[i].Lines {
			if t.Events[i].Lines[j] == nil {
				t.Events[i].Lines[j] = []Run{}
			}
		}
	}
}

type Tok struct {
	K     string   `json:"k"`
	Sec   string   `json:"sec"`
	Key   string   `json:"key"`
	Val   int      `json:"val"`
	A     int      `json:"a"`
	Cols  []string `json:"cols"`
	Vals  []int    `json:"vals"`
	Cat   string   `json:"cat"`
	S     int      `json:"s"`
	E     int      `json:"e"`
	Lines [][]Run  `json:"lines"`
}

type Doc struct {
	Eol   string `json:"eol"`
	Bom   bool   `json:"bom"`
	Plus  bool   `json:"plus"`
	Radix string `json:"radix"`
	Nl    string `json:"nl"`
	Star  bool   `json:"star"`
	Toks  []Tok  `json:"toks"`
}

func (d *Doc) Norm() {
	if d.Toks == nil {
		d.Toks = []Tok{}
	}
	for i := range d.Toks {
		t := &d.Toks[i]
		if t.Cols == nil {
			t.Cols = []string{}
		}
		if t.Vals == nil {
			t.Vals = []int{}
		}
		if t.Lines == nil {
			t.Lines = [][]Run{}
		}
		for j := range t.Lines {
			if t.Lines[j] == nil {
				t.Lines[j] = []Run{}
			}
		}
	}
}

// column types
var colType = map[string]string{
	"Name": "name", "Fontname": "font",
	"Fontsize": "float", "ScaleX": "float", "ScaleY": "float", "Spacing": "float", "Angle": "float", "Outline": "float", "Shadow": "float", "AlphaLevel": "float",
	"PrimaryColour": "colour", "SecondaryColour": "colour", "OutlineColour": "colour", "TertiaryColour": "colour", "BackColour": "colour",
	"Bold": "bool", "Italic": "bool", "Underline": "bool", "Strikeout": "bool",
	"BorderStyle": "int", "Alignment": "int", "MarginL": "int", "MarginR": "int", "MarginV": "int", "Encoding": "int",
}
var evType = map[string]string{"Layer": "int", "Marked": "marked", "Style": "style", "Name": "voice", "MarginL": "int", "MarginR": "int", "MarginV": "int", "Effect": "effect"}

// every script-info field the library carries (ScriptType is the document's plus flag)
var infoType = map[string]string{"Title": "title", "PlayResX": "int", "PlayResY": "int", "PlayDepth": "int", "Timer": "float", "Collisions": "coll",
	"WrapStyle": "wrap", "Original Script": "str", "Original Translation": "str", "Original Editing": "str", "Original Timing": "str",
	"Synch Point": "str", "Script Updated By": "str", "Update Details": "str"}

// Metadata field of a script-info key
var infoField = map[string]string{"Title": "Title", "PlayResX": "SSAPlayResX", "PlayResY": "SSAPlayResY", "PlayDepth": "SSAPlayDepth", "Timer": "SSATimer",
	"Collisions": "SSACollisions", "WrapStyle": "SSAWrapStyle", "Original Script": "SSAOriginalScript", "Original Translation": "SSAOriginalTranslation",
	"Original Editing": "SSAOriginalEditing", "Original Timing": "SSAOriginalTiming", "Synch Point": "SSASynchPoint",
	"Script Updated By": "SSAScriptUpdatedBy", "Update Details": "SSAUpdateDetails"}

var strs = map[int]string{1: "Someone, somewhere", 2: "another: value"}

var (
	names   = map[int]string{1: "Main", 2: "*Alt style", 3: "Third"} // a style may itself be defined under a name with an asterisk
	fonts   = map[int]string{1: "Arial", 2: "Comic Sans MS"}
	floats  = map[int]float64{1: 4, 2: 0.1, 3: 65536.123} // the third needs more than single precision at three decimals
	floatS  = map[int]string{1: "4", 2: "0.1", 3: "65536.123"}
	colours = map[int]astisub.Color{1: {Red: 0xFC, Green: 0xFC, Blue: 0xB4}, 2: {Red: 8, Alpha: 0x80}, 3: {Red: 255, Green: 255}}
	voices  = map[int]string{1: "Cher"}
	effects = map[int]string{1: "Scroll up;100;0"}
	titles  = map[int]string{1: "My title", 2: "Other: with colon"}
	colls   = map[int]string{1: "Normal", 2: "Reverse"}
	notes   = map[int]string{1: "first comment", 2: "second; comment: x", 3: "Data: 0,e,payload of an unknown section"}
	fxs     = map[int]string{1: `{\i1}`, 2: `{\pos(400,570)}`}
)
var textPools = []map[int]string{
	{0: "", 1: "Hello, world", 2: "second text", 3: "a:b;c, d"}, // atom 0: an override block with no text after it
	{0: "", 1: "ünï cödé, 日本語", 2: "x < y & z", 3: "\U0001F600 1,2,3"},
}

type Pool struct{ Text map[int]string }

func PoolFor(n int) Pool { return Pool{Text: textPools[((n%2)+2)%2]} }

func revS(m map[int]string, s string) int {
	for k, v := range m {
		if v == s {
			return k
		}
	}
	return -1
}

func colourInt(c astisub.Color) uint32 {
	return uint32(c.Alpha)<<24 | uint32(c.Blue)<<16 | uint32(c.Green)<<8 | uint32(c.Red)
}

// cell renders an atom of the given type.
func cell(typ string, v int, d Doc, p Pool) string {
	switch typ {
	case "name":
		return names[v]
	case "style":
		if v == 0 {
			return ""
		}
		if d.Star && !strings.HasPrefix(names[v], "*") {
			return "*" + names[v]
		}
		return names[v]
	case "font":
		return fonts[v]
	case "float":
		if v == 0 {
			return "0"
		}
		return floatS[v]
	case "colour":
		if v == 0 {
			return "0"
		}
		c := colourInt(colours[v])
		if d.Radix == "hex" {
			return fmt.Sprintf("&H%08X", c)
		}
		return strconv.Itoa(int(int32(c))) // decimal, as a signed 32 bit number like the samples
	case "bool":
		if v == 1 {
			return "-1"
		}
		return "0"
	case "int", "wrap":
		return strconv.Itoa(v)
	case "str":
		return strs[v]
	case "marked":
		return "Marked=" + strconv.Itoa(v)
	case "voice":
		if v == 0 {
			return ""
		}
		return voices[v]
	case "effect":
		if v == 0 {
			return ""
		}
		return effects[v]
	case "title":
		return titles[v]
	case "coll":
		return colls[v]
	}
	return ""
}

// parseCell maps a raw cell back to its atom (-1 when the string is not in the pool).
func parseCell(typ, s string) int {
	s = strings.TrimSpace(s)
	switch typ {
	case "name":
		return revS(names, s)
	case "style":
		if s == "" {
			return 0
		}
		if v := revS(names, s); v >= 0 {
			return v
		}
		return revS(names, strings.TrimPrefix(s, "*"))
	case "font":
		if s == "" {
			return 0
		}
		return revS(fonts, s)
	case "float":
		if s == "" {
			return 0
		}
		f, err := strconv.ParseFloat(strings.Replace(s, ",", ".", 1), 64) // the Timer field may use a decimal comma
		if err != nil {
			return -1
		}
		if f == 0 {
			return 0
		}
		for k, v := range floats {
			if v == f {
				return k
			}
		}
		return -1
	case "colour":
		if s == "" {
			return 0
		}
		var u uint32
		if strings.HasPrefix(s, "&H") {
			x, err := strconv.ParseUint(s[2:], 16, 32)
			if err != nil {
				return -1
			}
			u = uint32(x)
		} else {
			x, err := strconv.ParseInt(s, 10, 64)
			if err != nil {
				return -1
			}
			u = uint32(x)
		}
		if u == 0 {
			return 0
		}
		for k, c := range colours {
			if colourInt(c) == u {
				return k
			}
		}
		return -1
	case "bool":
		// SSA: -1 is true, 0 false; any non-zero value is taken as true by players
		if s == "" || s == "0" {
			return 0
		}
		return 1
	case "int":
		if s == "" {
			return 0
		}
		v, err := strconv.Atoi(s)
		if err != nil {
			return -1
		}
		return v
	case "marked":
		if s == "Marked=1" {
			return 1
		}
		return 0
	case "voice":
		if s == "" {
			return 0
		}
		return revS(voices, s)
	case "effect":
		if s == "" {
			return 0
		}
		return revS(effects, s)
	case "title":
		return revS(titles, s)
	case "coll":
		return revS(colls, s)
	case "str":
		return revS(strs, s)
	case "wrap":
		v, err := strconv.Atoi(s)
		if err != nil {
			return -1
		}
		return v
	}
	return -1
}

func fmtCs(cs int, hh bool) string {
	if hh {
		return fmt.Sprintf("%02d:%02d:%02d.%02d", cs/360000, cs/6000%60, cs/100%60, cs%100)
	}
	return fmt.Sprintf("%d:%02d:%02d.%02d", cs/360000, cs/6000%60, cs/100%60, cs%100)
}

func textOf(lines [][]Run, nl string, p Pool) string {
	var ls []string
	for _, l := range lines {
		var b strings.Builder
		for _, r := range l {
			if r.Fx != 0 {
				b.WriteString(fxs[r.Fx])
			}
			b.WriteString(p.Text[r.A])
		}
		ls = append(ls, b.String())
	}
	if nl == "mix" {
		// both spellings of the line break inside one event
		out := ""
		for i, l := range ls {
			if i > 0 {
				out += []string{`\N`, `\n`}[i%2]
			}
			out += l
		}
		return out
	}
	return strings.Join(ls, `\`+nl)
}

// Concretise renders a token document as bytes. n selects spelling variants (section names, hour digits).
func Concretise(d Doc, p Pool, n int) []byte {
	eol := map[string]string{"lf": "\n", "crlf": "\r\n", "cr": "\r"}[d.Eol]
	var b bytes.Buffer
	if d.Bom {
		b.Write([]byte{0xEF, 0xBB, 0xBF})
	}
	sec := ""
	var format []string
	for _, t := range d.Toks {
		switch t.K {
		case "section":
			sec = t.Sec
			switch t.Sec {
			case "info":
				b.WriteString("[Script Info]" + eol)
				if d.Plus {
					b.WriteString("ScriptType: v4.00+")
				} else {
					b.WriteString("ScriptType: v4.00")
				}
			case "styles":
				v := []string{"[V4 Styles]", "[v4 styles]", "[V4 STYLES]"}
				if d.Plus {
					v = []string{"[V4+ Styles]", "[v4 styles+]", "[V4+ STYLES]"}
				}
				b.WriteString(v[n%3])
			case "events":
				b.WriteString([]string{"[Events]", "[events]"}[n%2])
			default:
				b.WriteString("[Fonts]")
			}
		case "info":
			b.WriteString(t.Key + ": " + cell(infoType[t.Key], t.Val, d, p))
		case "note":
			b.WriteString("; " + notes[t.A])
		case "junk":
			b.WriteString("Not understood line")
		case "blank":
		case "format":
			format = t.Cols
			b.WriteString("Format: " + strings.Join(t.Cols, ", "))
		case "style":
			var cs []string
			for i, v := range t.Vals {
				cs = append(cs, cell(colType[format[i]], v, d, p))
			}
			b.WriteString("Style: " + strings.Join(cs, ","))
		case "event":
			var cs []string
			for i, v := range t.Vals {
				switch format[i] {
				case "Start":
					cs = append(cs, fmtCs(t.S, n%2 == 1))
				case "End":
					cs = append(cs, fmtCs(t.E, n%2 == 1))
				case "Text":
					cs = append(cs, textOf(t.Lines, d.Nl, p))
				default:
					c := cell(evType[format[i]], v, d, p)
					if evType[format[i]] == "int" && n%3 == 2 && v >= 0 {
						c = fmt.Sprintf("%04d", v) // margins and layers are commonly padded with zeros: 0010 is ten
					}
					cs = append(cs, c)
				}
			}
			b.WriteString(t.Cat + ": " + strings.Join(cs, ","))
		}
		_ = sec
		b.WriteString(eol)
	}
	return b.Bytes()
}

var (
	reCs  = regexp.MustCompile(`^(\d+):(\d\d):(\d\d)\.(\d\d)$`)
	reFx  = regexp.MustCompile(`\{[^{}]*\}`)
	reSec = regexp.MustCompile(`^\[(.*)\]$`)
)

func parseText(s string, p Pool) [][]Run {
	s = strings.ReplaceAll(s, `\N`, `\n`)
	out := [][]Run{}
	for _, l := range strings.Split(s, `\n`) {
		l = strings.TrimSpace(l)
		runs := []Run{}
		idx := reFx.FindAllStringIndex(l, -1)
		if len(idx) == 0 {
			runs = append(runs, Run{A: revS(p.Text, l)})
		} else {
			if idx[0][0] > 0 {
				runs = append(runs, Run{A: revS(p.Text, l[:idx[0][0]])})
			}
			for i, m := range idx {
				end := len(l)
				if i+1 < len(idx) {
					end = idx[i+1][0]
				}
				runs = append(runs, Run{A: revS(p.Text, l[m[1]:end]), Fx: revS(fxs, l[m[0]:m[1]])})
			}
		}
		out = append(out, runs)
	}
	return out
}

// Lex is the independent SSA lexer.
func Lex(b []byte, p Pool) Doc {
	d := Doc{Eol: "lf", Radix: "hex", Nl: "n", Toks: []Tok{}}
	if bytes.HasPrefix(b, []byte{0xEF, 0xBB, 0xBF}) {
		d.Bom = true
		b = b[3:]
	}
	s := strings.ReplaceAll(string(b), "\r\n", "\n")
	s = strings.ReplaceAll(s, "\r", "\n")
	sec := ""
	var format []string
	for _, l := range strings.Split(s, "\n") {
		l = strings.TrimSpace(l)
		t := Tok{}
		switch {
		case l == "":
			t.K = "blank"
		case reSec.MatchString(l):
			t.K = "section"
			switch strings.ToLower(reSec.FindStringSubmatch(l)[1]) {
			case "script info":
				sec = "info"
			case "v4 styles", "v4+ styles", "v4 styles+":
				sec = "styles"
			case "events":
				sec = "events"
			default:
				sec = "unknown"
			}
			t.Sec = sec
			format = nil
		case strings.HasPrefix(l, ";"):
			t.K, t.A = "note", revS(notes, strings.TrimSpace(l[1:]))
		case !strings.Contains(l, ":"):
			t.K = "junk"
		default:
			i := strings.Index(l, ":")
			head, content := strings.TrimSpace(l[:i]), strings.TrimSpace(l[i+1:])
			switch {
			case sec == "info":
				if head == "ScriptType" {
					d.Plus = content == "v4.00+"
					continue
				}
				typ, ok := infoType[head]
				if !ok {
					t.K = "junk"
					break
				}
				t.K, t.Key, t.Val = "info", head, parseCell(typ, content)
			case head == "Format":
				t.K = "format"
				for _, c := range strings.Split(content, ",") {
					t.Cols = append(t.Cols, strings.TrimSpace(c))
				}
				format = t.Cols
			case sec == "styles" && head == "Style":
				t.K = "style"
				cells := strings.Split(content, ",")
				for i, c := range cells {
					if i >= len(format) {
						t.Vals = append(t.Vals, -3)
						continue
					}
					t.Vals = append(t.Vals, parseCell(colType[format[i]], c))
				}
			case sec == "events":
				t.K, t.Cat = "event", head
				cells := strings.SplitN(content, ",", len(format))
				for i, c := range cells {
					switch format[i] {
					case "Start", "End":
						v := -1
						if m := reCs.FindStringSubmatch(strings.TrimSpace(c)); m != nil {
							a := func(x string) int { y, _ := strconv.Atoi(x); return y }
							v = ((a(m[1])*60+a(m[2]))*60+a(m[3]))*100 + a(m[4])
						}
						if format[i] == "Start" {
							t.S = v
						} else {
							t.E = v
						}
						t.Vals = append(t.Vals, 0)
					case "Text":
						t.Lines = parseText(c, p)
						t.Vals = append(t.Vals, 0)
					default:
						t.Vals = append(t.Vals, parseCell(evType[format[i]], c))
					}
				}
			default:
				t.K = "junk"
			}
		}
		d.Toks = append(d.Toks, t)
	}
	// the final line terminator does not start a line
	if n := len(d.Toks); n > 0 && d.Toks[n-1].K == "blank" {
		d.Toks = d.Toks[:n-1]
	}
	return d
}

func ip(v int) *int         { return &v }
func bp(v bool) *bool       { return &v }
func fp(v float64) *float64 { return &v }

// Build creates the library value of a truth.
func Build(g Truth, p Pool) *astisub.Subtitles {
	s := astisub.NewSubtitles()
	m := &astisub.Metadata{SSAScriptType: "v4.00"}
	if g.Plus {
		m.SSAScriptType = "v4.00+"
	}
	for k, v := range g.Info {
		f := reflect.ValueOf(m).Elem().FieldByName(infoField[k])
		switch infoType[k] {
		case "title":
			f.SetString(titles[v])
		case "int":
			f.Set(reflect.ValueOf(ip(v)))
		case "float":
			f.Set(reflect.ValueOf(fp(floats[v])))
		case "coll":
			f.SetString(colls[v])
		case "str":
			f.SetString(strs[v])
		case "wrap":
			f.SetString(strconv.Itoa(v))
		}
	}
	for _, n := range g.Notes {
		m.Comments = append(m.Comments, notes[n])
	}
	s.Metadata = m
	for _, st := range g.Styles {
		sa := &astisub.StyleAttributes{}
		id := names[st["Name"]]
		for c, v := range st {
			col := func() *astisub.Color {
				if v == 0 {
					return nil
				}
				x := colours[v]
				return &x
			}
			switch c {
			case "Fontname":
				sa.SSAFontName = fonts[v]
			case "Fontsize":
				sa.SSAFontSize = fp(floats[v])
			case "ScaleX":
				sa.SSAScaleX = fp(floats[v])
			case "ScaleY":
				sa.SSAScaleY = fp(floats[v])
			case "Spacing":
				sa.SSASpacing = fp(floats[v])
			case "Angle":
				sa.SSAAngle = fp(floats[v])
			case "Outline":
				sa.SSAOutline = fp(floats[v])
			case "Shadow":
				sa.SSAShadow = fp(floats[v])
			case "AlphaLevel":
				sa.SSAAlphaLevel = fp(floats[v])
			case "PrimaryColour":
				sa.SSAPrimaryColour = col()
			case "SecondaryColour":
				sa.SSASecondaryColour = col()
			case "OutlineColour":
				sa.SSAOutlineColour = col()
			case "BackColour":
				sa.SSABackColour = col()
			case "Bold":
				sa.SSABold = bp(v == 1)
			case "Italic":
				sa.SSAItalic = bp(v == 1)
			case "Underline":
				sa.SSAUnderline = bp(v == 1)
			case "Strikeout":
				sa.SSAStrikeout = bp(v == 1)
			case "BorderStyle":
				sa.SSABorderStyle = ip(v)
			case "Alignment":
				sa.SSAAlignment = ip(v)
			case "MarginL":
				sa.SSAMarginLeft = ip(v)
			case "MarginR":
				sa.SSAMarginRight = ip(v)
			case "MarginV":
				sa.SSAMarginVertical = ip(v)
			case "Encoding":
				sa.SSAEncoding = ip(v)
			}
		}
		s.Styles[id] = &astisub.Style{ID: id, InlineStyle: sa}
	}
	for _, e := range g.Events {
		it := &astisub.Item{StartAt: time.Duration(e.S) * 10 * time.Millisecond, EndAt: time.Duration(e.E) * 10 * time.Millisecond}
		sa := &astisub.StyleAttributes{}
		voice := ""
		for c, v := range e.Cols {
			switch c {
			case "Layer":
				sa.SSALayer = ip(v)
			case "Marked":
				sa.SSAMarked = bp(v == 1)
			case "Style":
				if v != 0 {
					it.Style = s.Styles[names[v]]
				}
			case "Name":
				if v != 0 {
					voice = voices[v]
				}
			case "MarginL":
				sa.SSAMarginLeft = ip(v)
			case "MarginR":
				sa.SSAMarginRight = ip(v)
			case "MarginV":
				sa.SSAMarginVertical = ip(v)
			case "Effect":
				if v != 0 {
					sa.SSAEffect = effects[v]
				}
			}
		}
		it.InlineStyle = sa
		for _, l := range e.Lines {
			line := astisub.Line{VoiceName: voice}
			for _, r := range l {
				li := astisub.LineItem{Text: p.Text[r.A]}
				if r.Fx != 0 {
					li.InlineStyle = &astisub.StyleAttributes{SSAEffect: fxs[r.Fx]}
				}
				line.Items = append(line.Items, li)
			}
			it.Lines = append(it.Lines, line)
		}
		s.Items = append(s.Items, it)
	}
	return s
}

func revF(f *float64) int {
	if f == nil || *f == 0 {
		return 0
	}
	for k, v := range floats {
		if v == *f {
			return k
		}
	}
	return -1
}

func revC(c *astisub.Color) int {
	if c == nil || colourInt(*c) == 0 {
		return 0
	}
	for k, v := range colours {
		if v == *c {
			return k
		}
	}
	return -1
}

func b2i(b *bool) int {
	if b != nil && *b {
		return 1
	}
	return 0
}

func setNZ(m IntMap, k string, v int) {
	if v != 0 {
		m[k] = v
	}
}

// Project maps the library's value onto the truth model (absent cells are omitted; SameRow treats them as 0).
func Project(s *astisub.Subtitles, p Pool) Truth {
	var g Truth
	g.Norm()
	if s == nil {
		return g
	}
	if m := s.Metadata; m != nil {
		g.Plus = m.SSAScriptType == "v4.00+"
		for k, typ := range infoType {
			f := reflect.ValueOf(m).Elem().FieldByName(infoField[k])
			switch typ {
			case "title", "coll", "str":
				if f.String() != "" {
					g.Info[k] = revS(map[string]map[int]string{"title": titles, "coll": colls, "str": strs}[typ], f.String())
				}
			case "wrap":
				if f.String() != "" {
					v, err := strconv.Atoi(f.String())
					if err != nil {
						v = -1
					}
					setNZ(g.Info, k, v)
				}
			case "int":
				if !f.IsNil() {
					setNZ(g.Info, k, int(f.Elem().Int()))
				}
			case "float":
				setNZ(g.Info, k, revF(m.SSATimer))
			}
		}
		for _, c := range m.Comments {
			g.Notes = append(g.Notes, revS(notes, c))
		}
	}
	var ids []string
	for id := range s.Styles {
		ids = append(ids, id)
	}
	sort.Slice(ids, func(i, j int) bool { return revS(names, ids[i]) < revS(names, ids[j]) })
	for _, id := range ids {
		st := s.Styles[id]
		f := IntMap{"Name": revS(names, st.ID)}
		if sa := st.InlineStyle; sa != nil {
			if sa.SSAFontName != "" {
				f["Fontname"] = revS(fonts, sa.SSAFontName)
			}
			setNZ(f, "Fontsize", revF(sa.SSAFontSize))
			setNZ(f, "ScaleX", revF(sa.SSAScaleX))
			setNZ(f, "ScaleY", revF(sa.SSAScaleY))
			setNZ(f, "Spacing", revF(sa.SSASpacing))
			setNZ(f, "Angle", revF(sa.SSAAngle))
			setNZ(f, "Outline", revF(sa.SSAOutline))
			setNZ(f, "Shadow", revF(sa.SSAShadow))
			setNZ(f, "AlphaLevel", revF(sa.SSAAlphaLevel))
			setNZ(f, "PrimaryColour", revC(sa.SSAPrimaryColour))
			setNZ(f, "SecondaryColour", revC(sa.SSASecondaryColour))
			setNZ(f, "OutlineColour", revC(sa.SSAOutlineColour))
			setNZ(f, "BackColour", revC(sa.SSABackColour))
			setNZ(f, "Bold", b2i(sa.SSABold))
			setNZ(f, "Italic", b2i(sa.SSAItalic))
			setNZ(f, "Underline", b2i(sa.SSAUnderline))
			setNZ(f, "Strikeout", b2i(sa.SSAStrikeout))
			for k, v := range map[string]*int{"BorderStyle": sa.SSABorderStyle, "Alignment": sa.SSAAlignment, "MarginL": sa.SSAMarginLeft,
				"MarginR": sa.SSAMarginRight, "MarginV": sa.SSAMarginVertical, "Encoding": sa.SSAEncoding} {
				if v != nil {
					setNZ(f, k, *v)
				}
			}
		}
		g.Styles = append(g.Styles, f)
	}
	for _, it := range s.Items {
		e := Event{Cols: IntMap{}, Lines: [][]Run{}}
		e.S, e.E = csOf(it.StartAt), csOf(it.EndAt)
		if it.Style != nil {
			e.Cols["Style"] = revS(names, it.Style.ID)
		}
		if sa := it.InlineStyle; sa != nil {
			if sa.SSALayer != nil {
				setNZ(e.Cols, "Layer", *sa.SSALayer)
			}
			setNZ(e.Cols, "Marked", b2i(sa.SSAMarked))
			for k, v := range map[string]*int{"MarginL": sa.SSAMarginLeft, "MarginR": sa.SSAMarginRight, "MarginV": sa.SSAMarginVertical} {
				if v != nil {
					setNZ(e.Cols, k, *v)
				}
			}
			if sa.SSAEffect != "" {
				e.Cols["Effect"] = revS(effects, sa.SSAEffect)
			}
		}
		for i, l := range it.Lines {
			if i == 0 && l.VoiceName != "" {
				e.Cols["Name"] = revS(voices, l.VoiceName)
			}
			runs := []Run{}
			for _, li := range l.Items {
				r := Run{A: revS(p.Text, li.Text)}
				if li.InlineStyle != nil && li.InlineStyle.SSAEffect != "" {
					r.Fx = revS(fxs, li.InlineStyle.SSAEffect)
				}
				runs = append(runs, r)
			}
			e.Lines = append(e.Lines, runs)
		}
		g.Events = append(g.Events, e)
	}
	return g
}

func csOf(d time.Duration) int {
	if d%(10*time.Millisecond) != 0 || d < 0 {
		return -1
	}
	return int(d / (10 * time.Millisecond))
}
