// Package run executes a call of the real code under recover() and a watchdog.
package run

import (
	"fmt"
	"runtime/debug"
	"time"
)

// Guard runs f and reports "ok", "panic" (with message) or "timeout".
// A timed-out call keeps running in its goroutine; callers treat the result as final.
func Guard(budget time.Duration, f func()) (res string, msg string) {
	done := make(chan struct{})
	go func() {
		defer func() {
			if r := recover(); r != nil {
				res = "panic"
				msg = fmt.Sprintf("%v\n%s", r, firstLines(string(debug.Stack()), 14))
			}
			close(done)
		}()
		f()
	}()
	select {
	case <-done:
		if res == "" {
			res = "ok"
		}
		return
	case <-time.After(budget):
		return "timeout", "watchdog"
	}
}

func firstLines(s string, n int) string {
	c := 0
	for i := range s {
		if s[i] == '\n' {
			c++
			if c == n {
				return s[:i]
			}
		}
	}
	return s
}
