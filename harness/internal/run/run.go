// Package run executes a call of the real code under recover() and a watchdog.
package run

import (
	"fmt"
	"runtime/debug"
	"sync/atomic"
	"time"
)

// Guard runs f and reports "ok", "panic" (with message) or "timeout".
// A timed-out call keeps running in its goroutine; callers treat the result as final.
func Guard(budget time.Duration, f func()) (res string, msg string) {
	done := make(chan struct{})
	go func() {
		defer func() {
			if r := recover(); r != nil {
				res = "panic"
				msg = fmt.Sprintf("%v\n%s", r, firstLines(string(debug.Stack()), 14))
			}
			close(done)
		}()
		f()
	}()
	select {
	case <-done:
		if res == "" {
			res = "ok"
		}
		return
	case <-time.After(budget):
	}
	// The budget is generous for the code under test but the machine may be loaded (16 JVMs next door): before a
	// call is declared hung it gets a grace period of five more budgets. Only the first few hangs of a process
	// pay for it - once a hang is established the remaining calls are cut at the plain budget.
	if atomic.LoadInt32(&hangs) < 3 {
		select {
		case <-done:
			if res == "" {
				res = "ok"
			}
			return
		case <-time.After(5 * budget):
		}
	}
	atomic.AddInt32(&hangs, 1)
	return "timeout", "watchdog"
}

var hangs int32

func firstLines(s string, n int) string {
	c := 0
	for i := range s {
		if s[i] == '\n' {
			c++
			if c == n {
				return s[:i]
			}
		}
	}
	return s
}
