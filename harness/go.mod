module verif/harness

go 1.16

require (
	golang.org/x/text v0.3.2
	github.com/asticode/go-astikit v0.20.0
	github.com/asticode/go-astisub v0.0.0
	github.com/asticode/go-astits v1.8.0
)

replace github.com/asticode/go-astisub => /repo
