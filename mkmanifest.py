#!/usr/bin/env python3
"""Regenerates MANIFEST.json from the table below (keeps it valid at all times)."""
import json, os, subprocess
V = os.path.dirname(os.path.abspath(__file__))
BASE_OFF = "cd /repo && GOFLAGS=-mod=mod GOPROXY=off GOSUMDB=off GOTOOLCHAIN=local go test -json -vet=off -count=1 -timeout 25m ./..."

TB_COMMON = ("Trusted: TLC/SANY and the TLA+ CommunityModules, the Go toolchain, the harness's builders/projections "
             "(no expected values in Go), the normative operators of the spec (their laws are model-checked on every run).")

CHECKS = {
 "C09": ("spec/Ops.tla Add + laws (AddInverse, AddKeepsOrder) model-checked by TLC over histories of all operations; TLC enumerates every list<=3 cues on a grid x every shift; each case and a seeded ms-granular random driver are replayed on Subtitles.Add and every recorded call is validated by TLC (TraceOps) against the normative relation, step by step for the add(d);add(-d) histories.",
         "TLA+ spec + TLC enumeration, replay on real code, TLC trace validation", "6 (C09)"),
 "C10": ("FragmentOK (start-sorted bag of per-cue pieces) with laws NoCueContainsMultiple / TimelinePreserved model-checked; TLC enumerates all start-ordered lists (overlap, nesting, duplicates) x f; replay on Subtitles.Fragment + random driver; TLC validates each call.",
         "TLA+ spec + TLC enumeration, replay on real code, TLC trace validation", "6 (C10)"),
 "C11": ("UnfragmentOK (connected components of same-text touching intervals) with laws model-checked incl. Unfragment(Fragment(S)) = S; TLC enumerates all lists x texts and all Fragment;Unfragment histories; replay + TLC trace validation from the observed states.",
         "TLA+ spec + TLC enumeration, replay on real code, TLC trace validation", "6 (C11)"),
 "C12": ("Order = stable sort, MergeOK = ordered union keyed by identifier (receiver wins, argument unchanged, nil-map receivers); TLC enumerates all pairs of lists and maps over small constants; replay on Order/Merge + random driver; TLC validates each call incl. pointer identities.",
         "TLA+ spec + TLC enumeration, replay on real code, TLC trace validation", "6 (C12)"),
 "C13": ("Optimize = restriction to the least fixed point Reach (cue, run, region, inheritance), idempotence / AllRefsResolve model-checked; TLC enumerates every reference graph over <=3 styles and regions; replay on Optimize / RemoveStyling + random graphs; TLC validates each call.",
         "TLA+ spec + TLC enumeration, replay on real code, TLC trace validation", "6 (C13)"),
 "C14": ("ForceDuration operator with the statement's preconditions, laws model-checked; TLC enumerates all well-formed timelines x d x filler; replay + random driver; TLC validates each call.",
         "TLA+ spec + TLC enumeration, replay on real code, TLC trace validation", "6 (C14)"),
 "C15": ("LinearOK in exact BigInt arithmetic (cross-multiplied affine relation, 1000 ns band, order kept for positive slope, lengths scaled, content untouched); BigInt.tla itself model-checked against native integers and the relation against exact integer maps; TLC enumerates quadruples x cues on a grid replayed at 5 unit scales, plus a seeded ns-resolution driver with the NTSC/PAL slopes; every recorded call of ApplyLinearCorrection is validated by TLC.",
         "TLA+ spec (BigInt) + TLC enumeration, replay on real code, TLC trace validation", "6 (C15)"),
}
LEVEL = {}
NOT_YET = {}
ALL = ["C%02d" % i for i in range(1, 21)]

def main():
    hooks = []
    try:
        out = subprocess.run(["git", "-C", "/repo", "log", "--format=%h %s"], stdout=subprocess.PIPE, text=True).stdout
        hooks = [l.split()[0] for l in out.splitlines() if l.split(" ", 1)[1].startswith("verif:")]
    except Exception:
        pass
    m = {
        "version": 1,
        "setup_cmd": "cd /verif && ./setup.sh",
        "hooks": {"guard": "verif", "enable": "go build -tags verif (the harness module builds /repo's working tree through a replace directive)",
                  "baseline_off_cmd": BASE_OFF, "source_commits": hooks, "add_only": True},
        "engines": [
            {"name": "tla-spec", "path": "spec", "serves_properties": sorted(CHECKS), "kind_free_text": "TLA+ specification (normative + implementation layers), MC/Gen/Trace configs, checked with TLC 1.8"},
            {"name": "harness", "path": "harness", "serves_properties": sorted(CHECKS), "kind_free_text": "Go conformance harness: replays TLC-generated cases on the real code and records traces for TLC"},
        ],
        "checks": [],
        "not_applicable": [],
        "notes": "See DESIGN.md. ./check <id> --tier quick|thorough; VERIF_SEED seeds TLC and the Go drivers.",
    }
    for pid in ALL:
        if pid in CHECKS:
            text, tech, ref = CHECKS[pid]
            m["checks"].append({
                "property_id": pid,
                "quick_cmd": "./check %s --tier quick" % pid,
                "thorough_cmd": "./check %s --tier thorough" % pid,
                "evidence_file": "/verif/evidence/%s.json" % pid,
                "replay_cmd_template": "./check %s --replay {path}" % pid,
                "engine": "tla-spec",
                "level_claimed": {"category": LEVEL.get(pid, "model_checking"), "text": text, "design_ref": ref},
                "level_note": TB_COMMON,
                "technique": tech,
            })
        else:
            m["not_applicable"].append({"property_id": pid, "reason": NOT_YET.get(pid, "check not built yet in this commit (work in progress, see DESIGN.md section 8); nothing is claimed for it")})
    json.dump(m, open(os.path.join(V, "MANIFEST.json"), "w"), indent=1)

if __name__ == "__main__":
    main()
