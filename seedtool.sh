#!/bin/bash
# seedtool.sh confirm <worktree> <seed-id> <property>   : confirm a sub-agent's seeded change in its scratch worktree and
#                                                         store it as /verif/seeded/<seed-id>/ (patch.diff, demo, meta.json)
# seedtool.sh run <seed-id> [check ids...]              : apply the seeded change to /repo, run the quick checks, undo
export GOFLAGS=-mod=mod GOPROXY=off GOSUMDB=off GOTOOLCHAIN=local
set -u
cmd=$1; shift
case $cmd in
confirm)
  wt=$1; id=$2; prop=$3; sd=${4:-seed}
  cd "$wt" || exit 2
  git checkout -q -- . ; rm -f seed_demo_test.go
  cp $sd/seed_demo_test.go . || exit 2
  go test -count=1 -run TestSeedDemo . >/tmp/seed_$$.log 2>&1; clean_demo=$?
  git apply $sd/patch.diff || { echo "patch does not apply"; exit 1; }
  go test -count=1 -run TestSeedDemo . >/tmp/seed_$$.log2 2>&1; seeded_demo=$?
  mv seed_demo_test.go /tmp/seed_demo_$$.go
  go build . ./astisub && go build -tags verif . && go test -count=1 . ./astisub >/tmp/seed_$$.log3 2>&1; suite=$?
  echo "demo on clean tree rc=$clean_demo (want 0); demo on seeded tree rc=$seeded_demo (want !=0); suite on seeded tree rc=$suite (want 0)"
  if [ $clean_demo -eq 0 ] && [ $seeded_demo -ne 0 ] && [ $suite -eq 0 ]; then
    mkdir -p /verif/seeded/$id
    cp $sd/patch.diff /verif/seeded/$id/patch.diff
    cp /tmp/seed_demo_$$.go /verif/seeded/$id/seed_demo_test.go
    python3 - "$id" "$prop" <<PY
import json,sys
m=json.load(open('$sd/meta.json'))
m['property']=sys.argv[2]
m['confirmed_by_me']={'demo_passes_on_clean_tree':True,'demo_fails_on_seeded_tree':True,'existing_suite_passes_on_seeded_tree':True,
  'how':'seedtool.sh confirm: git checkout -- . ; go test -run TestSeedDemo (pass); git apply patch.diff; go test -run TestSeedDemo (fail); go test ./... without the demo (pass); also builds with -tags verif'}
json.dump(m,open('/verif/seeded/%s/meta.json'%sys.argv[1],'w'),indent=1)
PY
    echo "CONFIRMED -> /verif/seeded/$id"
  else
    echo "NOT CONFIRMED"; for f in /tmp/seed_$$.log /tmp/seed_$$.log2 /tmp/seed_$$.log3; do tail -n 5 $f; done
  fi
  rm -f /tmp/seed_$$.* /tmp/seed_demo_$$.go
  ;;
run)
  id=$1; shift
  cd /repo || exit 2
  if ! git diff --quiet; then echo "/repo has uncommitted changes"; exit 2; fi
  git apply /verif/seeded/$id/patch.diff || exit 2
  cd /verif
  for c in "$@"; do
    out=$(./check $c --tier quick 2>&1); rc=$?
    echo "seed=$id check=$c rc=$rc $(echo "$out" | grep -c '^VIOLATION') violation lines; $(echo "$out" | grep -m1 'violating events\|^OK\|INFRA')"
  done
  git -C /repo checkout -- .
  git -C /verif checkout -- evidence 2>/dev/null
  ;;
runcopy)
  # like run, but on a scratch worktree (VERIF_REPO) so that /repo is left alone while other checks use it
  id=$1; shift
  wt=/tmp/seedrun_$$
  git -C /repo worktree add --detach $wt HEAD >/dev/null 2>&1 || exit 2
  git -C $wt apply /verif/seeded/$id/patch.diff || { git -C /repo worktree remove --force $wt; exit 2; }
  cd /verif
  for c in "$@"; do
    out=$(VERIF_REPO=$wt VERIF_EVIDENCE_DIR=/tmp/seedrun_ev_$$ ./check $c --tier quick 2>&1); rc=$?
    echo "seed=$id check=$c rc=$rc $(echo "$out" | grep -c '^VIOLATION') violation lines; $(echo "$out" | grep -m1 'violating events\|^OK\|INFRA')"
  done
  git -C /repo worktree remove --force $wt
  rm -rf /tmp/seedrun_ev_$$
  ;;
esac
