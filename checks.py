"""Per-property checks. Every check follows vlib's pipeline; verdicts come from TLC trace validation."""
import hashlib, json, os, shutil, time
import vlib
from vlib import Infra, log, tlc, require_ok, pmap

REGISTRY = {}


def register(*ids):
    def deco(fn):
        for i in ids:
            REGISTRY[i] = fn
        return fn
    return deco


class Report:
    """Collects what a run covered and what it found."""

    def __init__(self, pid, tier, seed, level="model_checking"):
        self.pid, self.tier, self.seed, self.level = pid, tier, seed, level
        self.t0 = time.time()
        self.states = 0
        self.transitions = 0
        self.mc = []
        self.events = 0
        self.cases = 0
        self.nontrivial = set()
        self.samples = []
        self.bad = []       # (reason, replay-object)
        self.kf = {}        # finding id -> count
        self.rule = ""
        self.assumptions = []
        self.extra = {}
        self.exhaustive = False

    def add_mc(self, name, r):
        self.states += r.distinct
        self.transitions += r.generated
        self.mc.append({"config": name, "distinct_states": r.distinct, "states_generated": r.generated})

    def finish(self):
        findings = {f["id"]: f for f in vlib.load_findings()}
        violations = 0
        lines = []
        # kf verdicts are only honoured for findings listed as open in known_findings.json
        for fid, info in sorted(self.kf.items()):
            f = findings.get(fid)
            if f and f.get("status") == "open" and f.get("property") == self.pid:
                lines.append("KNOWN-FINDING: property=%s %s: %s (%d events)" % (self.pid, fid, f.get("what", ""), info["count"]))
            else:
                self.bad.append(("unlisted-deviation:" + fid, info["replay"]))
        if REPLAY is not None:
            # --replay: the check is re-executed as a whole (generation and drivers are seeded, so the recorded case
            # recurs) and only the recorded case decides the exit status
            want = _replay_key(REPLAY.get("case"))
            hit = [(r, o) for r, o in self.bad if _replay_key(o) == want]
            print("REPLAY property=%s case %s: %s" % (self.pid, REPLAY.get("reason"), "reproduced on the real code" if hit else "not reproduced"), flush=True)
            self.bad = hit
            lines = []
        seen = 0
        for reason, obj in self.bad:
            violations += 1
            if seen < 5:
                p = vlib.save_replay(self.pid, "%d" % seen, {"property": self.pid, "reason": reason, "case": obj})
                lines.append("VIOLATION property=%s replay=%s" % (self.pid, p))
                log("violation:", reason, json.dumps(obj)[:600])
            seen += 1
        cov = {
            "evaluations": self.cases,
            "distinct_nontrivial": len(self.nontrivial),
            "rule": self.rule,
            "samples": self.samples[:6],
            "states": self.states,
            "transitions": self.transitions,
            "traces_validated_against_impl": self.events,
            "model_checking_runs": self.mc,
            "exhaustive": self.exhaustive,
            "known_findings_seen": {k: v["count"] for k, v in self.kf.items()},
        }
        cov.update(self.extra)
        vlib.write_evidence(self.pid, self.tier, self.seed, self.level, cov, time.time() - self.t0, violations, self.assumptions)
        for l in lines:
            print(l, flush=True)
        if violations:
            print("%s: %d violating events (first %d shown)" % (self.pid, violations, min(5, violations)), flush=True)
            return 1
        if self.events == 0:
            raise Infra("vacuous run: no event validated")
        print("OK property=%s tier=%s events=%d cases=%d nontrivial=%d states=%d" % (
            self.pid, self.tier, self.events, self.cases, len(self.nontrivial), self.states), flush=True)
        return 0


REPLAY = None   # set by ./check --replay <file>


def _replay_key(ev):
    if isinstance(ev, dict):
        return json.dumps({k: v for k, v in ev.items() if k not in ("msg", "raw")}, sort_keys=True)
    return json.dumps(ev, sort_keys=True)


def digest(obj):
    return hashlib.sha1(json.dumps(obj, sort_keys=True).encode()).hexdigest()[:16]



def validate(ex, scratch, traces, module, cfg, per_jvm=1500, heap="2g", extra_env=None, splitter=None):
    """(d): split every trace at history boundaries and validate the pieces with TLC in parallel."""
    pieces = []
    for tr in traces:
        n = vlib.count_lines(tr)
        if n == 0:
            continue
        k = max(1, min(vlib.NCPU, n // per_jvm))
        pieces += vlib.split_trace(tr, k, scratch, os.path.basename(tr)[:-7])

    def run_val(piece):
        path, _ = piece
        env = {"TRACE": path}
        env.update(extra_env or {})
        r = tlc(scratch, module, cfg, env=env, workers=1, timeout=3000, heap=heap)
        require_ok(r, "trace validation of %s" % path)
        return (path, r)

    t1 = time.time()
    vals = list(ex.map(run_val, pieces))
    log("validation of %d trace files by %s done in %.1fs" % (len(pieces), module, time.time() - t1))
    if SELFTEST is not None:
        corruption_selftest(scratch, module, cfg, vals, heap, extra_env)
    return vals


# ------------------------------------------------------------------------------------------------
# binding self-test: a recorded, accepted trace with ONE observed field corrupted must be rejected at that event
# ------------------------------------------------------------------------------------------------

SELFTEST = None   # {"results": [...]} while ./check selftest runs


def _bump_first_int(x):
    """Adds 1 to the first integer leaf (depth-first, keys sorted); returns True if one was found."""
    if isinstance(x, list):
        for i, v in enumerate(x):
            if isinstance(v, bool):
                continue
            if isinstance(v, int):
                x[i] = v + 1
                return True
            if _bump_first_int(v):
                return True
    elif isinstance(x, dict):
        for k in sorted(x):
            v = x[k]
            if isinstance(v, bool):
                continue
            if isinstance(v, int):
                x[k] = v + 1
                return True
            if _bump_first_int(v):
                return True
    return False


def _corrupt(module, evs, i):
    """Returns (description, corrupted copy of evs[i]) or None when event i is no candidate."""
    ev = json.loads(json.dumps(evs[i]))
    ok = ev.get("res", "ok") == "ok"
    if module == "TraceOps":
        if ok and ev["post"]["items"]:
            ev["post"]["items"][0]["e"] += 1
            return "end of the first cue after the call +1", ev
    elif module == "TraceLinear":
        if ok and ev.get("contentOK"):
            ev["contentOK"] = False
            return "content-untouched flag cleared", ev
    elif module == "TraceScanner":
        if ok and isinstance(ev.get("out"), list) and ev["out"] and ev.get("kind") != "fault":
            ev["out"] = ev["out"][:-1]
            return "last token returned by the scanner dropped", ev
    elif module in ("TraceIO", "TraceWriters"):
        if ok and i > 0 and ev.get("digest") and not ev.get("first") and evs[i - 1].get("digest") == ev.get("digest"):
            ev["digest"] = "0" * len(ev["digest"])
            return "digest of the result replaced", ev
    elif module == "TraceTime":
        if ok and isinstance(ev.get("back"), list) and _bump_first_int(ev["back"]):
            return "re-read instant +1", ev
    elif module in ("TraceSrt", "TraceVtt", "TraceSsa", "TraceTtml", "TraceStl", "TraceTeletext"):
        if module == "TraceTeletext" and ok and i % 2 == 1 and ev.get("hooks"):
            ev["hooks"][-1][2] = 1 - ev["hooks"][-1][2]
            return "receiving flag observed at the last packet flipped", ev
        if ok and _bump_first_int(ev.get("post")):
            return "first integer of the projected result +1", ev
    elif module == "TraceTotality":
        if isinstance(ev.get("res"), list) and ev["res"] and all(x in ("ok", "err") for x in ev["res"]):
            ev["res"][-1] = "panic"
            return "outcome of the last call on this input replaced by panic", ev
    elif module == "TraceConc":
        if ev.get("mode") in ("gated", "free") and ev.get("digest") not in ("", "ERR", None):
            ev["digest"] = "0" * len(ev["digest"])
            return "digest of a concurrent call's result replaced", ev
    elif module == "TraceStyleProp":
        if ok and ev.get("textok") and i % 2 == 0:
            ev["textok"] = False
            return "text-preserved flag of a conversion cleared", ev
        if ok and i % 2 == 1:
            ev["out"]["run"]["has"] = not ev["out"]["run"]["has"]
            return "observed inline-style presence of the re-read run flipped", ev
    elif module == "TraceSession":
        # last open of a library history that is certainly inside the scope
        if ev.get("ev") == "open" and ok and ev["cues"] and i > 0 and evs[i - 1].get("ev") == "write" and evs[i - 1].get("res") == "ok":
            j = i
            while not evs[j].get("first"):
                j -= 1
            h = evs[j:i + 1]
            if all(e.get("grid", True) for e in h) and not any(e.get("norep") for e in h) and not any(e["ev"] == "budget" for e in h):
                ev["cues"][0][1] += 3
                return "end of the first cue of the re-read destination +1 ms", ev
    return None


def corruption_selftest(scratch, module, cfg, vals, heap, extra_env):
    done = [r for r in SELFTEST["results"] if r["module"] == module and r["detected"]]
    if len(done) >= 2 or not vals:
        return
    path, r0 = vals[0]
    flagged = set(int(v[1]) for v in r0.verdicts)
    with open(path) as f:
        evs = [json.loads(l) for l in f]
    tried = 0
    for i in range(len(evs)):
        if (i + 1) in flagged:
            continue
        c = _corrupt(module, evs, i)
        if c is None:
            continue
        what, ev = c
        tried += 1
        cp = path + ".corrupt%d" % tried
        with open(cp, "w") as f:
            for j, e in enumerate(evs):
                f.write(json.dumps(ev if j == i else e) + "\n")
        env = {"TRACE": cp}
        env.update(extra_env or {})
        r = tlc(scratch, module, cfg, env=env, workers=1, timeout=3000, heap=heap)
        hit = any(int(v[1]) == i + 1 for v in r.verdicts) if r.ok else False
        SELFTEST["results"].append({"module": module, "line": i + 1, "corruption": what, "detected": hit, "tlc_ok": r.ok})
        log("selftest %s: %s at event %d -> %s" % (module, what, i + 1, "rejected" if hit else "ACCEPTED"))
        if tried >= 2:
            break
    if tried == 0:
        SELFTEST["results"].append({"module": module, "line": 0, "corruption": "no candidate event", "detected": False, "tlc_ok": True})


def collect(rep, vals, pid, nontrivial=None, key=None, is_first=lambda ev: ev.get("first", True), sample_ok=None):
    """Fold TLC's verdict lines and the recorded events into the report."""
    for path, r in vals:
        rep.states += r.distinct
        rep.transitions += r.generated
        bad_lines = {}
        foreign = set()
        for v in r.verdicts:
            # <<"V", line, case, property, reason>>
            if v[3] == "DRIFT":
                # the implementation layer of the spec no longer predicts the code (not a verdict)
                rep.extra["impl_model_drift"] = rep.extra.get("impl_model_drift", 0) + 1
            elif v[3] != pid:
                foreign.add(int(v[2]))
            else:
                bad_lines[int(v[1])] = v[4]
        with open(path) as f:
            for i, line in enumerate(f, 1):
                ev = json.loads(line)
                rep.events += 1
                if is_first(ev):
                    rep.cases += 1
                nt = nontrivial(ev) if nontrivial else True
                if nt:
                    rep.nontrivial.add(digest(key(ev) if key else ev))
                if len(rep.samples) < 3 and nt and i % 7 == 0:
                    rep.samples.append(ev)
                if ev.get("n") in foreign:
                    rep.extra["skipped_foreign_histories"] = rep.extra.get("skipped_foreign_histories", 0) + 1
                    continue
                if i in bad_lines:
                    reason = bad_lines[i]
                    if reason.startswith("kf:"):
                        fid = reason[3:]
                        rep.kf.setdefault(fid, {"count": 0, "replay": ev})["count"] += 1
                    else:
                        rep.bad.append((reason, ev))
    if not rep.samples and rep.events and vals:
        rep.samples.append(vlib.read_line(vals[0][0], 1))


def ts_docs(scratch, drive):
    """A few teletext transport streams (from TLC's family C / S descriptions) as extra documents for the
    delivery / fault / totality / concurrency checks."""
    d = scratch.sub("tsdocs")
    if os.listdir(d):
        return d
    for fam in ("S", "C", "D", "A"):
        out = scratch.path("ttx.extra.%s.ndjson" % fam)
        r = tlc(scratch, "GenTeletext", "GenTeletext.cfg", env=dict(GEN_FAM=fam, GEN_PART=0, GEN_PARTS=1 if fam in ("D", "A") else 4, GEN_OUT=out), heap="2g", timeout=900)
        require_ok(r, "GenTeletext (extra documents)")
        vlib.run_drive(drive, ["teletext", "-cases", out, "-out", scratch.path("ttx.extra.%s.trace" % fam), "-dump", d, "-n0", str(ord(fam))]
                       + (["-dumpall"] if fam in ("D", "A") else []))
    return d


# ------------------------------------------------------------------------------------------------
# C09-C14: list operations
# ------------------------------------------------------------------------------------------------

OPS = {
    # pid: (mc config, [(gen op, quick env, thorough env)], [(random op, quick n, thorough n, maxn)], rule)
    "C09": ("MC_C09.cfg",
            [("add", dict(GEN_G=2, GEN_N=3, GEN_NT=1), dict(GEN_G=4, GEN_N=3, GEN_NT=1)),
             ("addinv", dict(GEN_G=2, GEN_N=2, GEN_NT=1), dict(GEN_G=3, GEN_N=3, GEN_NT=1))],
            [("add", 600, 20000, 40), ("add+addinv", 300, 10000, 40)],
            "TLC enumerates every list of <=N cues (s<=e) on grid 0..G x every shift d in -(2G+1)..G; random driver: "
            "<=40 cues, ms values up to 24h, d in [-maxEnd-1,+24h] incl. d = -end / -start of a cue. "
            "Non-trivial = the call removed or clamped at least one cue (distinct (list,d))."),
    "C10": ("MC_C10.cfg",
            [("fragment", dict(GEN_G=3, GEN_N=3, GEN_NT=2), dict(GEN_G=5, GEN_N=3, GEN_NT=2))],
            [("fragment", 400, 20000, 30)],
            "TLC enumerates every start-ordered list of <=N cues on grid 0..G with 2 texts x period f in 1..(G+1)/2 "
            "(overlaps, nesting, duplicates, zero gaps included); random driver: <=30 cues, ms values, f bounded so that "
            "there are <=60 cut points. Non-trivial = at least one cue strictly contains a multiple of f."),
    "C11": ("MC_C11.cfg",
            [("unfragment", dict(GEN_G=3, GEN_N=3, GEN_NT=2), dict(GEN_G=4, GEN_N=3, GEN_NT=3)),
             ("fragunfrag", dict(GEN_G=3, GEN_N=3, GEN_NT=2), dict(GEN_G=5, GEN_N=3, GEN_NT=2))],
            [("unfragment", 400, 20000, 25), ("fragment+unfragment", 300, 10000, 20)],
            "TLC enumerates every list (any order) of <=N cues on grid 0..G with NT texts, and for the inverse law every "
            "start-ordered list free of touching same-text cues x f; random driver beyond. Non-trivial = the call merged "
            "at least two cues, or (inverse law) Fragment cut at least one cue. Even text atoms are two-line texts whose characters equal "
            "the odd atom before them (texts that differ in line structure only)."),
    "C12": ("MC_C12.cfg",
            [("order", dict(GEN_G=2, GEN_N=3, GEN_NT=1), dict(GEN_G=3, GEN_N=4, GEN_NT=1)),
             ("merge", dict(GEN_G=1, GEN_N=2, GEN_NT=1), dict(GEN_G=2, GEN_N=2, GEN_NT=1))],
            [("order", 300, 10000, 40), ("merge", 300, 10000, 20)],
            "TLC enumerates every list of <=N cues on grid 0..G (all equal-start patterns) for Order and every pair of "
            "lists x style maps over ids {a,b} with arbitrary overlap x receiver with/without maps for Merge; random "
            "driver beyond. Non-trivial = equal starts present, or an identifier clash, or a nil-map receiver."),
    "C13": ("MC_C13.cfg",
            [("optimize", dict(GEN_G=1, GEN_N=1, GEN_NT=1, GEN_PARTS=8), dict(GEN_G=1, GEN_N=1, GEN_NT=1, GEN_PARTS=14)),
             ("removestyling", dict(GEN_G=1, GEN_N=1, GEN_NT=1, GEN_PARTS=4), dict(GEN_G=1, GEN_N=1, GEN_NT=1, GEN_PARTS=6))],
            [("optimize", 400, 20000, 6), ("removestyling", 200, 5000, 6)],
            "TLC enumerates every reference graph over <=3 styles (arbitrary parent links incl. chains and cycles), <=2 "
            "regions with optional style, N cues each with optional style / region / run style; random driver: 6 styles, "
            "3 regions, <=6 cues. Non-trivial = a definition is reachable only through a region or through inheritance, "
            "or at least one definition is unreachable."),
    "C14": ("MC_C14.cfg",
            [("force", dict(GEN_G=3, GEN_N=3, GEN_NT=1), dict(GEN_G=5, GEN_N=3, GEN_NT=1))],
            [("force", 500, 20000, 30)],
            "TLC enumerates every well-formed timeline (start-ordered, non-decreasing ends) of <=N cues on grid 0..G x d in "
            "1..G+2 x filler; random driver: <=30 cues, ms values, d on boundaries / inside cues / in gaps / beyond. "
            "Non-trivial = the call changed the list."),
}


def ops_nontrivial(pid, ev):
    pre, post = ev["pre"], ev["post"]
    if pid == "C12":
        if ev["op"] == "order":
            ss = [c["s"] for c in pre["items"]]
            return len(set(ss)) < len(ss) and ss != sorted(ss)
        a = set(d["id"] for d in pre["styles"].values())
        b = set(d["id"] for d in ev["pre2"]["styles"].values())
        return bool(a & b) or pre["snil"] or any(c["s"] == d["s"] for c in pre["items"] for d in ev["pre2"]["items"])
    if pid == "C13":
        return post["styles"] != pre["styles"] or post["regions"] != pre["regions"] or \
            any(d["parent"] for d in pre["styles"].values())
    return post["items"] != pre["items"]


@register("C09", "C10", "C11", "C12", "C13", "C14")
def check_ops(pid, tier, seed, scratch, replay):
    mc_cfg, gens, rands, rule = OPS[pid]
    rep = Report(pid, tier, seed)
    rep.rule = rule
    rep.assumptions = [
        "abstract time unit instantiated as 1 ms and 1 s alternately; values < 2^31 units",
        "Go side (harness/internal/opsx) only builds values, runs the real method and projects the result; "
        "pointer identity via a pointer->id table, content via deep snapshot comparison",
        "expected results are never computed in Go: every event is judged by TLC against spec/Ops.tla",
    ]
    thorough = tier == "thorough"
    drive = vlib.build_harness(scratch)

    # (a) model-check the specification (laws of the normative operators)
    def run_mc(_):
        env = {}
        r = tlc(scratch, "MC_Ops", mc_cfg if not thorough else mc_cfg.replace(".cfg", "_T.cfg") if os.path.exists(
            os.path.join(vlib.SPEC, mc_cfg.replace(".cfg", "_T.cfg"))) else mc_cfg, env=env, workers=4, timeout=1500, gc=2)
        require_ok(r, "model checking %s" % mc_cfg)
        return r

    # (b)+(c) generate with TLC, replay on the real code
    jobs = []
    for op, qenv, tenv in gens:
        env = dict(tenv if thorough else qenv)
        parts = int(env.pop("GEN_PARTS", 12 if thorough else 6))
        for p in range(parts):
            jobs.append((op, env, p, parts))

    def run_gen(job):
        op, env, p, parts = job
        out = scratch.path("cases.%s.%d.ndjson" % (op, p))
        e = dict(env)
        e.update(GEN_OP=op, GEN_OUT=out, GEN_PART=p, GEN_PARTS=parts)
        r = tlc(scratch, "GenOps", "Gen_T.cfg" if thorough else "Gen.cfg", env=e, workers=1, timeout=1700, heap="2g")
        require_ok(r, "case generation %s part %d" % (op, p))
        tr = scratch.path("trace.%s.%d.ndjson" % (op, p))
        vlib.run_drive(drive, ["ops", "-cases", out, "-out", tr, "-n0", str(p * 10000000)])
        return tr

    def run_rand(job):
        op, nq, nt, maxn = job[0]
        i = job[1]
        tr = scratch.path("trace.rand.%s.%d.ndjson" % (op.replace("+", "_"), i))
        n = nt if thorough else nq
        chunks = 8 if thorough else 2
        vlib.run_drive(drive, ["opsrand", "-op", op, "-out", tr, "-seed", str(seed * 1000 + i), "-num", str(n // chunks),
                               "-maxn", str(maxn), "-n0", str(500000000 + i * 1000000)])
        return tr

    t0 = time.time()
    import concurrent.futures as cf
    with cf.ThreadPoolExecutor(max_workers=vlib.NCPU) as ex:
        mc_f = ex.submit(run_mc, 0)
        impl_cfg = {"C09": "MC_OpsImpl_add.cfg", "C10": "MC_OpsImpl_fragment.cfg", "C11": "MC_OpsImpl_unfragment.cfg",
                    "C13": "MC_OpsImpl_optimize.cfg", "C14": "MC_OpsImpl_force.cfg"}.get(pid)
        # implementation layer: the transcribed algorithm terminates and refines the normative relation
        impl_f = ex.submit(lambda: require_ok(tlc(scratch, "MC_OpsImpl", impl_cfg, workers=3, timeout=1500, heap="4g"), impl_cfg)) if impl_cfg else None
        gen_f = [ex.submit(run_gen, j) for j in jobs]
        rjobs = []
        for rj in rands:
            for i in range(8 if thorough else 2):
                rjobs.append((rj, i))
        rand_f = [ex.submit(run_rand, j) for j in rjobs]
        traces = [f.result() for f in gen_f] + [f.result() for f in rand_f]
        log("generation + replay done in %.1fs" % (time.time() - t0))

        # (d) validate
        vals = validate(ex, scratch, traces, "TraceOps", "TraceOps.cfg")
        mc = mc_f.result()
    rep.add_mc(mc_cfg, mc)
    if impl_f is not None:
        rep.add_mc(impl_cfg + " (implementation layer: termination, refinement of the normative relation, loop invariants)", impl_f.result())
    collect(rep, vals, pid, nontrivial=lambda ev: ops_nontrivial(pid, ev),
            key=lambda ev: [ev["op"], ev["a"], ev["b"], ev["pre"], ev["pre2"]])
    rep.exhaustive = False
    rep.extra["enumerated_by_tlc"] = sum(vlib.count_lines(t) for t in traces if ".rand." not in t)
    return rep.finish()


# ------------------------------------------------------------------------------------------------
# C15: linear correction (BigInt)
# ------------------------------------------------------------------------------------------------

@register("C15")
def check_linear(pid, tier, seed, scratch, replay):
    import concurrent.futures as cf
    rep = Report(pid, tier, seed)
    thorough = tier == "thorough"
    rep.rule = ("TLC enumerates every reference quadruple (a1#a2, d1#d2) and cue on grid 0..G, replayed at unit scales 1ns, 1us, "
                "1ms, 1s, 1h; random driver: boundaries uniform in [0,24h] at ns resolution, slopes 25/23.976, 23.976/25, "
                "30/29.97, 1/2..2 and random in [0.5,2], reference points incl. 1..1000 ns apart, cue boundaries placed on a1/a2. "
                "Every boundary is judged by TLC in exact BigInt arithmetic (cross-multiplied, 1000 ns band). "
                "Non-trivial = the call has at least one cue (distinct calls).")
    rep.assumptions = ["BigInt.tla is self-checked against TLC's native integers on every run (base 10, all pairs in -R..R)",
                       "nanosecond values are passed as limb arrays produced with math/big in the harness"]
    drive = vlib.build_harness(scratch)
    G = 4 if thorough else 3
    parts = G + 1
    nrand = 16 if thorough else 4
    per = 25000 if thorough else 500

    def run_gen(p):
        out = scratch.path("lincases.%d.ndjson" % p)
        r = tlc(scratch, "GenLinear", "GenLinear.cfg", env=dict(GEN_G=G, GEN_PART=p, GEN_PARTS=parts, GEN_OUT=out), heap="2g", timeout=1500)
        require_ok(r, "GenLinear part %d" % p)
        tr = scratch.path("trace.lin.%d.ndjson" % p)
        vlib.run_drive(drive, ["linear", "-cases", out, "-out", tr, "-n0", str(p * 1000000)])
        return tr

    def run_rand(i):
        tr = scratch.path("trace.linrand.%d.ndjson" % i)
        vlib.run_drive(drive, ["linear", "-out", tr, "-seed", str(seed * 100 + i), "-num", str(per), "-n0", str(100000000 + i * 1000000)])
        return tr

    with cf.ThreadPoolExecutor(max_workers=vlib.NCPU) as ex:
        mc1 = ex.submit(lambda: require_ok(tlc(scratch, "MC_BigInt", "MC_BigInt_T.cfg" if thorough else "MC_BigInt.cfg", workers=4), "MC_BigInt"))
        mc2 = ex.submit(lambda: require_ok(tlc(scratch, "MC_Linear", "MC_Linear.cfg", workers=2), "MC_Linear"))
        gf = [ex.submit(run_gen, p) for p in range(parts)]
        rf = [ex.submit(run_rand, i) for i in range(nrand)]
        traces = [f.result() for f in gf + rf]
        vals = validate(ex, scratch, traces, "TraceLinear", "TraceLinear.cfg", per_jvm=400)
        rep.add_mc("MC_BigInt", mc1.result())
        rep.add_mc("MC_Linear", mc2.result())
    collect(rep, vals, pid, nontrivial=lambda ev: len(ev["bs"]) > 0, key=lambda ev: [ev["raw"], ev["bs"]], is_first=lambda ev: True)
    rep.extra["enumerated_by_tlc"] = sum(vlib.count_lines(t) for t in traces if "linrand" not in t)
    return rep.finish()


# ------------------------------------------------------------------------------------------------
# C17 / C18: delivery schedules and faults
# ------------------------------------------------------------------------------------------------

@register("C17", "C18")
def check_io(pid, tier, seed, scratch, replay):
    import concurrent.futures as cf
    thorough = tier == "thorough"
    rep = Report(pid, tier, seed, level="model_checking" if pid == "C17" else "fault_enumeration")
    drive = vlib.build_harness(scratch)
    faults = pid == "C18"
    L = (5 if thorough else 4)
    gparts = 6 if thorough else 3
    if pid == "C17":
        rep.rule = ("(i) TLC explores the scanner state machine for every document of length <= L over {CR,LF,x} under every read "
                    "size / zero-length read / data-with-EOF and generates every (document, schedule) pair, which is replayed on "
                    "the real split function and block reader (hooks VerifScanLines / VerifReadNBytes) and judged by TLC against "
                    "Lines(doc) / Blocks(doc) and against the implementation layer (drift). (ii) end to end on every reader: "
                    "repository samples, their LF/CRLF/CR variants, truncations, large generated documents; every single split "
                    "point (sampled on documents > 2.5 kB), one-byte, half, random, data-with-EOF, zero-length and 4096/65536-aligned "
                    "reads; TLC validates that all parses of a document return the first observed result. "
                    "Non-trivial = distinct (document, schedule) with at least two reads.")
    else:
        rep.rule = ("(i) as C17(i) with a non-EOF error injected at every offset (with and without data in the failing read) and "
                    "over-long lines in the model (MAXTOK=3); invariants FaultReported / NoSilentTruncation / LongLineReported. "
                    "(ii) end to end: every fault offset 0..len of every parseable sample (TTML: inside the root element), the failing read "
                    "with and without data and with two error values - the injector's own and io.ErrUnexpectedEOF, which a demultiplexer or "
                    "io.ReadFull may mistake for the end of the input -, every "
                    "fault offset of every writer's output, unfaulted write = complete document, lines of 2^16, 2^16+1, 70000, 2^20 "
                    "bytes, file helpers on missing / uncreatable paths. Non-trivial = distinct fault points.")
    rep.assumptions = ["a failed stream keeps failing (the injected error is sticky), as io.Reader implementations do",
                       "documents: repository testdata and harness-made variants; teletext streams are added by the C06 builder when present"]

    def run_gen(p):
        out = scratch.path("scancases.%d.ndjson" % p)
        r = tlc(scratch, "GenScanner", "GenScanner.cfg", env=dict(GEN_L=L, GEN_PART=p, GEN_PARTS=gparts, GEN_OUT=out,
                                                                    GEN_FAULTS="1" if faults else "0"), heap="2g", timeout=1500)
        require_ok(r, "GenScanner part %d" % p)
        tr = scratch.path("trace.scan.%d.ndjson" % p)
        vlib.run_drive(drive, ["scan", "-cases", out, "-out", tr, "-n0", str(p * 10000000)])
        return tr

    dparts = 8
    tsdir = ts_docs(scratch, drive)

    def run_e2e(p):
        tr = scratch.path("trace.e2e.%d.ndjson" % p)
        if faults:
            args = ["faults", "-out", tr, "-seed", str(seed), "-part", str(p), "-parts", str(dparts),
                    "-maxall", "3000" if thorough else "700"]
        else:
            args = ["deliver", "-out", tr, "-seed", str(seed), "-part", str(p), "-parts", str(dparts),
                    "-nrand", "40" if thorough else "5", "-maxsplit", "6000" if thorough else "1500"]
        if thorough:
            args += ["-large"] + ([] if faults else ["-scale", "3", "-nearp", "8"])
        elif not faults:
            args.append("-large")
        args += ["-extra", tsdir]
        vlib.run_drive(drive, args)
        return tr

    with cf.ThreadPoolExecutor(max_workers=vlib.NCPU) as ex:
        mcs = [("MC_Scanner_cur_T.cfg" if thorough else "MC_Scanner_cur.cfg"), "MC_ScannerBlocks_cur.cfg"]
        if faults:
            mcs.append("MC_Scanner_long.cfg")
        mcf = [ex.submit(lambda c=c: (c, require_ok(tlc(scratch, "ScannerMC", c, workers=3, timeout=2400), c))) for c in mcs]
        gf = [ex.submit(run_gen, p) for p in range(gparts)]
        ef = [ex.submit(run_e2e, p) for p in range(dparts)]
        t1 = [f.result() for f in gf]
        t2 = [f.result() for f in ef]
        v1 = validate(ex, scratch, t1, "TraceScanner", "TraceScanner.cfg", per_jvm=3000, extra_env={"PROP": pid})
        v2 = validate(ex, scratch, t2, "TraceIO", "TraceIO.cfg", per_jvm=6000)
        for f in mcf:
            c, r = f.result()
            rep.add_mc(c, r)
    collect(rep, v1, pid, nontrivial=lambda ev: len(ev["sched"]) >= 2 or ev["sched"][:1] and ev["sched"][0]["k"] != "ok",
            key=lambda ev: [ev["kind"], ev["doc"], ev["len"], ev["sched"]], is_first=lambda ev: True)
    collect(rep, v2, pid, nontrivial=lambda ev: ev["kind"] != "deliver" or ev["sched"] != "bytes.Reader",
            key=lambda ev: [ev["kind"], ev["fmt"], ev["doc"], ev["sched"], ev["k"], ev["n"]], is_first=lambda ev: True)
    rep.extra["enumerated_by_tlc"] = sum(vlib.count_lines(t) for t in t1)
    rep.extra["end_to_end_events"] = sum(vlib.count_lines(t) for t in t2)
    return rep.finish()


# ------------------------------------------------------------------------------------------------
# C01-C05: codecs (shared driver)
# ------------------------------------------------------------------------------------------------

def codec_check(pid, tier, seed, scratch, spec):
    """spec: dict(name, mc=[(module,cfg)], gens=[(env, parts_q, parts_t)], gen_module, gen_cfg, drive_cmd, trace_module,
    trace_cfg, nrand=(q,t), rule, assumptions, nontrivial, key)"""
    import concurrent.futures as cf
    thorough = tier == "thorough"
    if DUMP is not None:
        return dump_docs(seed, scratch, spec)
    rep = Report(pid, tier, seed)
    rep.rule = spec["rule"]
    if thorough and any(e.get("GEN_WIDE") for e, _, _, _ in spec["gens"]):
        rep.rule += (" Thorough tier: the same families are additionally generated with GEN_WIDE=1, i.e. ranging over the whole space "
                     "of rendering choices of the codec module (every line terminator x byte-order mark x spacing / radix / indentation "
                     "variant for every truth) and over the wider truth sets the MC module defines for it.")
    rep.assumptions = spec["assumptions"]
    drive = vlib.build_harness(scratch)
    jobs = []
    for gi, (env, pq, pt, only) in enumerate(spec["gens"]):
        if only == "thorough" and not thorough:
            continue
        parts = pt if thorough else pq
        for p in range(parts):
            jobs.append((gi, env, p, parts))

    def run_gen(job):
        gi, env, p, parts = job
        out = scratch.path("cases.%s.%d.%d.ndjson" % (spec["name"], gi, p))
        e = dict(env)
        e.update(GEN_OUT=out, GEN_PART=p, GEN_PARTS=parts)
        r = tlc(scratch, spec["gen_module"], spec["gen_cfg"], env=e, heap="3g", timeout=2400)
        require_ok(r, "%s generation %s part %d" % (spec["name"], env, p))
        tr = scratch.path("trace.%s.%d.%d.ndjson" % (spec["name"], gi, p))
        vlib.run_drive(drive, [spec["drive_cmd"], "-cases", out, "-out", tr, "-n0", str((gi * 64 + p) * 1000000)] + spec.get("drive_args", []))
        return tr

    nr = spec["nrand"][1 if thorough else 0]
    rparts = 8 if thorough else 2

    def run_rand(i):
        tr = scratch.path("trace.%s.rand.%d.ndjson" % (spec["name"], i))
        vlib.run_drive(drive, [spec["drive_cmd"], "-out", tr, "-seed", str(seed * 1000 + i), "-num", str(nr // rparts),
                               "-n0", str(900000000 + i * 1000000)] + spec.get("drive_args", []))
        return tr

    with cf.ThreadPoolExecutor(max_workers=vlib.NCPU) as ex:
        mcf = []
        for (mod, cfg, cfg_t) in spec["mc"]:
            c = cfg_t if thorough and cfg_t else cfg
            mcf.append(ex.submit(lambda mod=mod, c=c: (c, require_ok(tlc(scratch, mod, c, workers=3, timeout=2400), mod + "/" + c))))
        gf = [ex.submit(run_gen, j) for j in jobs]
        rf = [ex.submit(run_rand, i) for i in range(rparts)] if nr else []
        traces = [f.result() for f in gf + rf]
        vals = validate(ex, scratch, traces, spec["trace_module"], spec["trace_cfg"], per_jvm=spec.get("per_jvm", 2500))
        for f in mcf:
            c, r = f.result()
            rep.add_mc(c, r)
    collect(rep, vals, pid, nontrivial=spec.get("nontrivial"), key=spec.get("key"), is_first=lambda ev: True)
    rep.extra["enumerated_by_tlc"] = sum(vlib.count_lines(t) for t in traces if ".rand." not in t)
    return rep.finish()


# When set to dict(dir=..., every=...), a codec check only renders one partition of each of its generator
# families and keeps every n-th document as a file (source documents of the conversion check C07).
DUMP = None


def dump_docs(seed, scratch, spec):
    drive = vlib.build_harness(scratch)
    for gi, (env, pq, pt, only) in enumerate(spec["gens"]):
        if only == "thorough" or not pq:
            continue
        p = seed % pq
        out = scratch.path("dump.cases.%s.%d.ndjson" % (spec["name"], gi))
        e = dict(env)
        e.update(GEN_OUT=out, GEN_PART=p, GEN_PARTS=pq)
        require_ok(tlc(scratch, spec["gen_module"], spec["gen_cfg"], env=e, heap="3g", timeout=2400), "%s generation (documents)" % spec["name"])
        vlib.run_drive(drive, [spec["drive_cmd"], "-cases", out, "-out", scratch.path("dump.trace.%s.%d" % (spec["name"], gi)),
                               "-n0", str(gi * 1000000 + 7)] + spec.get("drive_args", []),
                       env=dict(VERIF_DUMP_DIR=DUMP["dir"], VERIF_DUMP_EVERY=DUMP["every"]))
    return 0


def gen_docs(scratch, seed, every=41):
    """Source documents from the C01-C06 generators (TLC truths x renderings, concretised by the codec drivers)."""
    global DUMP
    import concurrent.futures as cf
    d = scratch.sub("gendocs")
    if os.listdir(d):
        return d
    DUMP = dict(dir=d, every=every)
    try:
        with cf.ThreadPoolExecutor(max_workers=6) as ex:
            fs = [ex.submit(REGISTRY[c], c, "quick", seed, scratch, None) for c in ("C01", "C02", "C03", "C04", "C05")]
            fs.append(ex.submit(lambda: ts_docs(scratch, vlib.build_harness(scratch))))
            for f in fs:
                f.result()
    finally:
        DUMP = None
    for f in os.listdir(scratch.sub("tsdocs")):
        shutil.copy(os.path.join(scratch.sub("tsdocs"), f), d)
    return d


@register("C01")
def check_srt(pid, tier, seed, scratch, replay):
    return codec_check(pid, tier, seed, scratch, dict(
        name="srt", gen_module="GenSrt", gen_cfg="GenSrt.cfg", drive_cmd="srt", trace_module="TraceSrt", trace_cfg="TraceSrt.cfg",
        mc=[("SrtMC", "MC_Srt_A.cfg", "MC_Srt_A_T.cfg"), ("SrtMC", "MC_Srt_B.cfg", None)],
        gens=[(dict(GEN_FAM="A", GEN_N=1), 6, 6, None), (dict(GEN_FAM="B", GEN_N=1), 2, 4, None), (dict(GEN_FAM="A", GEN_N=2), 0, 14, "thorough")],
        nrand=(300, 6000),
        rule=("TLC enumerates ground truths (<=1 cue quick / <=2 thorough; 1-2 lines; 1-2 runs; styles plain/bold/italic+underline+colour; "
              "times with carries up to 99:59:59.999) x every rendering of family A (index number/junk/absent x tag discipline closed / "
              "reversed nesting / carried across lines and never closed x 0-3 blank lines at EOF x LF/CRLF/CR x BOM) and family B "
              "(separator x 1-3 fraction digits x spacing x trailing coordinates); each document is concretised with 5 text pools "
              "(&, <, NBSP, digits-only, non-BMP, quotes) and read by ReadFromSRT; each truth is written by WriteToSRT, lexed by the "
              "harness's own lexer, decoded by the TLA+ reference decoder and re-read by the library. Random driver: <=24 cues. "
              "Non-trivial = distinct (truth, rendering) with at least one styled run or a non-canonical rendering choice."),
        assumptions=["text atoms carry no leading/trailing white space; two adjacent runs without markup are one run (not a distinct truth)",
                     "a cue rendered without index is preceded by a blank line; no text line is itself a timing line",
                     "the reference decoder RefRead is model-checked against every rendering in the same run (SrtMC)"],
        nontrivial=lambda ev: ev["dir"] == "write" or any(t["k"] in ("junk",) or (t["k"] == "timing" and (t["sep"] != "," or t["fd"] != 3 or t["sp"] or t["xy"])) or
                                                         (t["k"] == "text" and len(t["its"]) > 1) for t in ev["d"]["toks"]) or ev["d"]["eol"] != "lf",
        key=lambda ev: [ev["dir"], ev["g"], ev["d"], ev["n"] % 5],
    ))


# ------------------------------------------------------------------------------------------------
# C16: timestamp codec
# ------------------------------------------------------------------------------------------------

@register("C16")
def check_timecodec(pid, tier, seed, scratch, replay):
    import concurrent.futures as cf
    thorough = tier == "thorough"
    rep = Report(pid, tier, seed)
    rep.rule = ("Public API only, batched: lists whose cue boundaries are the instants of a structured grid are written by each "
                "writer (SRT, WebVTT, TTML, SSA, STL at 25 and 30 fps), the timing lines / attributes / TTI bytes are split into "
                "raw fields by the harness, the bytes are re-read by the same format's reader and written a second time. Grid: "
                "hours {0,1,9,10,23,24,99} x (m,s) cells x all 1000 ms (quick: a seed-chosen third of the cells plus 00:00 and "
                "59:59; thorough: all 16 cells of {0,1,58,59}^2), every 10 ms boundary +-1 ns, characteristic ms +-1 ns, every frame "
                "boundary at 25 and 30 fps +-1 ns, all 3600 (m,s) x 9 fractions (quick: every 7th), seeded random ns instants. TLC "
                "validates each event against TimeCodec.tla (canonical grammar, latest representable instant, reader inverse, second "
                "write, monotone along the sorted sequence). Non-trivial = distinct (format, instant).")
    rep.assumptions = ["the statement's full sweep of all 8.64e7 ms instants per format is not reached (TLC validates ~10^4 events/s); the grid is "
                       "complete in each field and in every carry pair (exhaustive=false)",
                       "TimeCodec's own laws (canonical, not-after, fixed point, monotone) are model-checked on 252000 instants in every run"]
    drive = vlib.build_harness(scratch)
    fmts = ["srt", "vtt", "ttml", "ssa", "stl25", "stl30", "stl25tcp", "stl30tcp"]
    parts = 3 if thorough else 1
    jobs = [(f, p) for f in fmts for p in range(parts)]

    def run_tc(job):
        f, p = job
        tr = scratch.path("trace.tc.%s.%d.ndjson" % (f, p))
        args = ["timecodec", "-fmt", f, "-out", tr, "-seed", str(seed), "-part", str(p), "-parts", str(parts),
                "-nrand", "5000" if thorough else "400"]
        if thorough:
            args.append("-thorough")
        vlib.run_drive(drive, args)
        return tr

    with cf.ThreadPoolExecutor(max_workers=vlib.NCPU) as ex:
        mc = ex.submit(lambda: require_ok(tlc(scratch, "MC_TimeCodec", "MC_TimeCodec.cfg", workers=4), "MC_TimeCodec"))
        # unbounded: the mixed-radix rendering and truncation laws for every instant, by Apalache (SMT)
        apa = ex.submit(lambda: vlib.apalache(scratch, "TimeLaws", "Laws"))
        traces = [f.result() for f in [ex.submit(run_tc, j) for j in jobs]]
        vals = validate(ex, scratch, traces, "TraceTime", "TraceTime.cfg", per_jvm=12000)
        rep.add_mc("MC_TimeCodec.cfg", mc.result())
        rep.extra["apalache"] = apa.result()
    collect(rep, vals, pid, nontrivial=lambda ev: True, key=lambda ev: [ev["fmt"], ev["fps"], ev["t"]], is_first=lambda ev: True)
    return rep.finish()


@register("C02")
def check_vtt(pid, tier, seed, scratch, replay):
    return codec_check(pid, tier, seed, scratch, dict(
        name="vtt", gen_module="GenVtt", gen_cfg="GenVtt.cfg", drive_cmd="vtt", trace_module="TraceVtt", trace_cfg="TraceVtt.cfg",
        mc=[("VttMC", "MC_Vtt_H.cfg", None), ("VttMC", "MC_Vtt_C.cfg", None), ("VttMC", "MC_Vtt_P.cfg", None), ("VttMC", "MC_Vtt_N.cfg", None), ("VttMC", "MC_Vtt_K.cfg", None)],
        gens=[(dict(GEN_FAM="H"), 2, 2, None), (dict(GEN_FAM="C"), 10, 10, None), (dict(GEN_FAM="P"), 1, 1, None), (dict(GEN_FAM="N"), 1, 1, None), (dict(GEN_FAM="K"), 1, 1, None),
              (dict(GEN_FAM="H", GEN_WIDE=1), 0, 4, "thorough"), (dict(GEN_FAM="C", GEN_WIDE=1), 0, 16, "thorough"), (dict(GEN_FAM="P", GEN_WIDE=1), 0, 4, "thorough")],
        nrand=(0, 0), per_jvm=2500,
        rule=("TLC enumerates ground truths of five families - H: timestamp map x STYLE block (0-2 lines) x regions (0-2, with regionanchor / viewportanchor / "
              "lines/width/scroll) x region reference; C: one cue with id present/absent x 0-2 comment lines x 4 cue-setting subsets "
              "x voice x 1-2 runs over 7 tag stacks (depth 0-3, classes, annotation) x inline timestamp, or two lines; P: two cues "
              "(tag stack / comment / id state between cues); N: nesting - 2-3 runs over stacks in which tags of the same name are "
              "nested (class spans inside class spans, i in b in i), runs leaving only the inner span; K: runs carrying a colour from "
              "another format (written as a class span around the run's own tags) next to runs sharing tags with them - x every rendering (header trailing text, LF/CRLF/CR, BOM, mm:ss.ttt vs "
              "hh:mm:ss.ttt, tab vs space before settings, tags closed per run vs shared by proper nesting); each document is "
              "concretised with 4 text pools and read by ReadFromWebVTT; each truth is written by WriteToWebVTT, lexed by the "
              "harness's own lexer, decoded by the TLA+ reference decoder (which also checks that a region is defined before use) "
              "and re-read by the library. Non-trivial = distinct (truth, rendering, pool)."),
        assumptions=["text atoms carry no leading/trailing white space; adjacent runs with identical tag stacks and no timestamp between them are one run",
                     "regions use the 'Region: id=... k=v' line syntax the library itself writes; NOTE always carries text",
                     "the reference decoder is model-checked against every rendering in the same run (VttMC)"],
        nontrivial=lambda ev: True,
        key=lambda ev: [ev["dir"], ev["g"], ev["d"], ev["n"] % 4],
    ))


@register("C04")
def check_ssa(pid, tier, seed, scratch, replay):
    return codec_check(pid, tier, seed, scratch, dict(
        name="ssa", gen_module="GenSsa", gen_cfg="GenSsa.cfg", drive_cmd="ssa", trace_module="TraceSsa", trace_cfg="TraceSsa.cfg",
        mc=[("SsaMC", "MC_Ssa_S.cfg", None), ("SsaMC", "MC_Ssa_E.cfg", None), ("SsaMC", "MC_Ssa_F.cfg", None), ("SsaMC", "MC_Ssa_I.cfg", None)],
        gens=[(dict(GEN_FAM="S"), 2, 2, None), (dict(GEN_FAM="E"), 6, 6, None), (dict(GEN_FAM="F"), 3, 3, None), (dict(GEN_FAM="I"), 1, 1, None),
              (dict(GEN_FAM="S", GEN_WIDE=1), 0, 4, "thorough"), (dict(GEN_FAM="E", GEN_WIDE=1), 0, 16, "thorough"), (dict(GEN_FAM="F", GEN_WIDE=1), 0, 4, "thorough")],
        nrand=(0, 0), per_jvm=2000,
        rule=("TLC enumerates ground truths of four families - S: one style over Name + 4 typed columns (string, float, colour, "
              "boolean) x all 120 permutations of the Format line x v4/v4+ x decimal/&H colours; E: one Dialogue over Layer|Marked, "
              "Style, Name, Effect x all 24 column permutations (Text last) x 6 text structures (runs at {..} blocks, \\N / \\n "
              "lines, commas in text) x '*'-prefixed style names x two instants; F: two styles over all 24 (v4: 18) columns with "
              "different attribute subsets, full event rows, 3 column orders, script info subsets, ';' comments, unknown section + "
              "junk and comment-like lines, Picture / Command event lines, LF/CRLF/CR, BOM; I: each of the 14 script-info fields alone and "
              "all together - and every rendering; neighbouring columns of one type carry different values; documents are concretised (section-name spellings, H: vs HH: "
              "hours) and read by ReadFromSSA and by ReadFromSSAWithOptions with zero-valued options (same result required); each truth is written by WriteToSSA, lexed by the harness's Format-driven lexer, "
              "decoded by the TLA+ reference decoder, re-read by the library and written a second time (byte fixpoint). "
              "Non-trivial = distinct (truth, rendering, pool)."),
        assumptions=["Text is the last column of the event Format (format description); only the first run of a line may lack an override block",
                     "absent cells and default values (0, empty) denote the same attribute (SameRow)",
                     "the reference decoder is model-checked against every rendering in the same run (SsaMC)"],
        nontrivial=lambda ev: True,
        key=lambda ev: [ev["dir"], ev["g"], ev["d"], ev["n"] % 2],
    ))


@register("C03")
def check_ttml(pid, tier, seed, scratch, replay):
    return codec_check(pid, tier, seed, scratch, dict(
        name="ttml", gen_module="GenTtml", gen_cfg="GenTtml.cfg", drive_cmd="ttml", trace_module="TraceTtml", trace_cfg="TraceTtml.cfg",
        mc=[("TtmlMC", "MC_Ttml_T.cfg", None), ("TtmlMC", "MC_Ttml_B.cfg", None), ("TtmlMC", "MC_Ttml_S.cfg", None), ("TtmlMC", "MC_Ttml_L.cfg", None), ("TtmlMC", "MC_Ttml_A.cfg", None)],
        gens=[(dict(GEN_FAM="T"), 5, 5, None), (dict(GEN_FAM="B"), 1, 1, None), (dict(GEN_FAM="S"), 6, 6, None), (dict(GEN_FAM="L"), 1, 1, None), (dict(GEN_FAM="A"), 1, 1, None),
              (dict(GEN_FAM="T", GEN_WIDE=1), 0, 8, "thorough"), (dict(GEN_FAM="B", GEN_WIDE=1), 0, 2, "thorough"), (dict(GEN_FAM="S", GEN_WIDE=1), 0, 8, "thorough")],
        nrand=(0, 0), per_jvm=1500,
        rule=("TLC enumerates ground truths of five families - T: one paragraph x 6 instant pairs x frameRate {0,24,25,30} x tickRate "
              "{0,1000,90000,10^7} with begin and end each written in every equivalent time-expression syntax (clock with 0-3 fraction "
              "digits, clock with frames, offsets in h, m, s, ms, f, t); B: line structures with <br/> between or inside spans, bare "
              "text vs spans, styled runs, one or two paragraphs; S: every style forest over <=3 styles (incl. shared parents), 0-2 regions "
              "with style references, cue / run references, inline tts:* attributes, language (mapped / unmapped) / title / copyright, "
              "indentation on/off, prefixed vs unprefixed attributes; L: every language the library maps and one it does not; A: each of "
              "the 24 tts:* attributes alone and next to its neighbour, on a style / region / paragraph / run; tick counts beyond 32 bits "
              "are written out in full (unit T of the model). Documents are concretised as XML (4 text pools with & < > quotes, non-BMP, "
              "one-character runs) and read by ReadFromTTML; each truth is written by WriteToTTML with 4 indent options and once with its "
              "definitions stored under map keys that differ from their IDs, parsed by the harness with "
              "encoding/xml's token stream, decoded by the TLA+ reference decoder (time expressions resolved in 32-bit-safe exact "
              "arithmetic) and re-read by the library. Non-trivial = distinct (truth, rendering, pool)."),
        assumptions=["instants may differ by one nanosecond from the exact value (the library computes in float64)",
                     "character data carries no line terminator; line structure comes from <br/> only; offsets in f / t are integers",
                     "the reference decoder is model-checked against every rendering in the same run (TtmlMC)"],
        nontrivial=lambda ev: True,
        key=lambda ev: [ev["dir"], ev.get("indent"), ev["g"], ev["d"], ev["n"] % 3],
    ))


@register("C05")
def check_stl(pid, tier, seed, scratch, replay):
    return codec_check(pid, tier, seed, scratch, dict(
        name="stl", gen_module="GenStl", gen_cfg="GenStl.cfg", drive_cmd="stl", trace_module="TraceStl", trace_cfg="TraceStl.cfg",
        mc=[("StlMC", "MC_Stl_K.cfg", None), ("StlMC", "MC_Stl_T.cfg", None), ("StlMC", "MC_Stl_R.cfg", None), ("StlMC", "MC_Stl_X.cfg", None), ("StlMC", "MC_Stl_M.cfg", None)],
        gens=[(dict(GEN_FAM="K"), 2, 2, None), (dict(GEN_FAM="T"), 2, 2, None), (dict(GEN_FAM="R"), 2, 2, None), (dict(GEN_FAM="X"), 1, 1, None), (dict(GEN_FAM="M"), 1, 1, None),
              (dict(GEN_FAM="T", GEN_WIDE=1), 0, 6, "thorough"), (dict(GEN_FAM="R", GEN_WIDE=1), 0, 6, "thorough"), (dict(GEN_FAM="X", GEN_WIDE=1), 0, 2, "thorough")],
        nrand=(0, 0), per_jvm=1200,
        rule=("TLC enumerates (truth, file) pairs of five families - K: the complete Latin code table, one file per printable "
              "code and per diacritic x letter pair (13 x 52, composable or not; table generated from the standard by "
              "tools/gen_stl_tables.py, NFC via unicodedata); T: every frame number x selected h:m:s x 25/30 fps x programme-start "
              "offsets; R: rows / runs / italic-underline-boxing code sequences, justification codes, vertical positions; X: teletext "
              "display standards 1 and 2 with colour and double-height codes, each block under four box patterns (all rows boxed, none, "
              "the odd ones, the even ones); M: GSI metadata subsets incl. every text field filled to its last byte, both frame rates, "
              "reserved user-data blocks interleaved. Each file is packed by the harness (fixed-offset GSI/TTI packer), read by "
              "ReadFromSTL with and without the ignore-programme-start option; each truth is written by WriteToSTL with STL metadata, "
              "without metadata and with metadata inherited from another format, unpacked by the harness, decoded by the TLA+ "
              "reference decoder, re-read and re-written (timecodes unchanged). Non-trivial = distinct (truth, file, option/mode)."),
        assumptions=["instants may differ by one nanosecond (frame starts at 30 fps are not whole nanoseconds)",
                     "a teletext row without any start-box code is displayed as a whole (DESIGN.md 9); explicitly-off and never-set flags denote the same when written",
                     "text fits a TTI block (<=112 codes); run texts carry no leading/trailing spaces; the STL writer is not asked to carry teletext colours / double height",
                     "the reference decoder is model-checked against every generated file in the same run (StlMC)"],
        nontrivial=lambda ev: True,
        key=lambda ev: [ev["dir"], ev.get("ignore"), ev.get("mode"), ev["g"], ev["d"]],
    ))


# ------------------------------------------------------------------------------------------------
# C19: writers are pure and deterministic
# ------------------------------------------------------------------------------------------------

@register("C19")
def check_writers(pid, tier, seed, scratch, replay):
    import concurrent.futures as cf
    thorough = tier == "thorough"
    rep = Report(pid, tier, seed)
    rep.rule = ("TLC model-checks order independence of the map-ranging writers (SSA Format line and Style lines incl. the writer's own "
                "table keyed by style ID, WebVTT STYLE block) for every style map of <=3 keys x every assignment of IDs to keys (an ID may "
                "occur under several keys) x attribute subsets x every map order, and enumerates the lists to write: 0..2 styles "
                "(quick; attribute subsets of 2, thorough 3 attributes) x CSS line sets x 0/2/3 regions with different attribute sets "
                "x metadata present/absent; the driver adds seeded lists with 3..6 styles and regions and names the styles after one of three "
                "schemes (s1..s6; Default / Alt / Caption ...; mixed case around 'default'); the maps are keyed by the entries' own IDs, by "
                "foreign keys that sort differently, or by foreign keys with the first two styles / regions sharing one ID. Every list is written by each "
                "of the 5 writers repeatedly in the same process, rebuilt with another map insertion order, written in 2 (thorough 4) "
                "further processes (fresh hash seeds), under another clock when the metadata supplies the STL dates, and - for some "
                "lists - in all 120 orders of the 5 writers on one list object. Events carry the digest of the bytes and deep-snapshot "
                "digests of the list before/after; TLC validates the register semantics (same list, same format => same bytes) and "
                "that no write changes the list. Non-trivial = distinct (list, format) pairs whose list has >=2 styles or regions.")
    rep.assumptions = ["map iteration order cannot be driven: a differing pair of outputs is a sound witness, silence after N repetitions is probabilistic "
                       "(N = repetitions x processes, reported as events)",
                       "the injectable clock astisub.Now is fixed by the driver"]
    drive = vlib.build_harness(scratch)
    parts = 6 if thorough else 3

    def run_gen(p):
        out = scratch.path("wcases.%d.ndjson" % p)
        r = tlc(scratch, "GenWriters", "GenWriters.cfg", env=dict(GEN_N=2, GEN_A=3 if thorough else 2, GEN_PART=p, GEN_PARTS=parts, GEN_OUT=out), heap="2g", timeout=1500)
        require_ok(r, "GenWriters part %d" % p)
        tr = scratch.path("trace.writers.%d.ndjson" % p)
        vlib.run_drive(drive, ["writers", "-cases", out, "-out", tr, "-seed", str(seed + p), "-n0", str(p * 1000000),
                               "-reps", "50" if thorough else "4", "-procs", "4" if thorough else "2",
                               "-nrand", "60" if thorough else "12", "-orders", "3" if thorough else "1"], timeout=3000)
        return tr

    with cf.ThreadPoolExecutor(max_workers=vlib.NCPU) as ex:
        mc = ex.submit(lambda: require_ok(tlc(scratch, "Writers", "MC_Writers_cur.cfg", workers=4, timeout=1500), "MC_Writers_cur"))
        traces = [f.result() for f in [ex.submit(run_gen, p) for p in range(parts)]]
        vals = validate(ex, scratch, traces, "TraceWriters", "TraceWriters.cfg", per_jvm=6000)
        rep.add_mc("MC_Writers_cur.cfg", mc.result())
    collect(rep, vals, pid, nontrivial=lambda ev: True, key=lambda ev: [ev["list"], ev["fmt"]])
    rep.extra["events_by_map_keying"] = keying_stats(traces)
    return rep.finish()


# ------------------------------------------------------------------------------------------------
# C08: totality
# ------------------------------------------------------------------------------------------------

@register("C08")
def check_totality(pid, tier, seed, scratch, replay):
    import concurrent.futures as cf
    thorough = tier == "thorough"
    rep = Report(pid, tier, seed)
    rep.rule = ("TLC enumerates (spec/Totality.tla): every token sequence of length <=K (quick 3, thorough 4; TTML, whose alphabet has 24 tokens, 3 in both tiers) over per-format alphabets "
                "that contain malformed tokens (timing line without end / start, bare arrow, unbalanced tags, rows before / shorter / "
                "longer than Format, bad numbers, unknown style / region references, <p> without begin / end ...) for SRT, WebVTT, SSA, "
                "TTML; every field-level mutation of a valid STL file (16 GSI fields x 5 value classes, 7 TTI fields x 7 classes, 5 sizes); "
                "the lattice of public-type values with every optional part present/absent (metadata, maps nil/empty/definitions with "
                "and without inline style, key != id, item / run inline style, style, region incl. detached ones, empty lines, STL "
                "position, timestamp map) x 9 text classes (empty, leading combining mark also through decomposition or reordering, control characters, non-BMP, invalid UTF-8, "
                "line terminators) - written by all 5 writers and passed through the list transformations. Exploration (labelled as "
                "such): truncation at every offset, single-byte replace / insert / delete with 18 interesting bytes, splices, every "
                "document through every reader, random junk, the extension-dispatching opener. Each call runs under recover() and a "
                "watchdog (5 s + 50 us/byte); TLC validates outcome in {ok, err} for every call. Termination of the line scanner loop "
                "under every read schedule is model-checked (ScannerMC, liveness). Non-trivial = distinct inputs.")
    rep.assumptions = ["'time proportional to the input' is approximated by the watchdog budget; no complexity bound is proved",
                       "teletext streams are covered by the C06 stream builder (documents handed over through -extra when present)",
                       "byte-level mutations and junk are exploration, not enumeration"]
    drive = vlib.build_harness(scratch)
    K = 4 if thorough else 3
    jobs = []
    for kind, parts in (("srt", 2), ("vtt", 14 if thorough else 3), ("ssa", 8 if thorough else 3), ("ttml", 6 if thorough else 2), ("stl", 1)):
        for p in range(parts):
            # the TTML alphabet has 24 tokens: sequences of length 4 (3.3*10^5) do not fit the time budget of the tier
            jobs.append((kind, 3 if kind == "ttml" else K, p, parts, None))
    sparts = 16
    for p in (range(sparts) if thorough else [(seed + i * 5) % sparts for i in range(3)]):
        jobs.append(("shapes", 11, p, sparts, None))

    def run_gen(job):
        kind, k, p, parts, _ = job
        out = scratch.path("tot.%s.%d.ndjson" % (kind, p))
        r = tlc(scratch, "GenTotality", "GenTotality.cfg", env=dict(GEN_KIND=kind, GEN_K=k, GEN_PART=p, GEN_PARTS=parts, GEN_OUT=out), heap="3g", timeout=5400)
        require_ok(r, "GenTotality %s part %d" % (kind, p))
        tr = scratch.path("trace.tot.%s.%d.ndjson" % (kind, p))
        vlib.run_drive(drive, ["totality", "-cases", out, "-out", tr, "-n0", str((hash(kind) % 50) * 10000000 + p * 1000000)], timeout=3000)
        return tr

    eparts = 8
    tsdir = ts_docs(scratch, drive)

    def run_bytes(p):
        tr = scratch.path("trace.tot.bytes.%d.ndjson" % p)
        vlib.run_drive(drive, ["totality", "-out", tr, "-seed", str(seed), "-part", str(p), "-parts", str(eparts), "-n0", str(900000000 + p * 1000000),
                               "-dense", "3000" if thorough else "400", "-extra", tsdir], timeout=3000)
        return tr

    with cf.ThreadPoolExecutor(max_workers=vlib.NCPU) as ex:
        mc = ex.submit(lambda: require_ok(tlc(scratch, "ScannerMC", "MC_Scanner_cur.cfg", workers=3), "ScannerMC termination"))
        gf = [ex.submit(run_gen, j) for j in jobs]
        bf = [ex.submit(run_bytes, p) for p in range(eparts)]
        t1 = [f.result() for f in gf]
        t2 = [f.result() for f in bf]
        vals = validate(ex, scratch, t1 + t2, "TraceTotality", "TraceTotality.cfg", per_jvm=8000)
        rep.add_mc("MC_Scanner_cur.cfg (termination)", mc.result())
    collect(rep, vals, pid, nontrivial=lambda ev: True, key=lambda ev: [ev["kind"], ev["label"], ev["input"]], is_first=lambda ev: True)
    rep.extra["enumerated_by_tlc"] = sum(vlib.count_lines(t) for t in t1)
    rep.extra["exploration_events"] = sum(vlib.count_lines(t) for t in t2)
    return rep.finish()


# ------------------------------------------------------------------------------------------------
# C20: independent calls are safe concurrently
# ------------------------------------------------------------------------------------------------

@register("C20")
def check_conc(pid, tier, seed, scratch, replay):
    import concurrent.futures as cf, glob, subprocess
    thorough = tier == "thorough"
    rep = Report(pid, tier, seed)
    rep.rule = ("Conc.tla: all interleavings of 3 calls x 3 steps are model-checked (tables never written, every call returns its alone "
                "result; the LEAKY variant is refuted). TLC generates every interleaving of 3 calls x 2 gated steps (90 schedules; thorough "
                "also 2 calls x 4 steps) which the harness forces on the real code through the verif hook gate (a call blocks at every "
                "instrumented reader-loop site until the schedule lets it proceed), for seeded combinations of operations out of a "
                "catalogue of all readers on the repository samples, the 5 writers and a chain of all transformations, each on private "
                "data. Free-running scenarios, built with -race: first one homogeneous pass per kind of operation (each reader, each writer, "
                "the transformations) in which every operation of the kind - the repository's samples, documents rendered from the C01-C06 "
                "generators, conversions of them by every writer, Unicode text classes - is dealt to 16 goroutines; then random mixes on "
                "2..32 goroutines, randomised start, GOMAXPROCS 2/4/16. Every call's "
                "result digest is compared by TLC with its alone-run digest, the package-table fingerprint (hook VerifTablesFingerprint) "
                "must stay constant, and the race detector's log must be empty. Every operation is also run alone three times - in catalogue "
                "order, in the opposite order, and in one of eight fresh processes that each run a share of the operations - and must return "
                "the same each time (state that a call leaves behind for the calls after it: pools, caches); the documents include pairs "
                "of which the first ends inside something a decoder keeps (a floating accent, an unclosed tag) and teletext streams with and "
                "without a character-set designation. Non-trivial = distinct (operation, schedule/scenario).")
    rep.assumptions = ["absence of data races is the Go race detector's observation on the executed schedules, not a proof",
                       "gate-forced interleavings cover the first steps of each call (then the calls run freely to completion)"]
    drive = vlib.build_harness(scratch)
    drive_race = vlib.build_harness(scratch, race=True)
    tsdir = ts_docs(scratch, drive)

    def gen(nc, ns):
        out = scratch.path("sched.%d.%d.ndjson" % (nc, ns))
        require_ok(tlc(scratch, "GenConc", "GenConc.cfg", env=dict(GEN_NC=nc, GEN_NS=ns, GEN_OUT=out), heap="2g"), "GenConc")
        return out

    with cf.ThreadPoolExecutor(max_workers=vlib.NCPU) as ex:
        mc = ex.submit(lambda: require_ok(tlc(scratch, "Conc", "MC_Conc_cur.cfg", workers=2), "MC_Conc_cur"))
        mcl = ex.submit(lambda: tlc(scratch, "Conc", "MC_Conc_leaky.cfg", workers=2))
        scheds = [gen(3, 2)] + ([gen(2, 4)] if thorough else [])
        traces = []
        for i, sc in enumerate(scheds):
            tr = scratch.path("trace.conc.gated.%d.ndjson" % i)
            vlib.run_drive(drive, ["conc", "-cases", sc, "-out", tr, "-seed", str(seed + i), "-combos", "12" if thorough else "4", "-free", "0"], timeout=3000,
                           env={"VERIF_EXTRA_DOCS": tsdir})
            traces.append(tr)
        # free-running under the race detector
        racelog = scratch.path("racelog")
        tr = scratch.path("trace.conc.free.ndjson")
        t_ = time.time()
        docs = gen_docs(scratch, seed, every=53)
        log("source documents generated in %.1fs" % (time.time() - t_))
        t_ = time.time()
        vlib.run_drive(drive_race, ["conc", "-lean", "-out", tr, "-seed", str(seed), "-free", "150" if thorough else "30", "-rounds", "3" if thorough else "1"], timeout=3000,
                       env={"GORACE": "log_path=%s exitcode=0 halt_on_error=0" % racelog, "VERIF_EXTRA_DOCS": docs, "VERIF_CONC_EVERY": 1 if thorough else 3,
                            "VERIF_PLAIN_DRIVE": drive})
        log("free-running scenarios under the race detector done in %.1fs" % (time.time() - t_))
        reports = []
        for f in glob.glob(racelog + "*"):
            txt = open(f, errors="replace").read()
            if "DATA RACE" in txt:
                reports.append(txt[:3000])
        with open(tr, "a") as f:
            f.write(json.dumps({"n": 999999999, "first": False, "mode": "race", "call": "race-detector", "digest": "", "fpb": "", "fpa": "",
                                "sched": [], "procs": 0, "gor": 0, "steps": 0, "race": bool(reports), "detail": reports[:1]}) + "\n")
        traces.append(tr)
        vals = validate(ex, scratch, traces, "TraceConc", "TraceConc.cfg", per_jvm=10**9)
        rep.add_mc("MC_Conc_cur.cfg", mc.result())
        leaky = mcl.result()
        rep.extra["leaky_variant_refuted_by_tlc"] = ("violated" in leaky.out)
        if "violated" not in leaky.out:
            raise Infra("Conc.tla: the LEAKY variant was not refuted - the model does not discriminate")
    collect(rep, vals, pid, nontrivial=lambda ev: ev["mode"] != "alone", key=lambda ev: [ev["mode"], ev["call"], ev["sched"], ev["procs"], ev["gor"], ev["n"]])
    rep.extra["race_reports"] = len(reports)
    return rep.finish()


@register("C06")
def check_teletext(pid, tier, seed, scratch, replay):
    return codec_check(pid, tier, seed, scratch, dict(
        name="teletext", gen_module="GenTeletext", gen_cfg="GenTeletext.cfg", drive_cmd="teletext", trace_module="TraceTeletext", trace_cfg="TraceTeletext.cfg",
        mc=[("TeletextMC", "MC_Teletext_%s.cfg" % f, None) for f in "SPEAHCIMD"],
        gens=[(dict(GEN_FAM="S"), 1, 1, None), (dict(GEN_FAM="P"), 2, 2, None), (dict(GEN_FAM="E"), 3, 3, None), (dict(GEN_FAM="A"), 1, 1, None),
              (dict(GEN_FAM="H"), 1, 1, None), (dict(GEN_FAM="C"), 1, 1, None), (dict(GEN_FAM="I"), 1, 1, None), (dict(GEN_FAM="M"), 1, 1, None), (dict(GEN_FAM="D"), 1, 1, None),
              (dict(GEN_FAM="I", GEN_WIDE=1), 0, 6, "thorough")],
        nrand=(0, 0), per_jvm=400,
        rule=("TLC enumerates transport-stream descriptions of eight families - S serial mode: every order of 3 target-page instances "
              "(one of them an erase instance), a distractor page in the same magazine and the same page number in another magazine, "
              "x 1..3 units per PES; P parallel mode: every merge of the target magazine's packet sequence with another magazine's (120 "
              "interleavings); E: each of 11 extra unit kinds (stuffing, non-subtitle unit, X/26, X/28, M/29, 8/30, wrong framing code, "
              "Hamming error, short / overlong / cut data units) at every position, in both magazines, an empty PES, PAT/PMT repetition; A: "
              "auto-detection of page (first subtitle-flagged page) and PID (first teletext PID of the PMT) with PES of a second teletext "
              "PID and of a non-teletext PID interleaved; H: hexadecimal page numbers (1F vs 25, A0, FF); C: all 7 character-set codes x "
              "all 13 national-option positions, sets switching between instances, colour / double-height codes, text outside the box, "
              "parity errors; I: every sequence of 4 instances of the target page, each empty (erase page / repeated header) or not, x 1..3 "
              "units per PES; M: the target page in every magazine 1..8 (magazine 8 travels as 0), selected by option or auto-detected; "
              "D: a character-set designation (Polish sub-set) by an M/29 packet before / inside the page or in another magazine, or by an X/28 "
              "packet inside / after the rows / outside the page / in another page of the magazine. Each description is encoded by the harness (own Hamming 8/4 / parity / data-unit encoder), multiplexed by "
              "the astits muxer and read by ReadFromTeletext with the PID auto-detected and given; TLC validates the returned cues "
              "against the normative decoder Expected (spec/Teletext.tla), which is itself checked against the truth each family "
              "carries by construction (TeletextMC). Implementation layer: the `verif` hook at the top of parsePacket records the page "
              "buffer's control state (magazine, packet number, receiving, selected magazine / page) at every packet that reaches the "
              "dispatcher; Teletext.CtlStep transcribes parsePacketHeader, TeletextMC checks it against the normative decoder in "
              "lockstep (CtlRefines: same selected page, the code receives whenever the norm does, agreement at every row of the "
              "selected magazine) and the trace specification requires the recorded sequence to equal the model's (DRIFT otherwise). "
              "Non-trivial = distinct (stream, options)."),
        assumptions=["the astits muxer/demuxer are trusted for the transport layer; every PES carries a PTS; a row is transmitted once per instance",
                     "arrow / dash / double-bar positions of the English and Italian sub-sets accept the common look-alike substitutes (TeletextTables.tla)",
                     "a row containing a parity error is compared on its text only (the statement does not say how it splits runs)"],
        nontrivial=lambda ev: True,
        key=lambda ev: [ev["st"], ev["op"], ev["pidopt"]],
    ))


def keying_stats(traces):
    """C19: events per way the style / region maps are keyed (0 own ID, 1 foreign keys, 2 foreign keys with a shared ID)."""
    out = {}
    for t in traces:
        with open(t) as f:
            for line in f:
                k = str(json.loads(line).get("keys", 0))
                out[k] = out.get(k, 0) + 1
    return out


NEGATIVE_MODELS = [("ScannerMC", "MC_Scanner_pinCR.cfg"), ("ScannerMC", "MC_Scanner_pinERR.cfg"), ("ScannerMC", "MC_ScannerBlocks_pinBLK.cfg"),
                   ("Writers", "MC_Writers_pin.cfg"), ("Writers", "MC_Writers_names.cfg"), ("Conc", "MC_Conc_leaky.cfg"), ("MC_OpsImpl", "MC_OpsImpl_optimize_pinned.cfg")]


def selftest(pid, tier, seed, scratch, replay):
    """Demonstrates the binding of every trace specification: each property's quick check is run, and after each
    trace validation one accepted trace file is re-validated with a single observed field corrupted; the trace
    specification must flag exactly that event."""
    global SELFTEST
    SELFTEST = {"results": []}
    rcs = {}
    try:
        for p in sorted(REGISTRY):
            rcs[p] = REGISTRY[p](p, "quick", seed, scratch, None)
        res = SELFTEST["results"]
    finally:
        SELFTEST = None
    # the properties of the bounded models are not vacuous: the model of the pinned (defective) behaviour violates them
    for module, cfg in NEGATIVE_MODELS:
        r = tlc(scratch, module, cfg, workers=4, timeout=1500, heap="4g")
        hit = (not r.ok) and ("is violated" in r.out or "was violated" in r.out or "were violated" in r.out)
        res.append({"module": "model:" + cfg, "line": 0, "corruption": "model of the pinned behaviour", "detected": hit, "tlc_ok": r.ok})
        log("selftest %s/%s (pinned behaviour): %s" % (module, cfg, "property violated, as it must be" if hit else "NOT violated"))
    mods = sorted(set(r["module"] for r in res))
    bad = [r for r in res if not r["detected"]]
    for m in mods:
        rs = [r for r in res if r["module"] == m]
        print("SELFTEST %s: %d corruption(s), %d rejected" % (m, len(rs), sum(1 for r in rs if r["detected"])), flush=True)
    json.dump({"results": res, "check_exit_codes": rcs}, open(os.path.join(vlib.VERIF, "selftest_result.json"), "w"), indent=1)
    if bad or any(rcs.values()):
        for r in bad:
            print("SELFTEST-FAILED %s event %d (%s) was accepted" % (r["module"], r["line"], r["corruption"]), flush=True)
        return 2
    print("SELFTEST OK: %d trace specifications, %d corrupted events rejected" % (len(mods), len(res)), flush=True)
    return 0


# ------------------------------------------------------------------------------------------------
# C07: conversion sessions (file API and command-line tool)
# ------------------------------------------------------------------------------------------------

def session_scope_stats(traces):
    """How many histories stayed inside the statement's provisos, per (source, destination) pair."""
    per, why = {}, {}
    for tr in traces:
        hist = {}
        with open(tr) as f:
            for line in f:
                ev = json.loads(line)
                hist.setdefault(ev["n"], []).append(ev)
        for h in hist.values():
            src = [e for e in h if e["ev"] == "source"]
            w = [e for e in h if e["ev"] in ("write", "cli")]
            if not src or not w:
                why["ended-before-write"] = why.get("ended-before-write", 0) + 1
                continue
            dst = w[-1]["ext"]
            norep = set(x for e in src for x in e["norep"])
            reason = None
            if any(e["res"] != "ok" for e in src):
                reason = "source-unreadable"
            elif not all(e.get("grid", True) for e in h):
                reason = "off-grid-or-negative"
            elif any(e["ev"] == "budget" for e in h):
                reason = "over-budget"
            elif dst in norep:
                reason = "text-not-representable"
            k = "%s->%s/%s" % (src[0]["fmt"], dst, src[0]["entry"])
            a = per.setdefault(k, [0, 0])
            a[1] += 1
            if reason is None:
                a[0] += 1
            else:
                why[reason] = why.get(reason, 0) + 1
    return per, why


@register("C07")
def check_session(pid, tier, seed, scratch, replay):
    import concurrent.futures as cf
    thorough = tier == "thorough"
    rep = Report(pid, tier, seed)
    rep.rule = ("spec/Session.tla: state machine over (disk: file -> denoted cue list and frame rate, mem, fps, res) with steps Open / Apply / "
                "Write (file API) and Cli (one run of the tool = Open;Apply;Write); TLC model-checks it (SessionMC: 2 sources x 6 output "
                "files incl. an unsupported extension, lists of <=2 cues, all histories of <=3 steps (thorough: 4 steps, 6*10^7 states)) for truncation "
                "faithfulness, order, idempotent re-conversion, failed writes leaving no document, the tool touching only its output. "
                "GenSession enumerates the histories replayed on the real code: every (source format, destination format) in 7x6 x every "
                "operation sequence of length <=1 over 11 parametrised operations x both entry points x GEN_ND documents; every letter-case "
                "spelling of every extension; unsupported extensions on either side, lists emptied by the operations, invalid tool flags; "
                "per pair and entry point GEN_NS seeded sequences of length 2..4. Source documents: the repository's samples plus documents "
                "rendered from the C01-C06 generators (styled, metadata-bearing, teletext streams) and lists with touching same-text / "
                "unordered / nested cues written by every writer. Library histories call astisub.Open (also with the STL option that "
                "ignores the programme start), the "
                "methods and Subtitles.Write; tool histories spawn the built astisub binary once per operation, chained through files of "
                "the destination format. Every step logs the list in memory / the written file as re-read by the library; "
                "TraceSession replays the log through Session's machine (each operation against Ops' specification, each write against "
                "truncation to the destination's resolution, errors against the two sentinel errors incl. their precedence). "
                "The anchored mechanism 'cross-format attribute propagation' has its own module, spec/StyleProp.tla (the propagate* functions, "
                "the readers that call them and what the five writers make of the result, as functions Read / Write on the observed part of "
                "StyleAttributes); TLC checks its laws (StylePropMC: a written file is a fixpoint, same-format conversion keeps the look, the "
                "survival / loss table) and enumerates every (source, destination, look) for 5x5 formats; `drive styleprop` converts a one-cue "
                "document carrying the look, and TraceStyleProp demands success, one cue, same text and times (C07) and compares the looks "
                "after the first read and after the read-back with the model (a difference there is impl-model drift, not a violation: "
                "the statement does not speak about styling). "
                "Non-trivial = distinct histories that reached a write, and conversions between different formats.")
    rep.assumptions = ["the reference content of a source file is what its format's reader returns (decided by C01-C06 on the same generators)",
                       "instants are compared on a 1/3 ms grid (ms, 1/25 s and 1/30 s frames); a history with an instant off the grid, negative, or "
                       "beyond the model's 32-bit range leaves the scope (counted in scope_exclusions)",
                       "representable: every character has an EBU Latin code and the cue fits a TTI block (STL); no brace or backslash (SSA/ASS)",
                       "linear correction inside sessions uses integral slopes (general slopes are C15's); operations on more than 80 cues or fragmenting into more than 120 pieces are skipped (over-budget)",
                       "text = per line the runs concatenated with white space removed; voice names, styling and metadata are not compared here"]
    drive = vlib.build_harness(scratch)
    cli = vlib.build_cli(scratch)
    docs = gen_docs(scratch, seed)
    sets = [("one", dict(GEN_ND=6 if thorough else 2)), ("case", {}), ("err", {}),
            ("long", dict(GEN_NS=60 if thorough else 8, GEN_K=4, GEN_SEED=seed))]

    def run_set(i):
        name, env = sets[i]
        out = scratch.path("sess.%s.ndjson" % name)
        e = dict(env)
        e.update(GEN_SET=name, GEN_OUT=out)
        require_ok(tlc(scratch, "GenSession", "GenSession.cfg", env=e, heap="2g", timeout=1500), "GenSession " + name)
        tr = scratch.path("trace.session.%s.ndjson" % name)
        vlib.run_drive(drive, ["session", "-cases", out, "-out", tr, "-cli", cli, "-extra", docs, "-seed", str(seed + i),
                               "-n0", str(i * 10000000), "-workers", "8"], timeout=3000)
        return tr

    def run_styleprop():
        # the anchored mechanism "cross-format attribute propagation": every (source, destination, look) of StyleProp.tla
        out = scratch.path("styleprop.cases.ndjson")
        require_ok(tlc(scratch, "GenStyleProp", "GenStyleProp.cfg", env=dict(GEN_OUT=out), heap="1g", timeout=900), "GenStyleProp")
        tr = scratch.path("trace.styleprop.ndjson")
        vlib.run_drive(drive, ["styleprop", "-cases", out, "-out", tr], timeout=900)
        return tr

    with cf.ThreadPoolExecutor(max_workers=vlib.NCPU) as ex:
        c = "MC_Session_T.cfg" if thorough else "MC_Session.cfg"
        mc = ex.submit(lambda: require_ok(tlc(scratch, "SessionMC", c, workers=8 if thorough else 6, timeout=3000, heap="8g"), c))
        mc2 = ex.submit(lambda: require_ok(tlc(scratch, "StylePropMC", "MC_StyleProp.cfg", workers=1, timeout=900, heap="1g"), "MC_StyleProp.cfg"))
        sp = ex.submit(run_styleprop)
        traces = [f.result() for f in [ex.submit(run_set, i) for i in range(len(sets))]]
        vals = validate(ex, scratch, traces, "TraceSession", "TraceSession.cfg", per_jvm=1500)
        vals2 = validate(ex, scratch, [sp.result()], "TraceStyleProp", "TraceStyleProp.cfg", per_jvm=1500)
        rep.add_mc(c, mc.result())
        rep.add_mc("MC_StyleProp.cfg", mc2.result())
    collect(rep, vals, pid, nontrivial=lambda ev: ev["ev"] in ("write", "cli"), key=lambda ev: [ev["n"]])
    collect(rep, vals2, pid, nontrivial=lambda ev: ev["src"] != ev["dst"], key=lambda ev: ["styleprop", ev["src"], ev["dst"], ev["x"]], is_first=lambda ev: True)
    rep.extra["attribute_propagation_conversions"] = vlib.count_lines(sp.result())
    per, why = session_scope_stats(traces)
    rep.extra["enumerated_by_tlc"] = sum(vlib.count_lines(scratch.path("sess.%s.ndjson" % n)) for n, _ in sets)
    rep.extra["histories_in_scope"] = sum(a[0] for a in per.values())
    rep.extra["histories_total"] = sum(a[1] for a in per.values())
    rep.extra["scope_exclusions"] = why
    rep.extra["pair_entry_combinations_with_in_scope_history"] = sum(1 for a in per.values() if a[0])
    rep.extra["pair_entry_combinations"] = len(per)
    rep.extra["least_covered"] = dict(sorted(((k, a[0]) for k, a in per.items()), key=lambda x: x[1])[:5])
    rep.extra["source_documents"] = len(os.listdir(docs))
    if any(a[0] == 0 for a in per.values()):
        raise Infra("vacuous: a (source, destination, entry) combination has no history in scope: %s" % [k for k, a in per.items() if not a[0]])
    return rep.finish()
