SPECIFICATION Spec
CONSTANT FAM = "F"
INVARIANT DecoderCorrect
CHECK_DEADLOCK FALSE
