------------------------------ MODULE TimeLaws ------------------------------
(* Unbounded laws of the time arithmetic the checks rely on, discharged by Apalache (SMT) for every instant, not
   only for the instants TLC enumerates:
   - C16: the mixed-radix rendering of an instant of ms milliseconds into hours : minutes : seconds . fraction
     (fraction digits 3 or 2) has every field in range, recomposes to the instant truncated to the fraction's
     resolution, and is monotone;
   - C07: truncation to a format's quantum q is idempotent, never later than the instant and less than q earlier. *)
EXTENDS Integers

VARIABLES
  \* @type: Int;
  ms,
  \* @type: Int;
  ms2,
  \* @type: Int;
  q

H(x) == x \div 3600000
M(x) == (x \div 60000) % 60
S(x) == (x \div 1000) % 60
F3(x) == x % 1000            \* milliseconds field (SRT, WebVTT, TTML)
F2(x) == (x % 1000) \div 10  \* centiseconds field (SSA)
Recompose3(x) == ((H(x) * 60 + M(x)) * 60 + S(x)) * 1000 + F3(x)
Recompose2(x) == ((H(x) * 60 + M(x)) * 60 + S(x)) * 1000 + F2(x) * 10
Trunc(x, k) == (x \div k) * k

Init == ms \in Int /\ ms >= 0 /\ ms2 \in Int /\ ms2 >= ms /\ q \in {3, 30, 100, 120}
Next == UNCHANGED <<ms, ms2, q>>

FieldsInRange == M(ms) \in 0..59 /\ S(ms) \in 0..59 /\ F3(ms) \in 0..999 /\ F2(ms) \in 0..99 /\ H(ms) >= 0
RoundTrip == Recompose3(ms) = ms /\ Recompose2(ms) = Trunc(ms, 10)
\* rendering is monotone: a later instant never renders to a smaller field tuple (compared as the recomposed value)
Monotone == Recompose3(ms) <= Recompose3(ms2) /\ Recompose2(ms) <= Recompose2(ms2)
TruncLaws == /\ Trunc(Trunc(ms, q), q) = Trunc(ms, q)
             /\ Trunc(ms, q) <= ms /\ ms - Trunc(ms, q) < q
             /\ Trunc(ms, q) <= Trunc(ms2, q)
Laws == FieldsInRange /\ RoundTrip /\ Monotone /\ TruncLaws
=============================================================================
