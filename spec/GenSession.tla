----------------------------- MODULE GenSession -----------------------------
(* History generation for C07.  A history = [src, srcext, dst, dstext, ops, entry, doc, doc2]:
   Open(in<srcext>) ; ops ; Write(out<dstext>), through the file API ("lib") or the command-line tool ("cli", one
   process per operation).  src / dst name the format of the content; srcext / dstext the spelling of the
   extension in the file name (every letter case; unsupported extensions for the error histories);
   doc / doc2 select the source documents (the second one is merged in by "merge").

   GEN_SET = "one"  : every pair x every op sequence of length <= 1 x both entries x GEN_ND documents
             "case" : every pair x every spelling of the extensions, no operation
             "err"  : unsupported extensions on either side, operations that empty the list
             "long" : per pair and entry GEN_NS sequences of length 2..GEN_K drawn with GEN_SEED *)
EXTENDS Integers, Sequences, FiniteSets, SequencesExt, Json, IOUtils, TLC
Env(n, dflt) == IF n \in DOMAIN IOEnv THEN atoi(IOEnv[n]) ELSE dflt
gSet == IF "GEN_SET" \in DOMAIN IOEnv THEN IOEnv.GEN_SET ELSE "one"
gND == Env("GEN_ND", 2)
gNS == Env("GEN_NS", 2)
gK == Env("GEN_K", 4)
gSeed == Env("GEN_SEED", 1)
gP == Env("GEN_PART", 0)
gPS == Env("GEN_PARTS", 1)

Srcs == <<"srt", "ssa", "ass", "stl", "ttml", "vtt", "ts">>
Dsts == <<"srt", "ssa", "ass", "stl", "ttml", "vtt">>
Canon == [srt |-> ".srt", ssa |-> ".ssa", ass |-> ".ass", stl |-> ".stl", ttml |-> ".ttml", vtt |-> ".vtt", ts |-> ".ts"]
Spell == [srt |-> <<".SRT", ".Srt", ".sRt">>, ssa |-> <<".SSA", ".Ssa">>, ass |-> <<".ASS", ".aSs">>, stl |-> <<".STL", ".Stl">>,
          ttml |-> <<".TTML", ".Ttml", ".ttML">>, vtt |-> <<".VTT", ".vTT">>, ts |-> <<".TS", ".Ts">>]
Bad == <<".txt", "", ".sub", ".srt.bak", ".vtt2">>

Op(n, a) == [name |-> n, a |-> a]
Alphabet == << Op("sync", <<500>>), Op("sync", <<-300>>), Op("sync", <<1234>>), Op("fragment", <<1000>>), Op("fragment", <<700>>),
               Op("unfragment", <<>>), Op("merge", <<>>), Op("optimize", <<>>), Op("order", <<>>),
               Op("linear", <<1000, 2000, 2000, 4000>>), Op("linear", <<1000, 1500, 3000, 3500>>) >>
Emptying == Op("sync", <<-360000000>>)     \* -100 h: removes every cue
InvalidFlags == <<Op("sync", <<0>>), Op("fragment", <<0>>), Op("linear", <<0, 1000, 2000, 3000>>)>>
CliOK(ops) == \A i \in DOMAIN ops : ops[i].name # "order"

H(s, se, d, de, ops, en, k, k2) == [src |-> s, srcext |-> se, dst |-> d, dstext |-> de, ops |-> ops, entry |-> en, doc |-> k, doc2 |-> k2, ign |-> FALSE]
\* the same history with the STL option "ignore the timecode start of programme" handed to Open (file API only)
Ign(h) == [h EXCEPT !.ign = TRUE]
Entries == {"lib", "cli"}
Rng(q) == {q[i] : i \in DOMAIN q}

One(z) == {H(s, Canon[s], d, Canon[d], ops, en, k, k + 1) :
             s \in Rng(Srcs), d \in Rng(Dsts), ops \in {<<>>} \cup {<<Alphabet[i]>> : i \in DOMAIN Alphabet}, en \in Entries, k \in 0..(gND - 1)}
Case(z) == UNION {{H(s, se, d, de, <<>>, en, 0, 1) : se \in Rng(Spell[s]), de \in Rng(Spell[d]), en \in Entries} : s \in Rng(Srcs), d \in Rng(Dsts)}
Err(z) == {H(s, se, d, Canon[d], <<>>, en, 0, 1) : s \in Rng(Srcs), se \in Rng(Bad), d \in {"srt", "stl"}, en \in Entries}
          \cup {H(s, Canon[s], d, de, ops, en, 0, 1) : s \in Rng(Srcs), d \in Rng(Dsts), de \in Rng(Bad) \cup {".ts"}, ops \in {<<>>, <<Emptying>>}, en \in Entries}
          \cup {H(s, Canon[s], d, Canon[d], ops, en, 0, 1) : s \in Rng(Srcs), d \in Rng(Dsts),
                  ops \in {<<Emptying>>, <<Alphabet[1], Emptying>>, <<Emptying, Alphabet[6]>>}, en \in Entries}
          \cup {H(s, Canon[s], d, Canon[d], <<InvalidFlags[i]>>, "cli", 0, 1) : s \in {"srt", "stl"}, d \in {"vtt", "ttml"}, i \in DOMAIN InvalidFlags}
          \cup {Ign(H("stl", ".stl", d, Canon[d], ops, "lib", k, k + 1)) : d \in Rng(Dsts), ops \in {<<>>, <<Alphabet[1]>>}, k \in 0..5}

\* pseudo-random operation sequences: a linear congruential walk seeded by (GEN_SEED, pair, entry, j)
NA == Len(Alphabet)
Draw(x) == (x * 1103 + 12345) % 65521
RECURSIVE Walk(_, _)
Walk(x, n) == IF n = 0 THEN <<>> ELSE <<Alphabet[(x % NA) + 1]>> \o Walk(Draw(x), n - 1)
LongOf(si, di, e, j) ==
  LET x0 == Draw(Draw(gSeed * 7919 + si * 131 + di * 17 + e * 5 + j * 1009) + j)
      n == 2 + (x0 % (gK - 1))
  IN  Walk(Draw(x0), n)
Long(z) == {H(Srcs[si], Canon[Srcs[si]], Dsts[di], Canon[Dsts[di]], LongOf(si, di, e, j), IF e = 0 THEN "lib" ELSE "cli", j + gSeed, j + 3) :
              si \in DOMAIN Srcs, di \in DOMAIN Dsts, e \in 0..1, j \in 1..gNS}

Keep(h) == (h.entry = "cli" => CliOK(h.ops))
Cases(z) == {h \in (CASE gSet = "one" -> One(z) [] gSet = "case" -> Case(z) [] gSet = "err" -> Err(z) [] gSet = "long" -> Long(z)) : Keep(h)}
Part(S) == LET q == SetToSeq(S) IN {q[i] : i \in {j \in DOMAIN q : j % gPS = gP}}
ASSUME LET cs == Part(Cases(0)) IN ndJsonSerialize(IOEnv.GEN_OUT, SetToSeq(cs)) /\ PrintT(<<"GENERATED", "session", gSet, Cardinality(cs)>>)
VARIABLE x
Init == x = 0
Next == UNCHANGED x
=============================================================================
