------------------------------ MODULE Totality ------------------------------
(***************************************************************************)
(* C08: totality. Every reader maps every input to {ok, err}; every writer *)
(* maps every value of the public types to {ok, err} - never "panic",      *)
(* never "timeout".                                                        *)
(* The input space is described here and enumerated by TLC:                *)
(*  - per text format an alphabet of physical-line tokens that contains    *)
(*    the well-formed kinds AND malformed ones (timing line without end /  *)
(*    start, bare arrow, short rows, rows before Format, unknown           *)
(*    references, bad numbers ...); documents = every token sequence of    *)
(*    length <= K                                                          *)
(*  - for STL field-level mutations of a valid GSI / TTI block             *)
(*  - Shapes: the lattice of public-type values in which every optional    *)
(*    part is present or absent, x text classes                            *)
(* (byte-level truncations / splices of valid documents and random junk    *)
(*  are produced by the harness and labelled as exploration)               *)
(***************************************************************************)
EXTENDS Integers, Sequences, FiniteSets, SequencesExt, TLC

Alphabet(fmt) ==
  CASE fmt = "srt" -> {"idx", "junk", "blank", "timing", "timing-noend", "timing-nostart", "timing-bad", "arrow", "text", "text-tags", "text-arrow", "bom", "timing-2arrows"}
    [] fmt = "vtt" -> {"header", "header-bad", "blank", "note", "note-bare", "style", "css", "css-open", "region", "region-bad", "id", "timing",
                       "timing-noend", "timing-nostart", "timing-badset", "timing-unkregion", "tsmap", "tsmap-bad", "text", "text-unbalanced", "text-v", "text-ts", "timing-2arrows"}
    [] fmt = "ssa" -> {"sec-info", "sec-styles", "sec-events", "sec-unknown", "info", "info-badnum", "comment", "junk", "colon-only", "format-style", "format-event",
                       "format-empty", "style", "style-short", "style-long", "style-badnum", "dialogue", "dialogue-short", "dialogue-badtime", "comment-event", "blank"}
    [] fmt = "ttml" -> {"p", "p-nobegin", "p-noend", "p-notimes", "p-badtime", "p-unkstyle", "p-unkregion", "p-span", "p-span-unkstyle", "p-br", "p-nested", "p-empty",
                        "style", "style-unkparent", "style-selfparent", "region", "region-unkstyle", "meta", "junk-element", "style-1token",
                        "style-1token-tb", "region-1token-tb", "p-1token-tb", "style-3token-tb"}

RECURSIVE SeqsUpTo(_, _)
SeqsUpTo(A, k) == IF k = 0 THEN {<<>>} ELSE LET S == SeqsUpTo(A, k - 1) IN S \cup {Append(s, a) : s \in {x \in S : Len(x) = k - 1}, a \in A}

\* STL: mutations of a valid file: [field, value-class]
StlMutations ==
  {[f |-> f, v |-> v] : f \in {"dfc", "dsc", "cct", "lc", "cd", "rd", "rn", "tnb", "tns", "tng", "mnc", "mnr", "tcp", "tcf", "tnd", "dsn"},
                        v \in {"blank", "letters", "zero", "max", "ff", "half-blank", "lead-blank", "negative", "plus-sign"}}
  \cup {[f |-> f, v |-> v] : f \in {"tti-ebn", "tti-tci", "tti-tco", "tti-vp", "tti-jc", "tti-cf", "tti-text"},
                             v \in {"zero", "ff", "control", "accent-first", "accent-last", "rowbreaks", "full"}}
  \cup {[f |-> "size", v |-> v] : v \in {"empty", "gsi-short", "gsi-only", "tti-short", "tti-plus-one"}}

\* Shapes: optional parts of a cue list (0 = absent / nil; styles / regions 4: a map that also holds a nil entry); rinl 2..5: two neighbouring runs whose WebVTT tag stacks share
\* a tag name while the class list of one is a strict prefix of the other's (either way round), or differ in depth
Shapes ==
  [meta : 0..1, styles : 0..4, regions : 0..4, iinl : 0..1, istyle : 0..2, iregion : 0..2, lines : 0..2, rinl : 0..5, rstyle : 0..1,
   text : 0..11, stlpos : 0..1, tsmap : 0..1]

\* the normative statement, evaluated on every recorded call
\* "demuxer-crash": the third-party transport-stream demultiplexer itself panicked; the statement excludes
\* those streams ("every stream that the demultiplexer gets through without itself crashing")
Total(res) == res \in {"ok", "err", "demuxer-crash"}
=============================================================================
