------------------------------ MODULE Scanner ------------------------------
(***************************************************************************)
(* C17 / C18: the line scanner (subtitles.go:newScanner split function     *)
(* driven by bufio.Scanner.Scan) and the STL block reader                  *)
(* (stl.go:readNBytes) under every delivery schedule and every fault.      *)
(*                                                                         *)
(* Documents are sequences over {"c" (CR), "l" (LF), "x" (any other byte)};*)
(* a line is identified by its number of x's.                              *)
(*                                                                         *)
(* Normative layer: Lines(doc), Blocks(doc, B).                            *)
(* Implementation layer: Split / Drain / Deliver transcribe the code; the  *)
(* flags say which variant is modelled:                                    *)
(*   CR_WAITS    split function asks for more data when the buffer ends in *)
(*               CR and the stream is not at EOF (current tree: TRUE;      *)
(*               pinned commit: FALSE)                                     *)
(*   CHECKS_ERR  the line readers return scanner.Err() (current: TRUE)     *)
(*   BLOCK_LOOPS readNBytes loops until the block is full (current: TRUE)  *)
(* The same step function drives the state machine (model checking: the    *)
(* environment picks every read size / EOF-with-data / fault) and the fold *)
(* Run(doc, sched) that predicts the real code on a recorded schedule.     *)
(***************************************************************************)
EXTENDS Integers, Sequences, FiniteSets, TLC

CONSTANTS CR_WAITS, CHECKS_ERR, BLOCK_LOOPS,
          MAXTOK     \* bufio's maximum token size (model scale)

Sym == {"c", "l", "x"}

---------------------------------------------------------------------------
(* Normative: the lines a byte sequence denotes *)
RECURSIVE LinesFrom(_, _)
\* cur = number of x's seen in the current line
LinesFrom(doc, cur) ==
  IF doc = <<>> THEN (IF cur > 0 THEN <<cur>> ELSE <<>>)
  ELSE IF Head(doc) = "x" THEN LinesFrom(Tail(doc), cur + 1)
  ELSE IF Head(doc) = "l" THEN <<cur>> \o LinesFrom(Tail(doc), 0)
  ELSE \* CR, possibly followed by LF
       IF Len(doc) >= 2 /\ doc[2] = "l" THEN <<cur>> \o LinesFrom(Tail(Tail(doc)), 0)
       ELSE <<cur>> \o LinesFrom(Tail(doc), 0)
Lines(doc) == LinesFrom(doc, 0)

MaxLine(doc) == LET ls == Lines(doc) IN IF ls = <<>> THEN 0 ELSE CHOOSE m \in {ls[i] : i \in DOMAIN ls} : \A i \in DOMAIN ls : ls[i] <= m
\* every line, with its terminator, fits the scanner's buffer whatever the schedule
Fits(doc) == MaxLine(doc) + 2 <= MAXTOK

---------------------------------------------------------------------------
(* Implementation layer: subtitles.go:newScanner *)
FirstBreak(data) == IF \E i \in DOMAIN data : data[i] # "x"
                    THEN CHOOSE i \in DOMAIN data : data[i] # "x" /\ \A j \in 1..(i - 1) : data[j] = "x"
                    ELSE 0

\* result of the split function: [adv, has, line]
Split(data, atEOF) ==
  LET i == FirstBreak(data) IN
  IF atEOF /\ data = <<>> THEN [adv |-> 0, has |-> FALSE, line |-> 0]
  ELSE IF i > 0 THEN
         IF data[i] = "l" THEN [adv |-> i, has |-> TRUE, line |-> i - 1]
         ELSE IF CR_WAITS /\ i = Len(data) /\ ~atEOF THEN [adv |-> 0, has |-> FALSE, line |-> 0]
         ELSE [adv |-> (IF i < Len(data) /\ data[i + 1] = "l" THEN i + 1 ELSE i), has |-> TRUE, line |-> i - 1]
  ELSE IF atEOF THEN [adv |-> Len(data), has |-> TRUE, line |-> Len(data)]
  ELSE [adv |-> 0, has |-> FALSE, line |-> 0]

\* scanner state: buf = unconsumed buffered bytes, seen = what the last Read reported,
\* out = tokens returned so far, err = Scanner.Err(), zeros = consecutive empty reads
InitScan == [buf |-> <<>>, seen |-> "no", out |-> <<>>, err |-> "nil", done |-> FALSE, zeros |-> 0]

\* bufio.Scanner.Scan called repeatedly until it needs the reader again (or finishes)
RECURSIVE Drain(_)
Drain(st) ==
  LET atEOF == st.seen # "no"
      r == Split(st.buf, atEOF)
  IN  IF (st.buf # <<>> \/ atEOF) /\ r.has
      THEN Drain([st EXCEPT !.buf = SubSeq(st.buf, r.adv + 1, Len(st.buf)), !.out = Append(st.out, r.line)])
      ELSE IF atEOF THEN [st EXCEPT !.done = TRUE, !.err = IF st.seen = "fail" THEN "fail" ELSE st.err]
      ELSE IF Len(st.buf) >= MAXTOK THEN [st EXCEPT !.done = TRUE, !.err = "toolong"]
      ELSE st

\* one Read of the underlying stream delivering bytes with kind k in {"ok","eof","fail"}
Deliver(st, bytes, k) ==
  IF bytes = <<>> /\ k = "ok"
  THEN IF st.zeros + 1 >= 100 THEN [st EXCEPT !.done = TRUE, !.err = "noprogress"] ELSE [st EXCEPT !.zeros = st.zeros + 1]
  ELSE Drain([st EXCEPT !.buf = st.buf \o bytes, !.seen = IF k = "ok" THEN "no" ELSE k, !.zeros = 0])


Space(st) == MAXTOK - Len(st.buf)

\* fold over a recorded schedule: sched = sequence of [n, k]; the harness's reader answers (0, EOF) once the
\* schedule is exhausted, and hands out at most the space the scanner offers
RECURSIVE RunFrom(_, _, _)
RunFrom(st, rest, sched) ==
  IF st.done THEN st
  ELSE IF sched = <<>> THEN
         \* schedule exhausted: the harness's reader hands out what is left in full reads, then (0, EOF)
         IF rest = <<>> THEN RunFrom(Deliver(st, <<>>, "eof"), rest, <<>>)
         ELSE LET m == IF Len(rest) <= Space(st) THEN Len(rest) ELSE Space(st)
              IN  RunFrom(Deliver(st, SubSeq(rest, 1, m), "ok"), SubSeq(rest, m + 1, Len(rest)), <<>>)
  ELSE LET n1 == IF Head(sched).n <= Len(rest) THEN Head(sched).n ELSE Len(rest)
       IN  IF n1 > Space(st)
           THEN LET m == Space(st) IN
                RunFrom(Deliver(st, SubSeq(rest, 1, m), "ok"), SubSeq(rest, m + 1, Len(rest)),
                        <<[n |-> n1 - m, k |-> Head(sched).k]>> \o Tail(sched))
           ELSE RunFrom(Deliver(st, SubSeq(rest, 1, n1), Head(sched).k), SubSeq(rest, n1 + 1, Len(rest)), Tail(sched))
Run(doc, sched) == RunFrom(InitScan, doc, sched)

\* what a line-based reader hands to its caller
ReaderErr(st) == IF CHECKS_ERR THEN st.err ELSE "nil"

---------------------------------------------------------------------------
(* Delivery schedules: sequences of [n, k], k in {"ok", "eof", "fail"} *)
RECURSIVE Comps(_)
Comps(n) == IF n = 0 THEN {<<>>} ELSE UNION {{<<k>> \o c : c \in Comps(n - k)} : k \in 1..n}

Base(c) == [i \in DOMAIN c |-> [n |-> c[i], k |-> "ok"]]
InsertZero(s, p) == SubSeq(s, 1, p - 1) \o <<[n |-> 0, k |-> "ok"]>> \o SubSeq(s, p, Len(s))

\* fault-free schedules for a document of length len: every composition, the last read optionally carrying
\* EOF together with its data, optionally one zero-length read anywhere
CleanScheds(len) ==
  UNION {LET b == Base(c) IN
         {b} \cup (IF c = <<>> THEN {} ELSE {[b EXCEPT ![Len(b)].k = "eof"]})
             \cup {InsertZero(b, p) : p \in 1..(Len(b) + 1)} : c \in Comps(len)}

\* schedules with a non-EOF error at byte offset f (with or without data in the failing read)
FaultScheds(len) ==
  UNION {UNION {LET b == Base(c) IN
                {b \o <<[n |-> 0, k |-> "fail"]>>} \cup (IF c = <<>> THEN {} ELSE {[b EXCEPT ![Len(b)].k = "fail"]})
                : c \in Comps(f)} : f \in 0..len}

HasFail(sched) == \E i \in DOMAIN sched : sched[i].k = "fail"

---------------------------------------------------------------------------
(* Block reader: stl.go:readNBytes(B) called until EOF; doc is a byte count here *)
\* normative: complete blocks, then either clean EOF or an error for a trailing partial block
BlocksOf(len, B) == [n |-> len \div B, err |-> IF len % B = 0 THEN "nil" ELSE "short"]

\* one call of readNBytes against a stream that still holds rest bytes, under a schedule of reads;
\* returns [got, err, rest, sched]
RECURSIVE ReadBlock(_, _, _, _)
ReadBlock(rest, B, have, sched) ==
  IF have = B THEN [got |-> TRUE, err |-> "nil", rest |-> rest, sched |-> sched]
  ELSE IF sched = <<>> THEN
         \* schedule exhausted: what is left comes in full reads, then (0, EOF)
         IF rest > 0 THEN LET m == IF rest <= B - have THEN rest ELSE B - have
                          IN  IF BLOCK_LOOPS \/ have + m = B THEN ReadBlock(rest - m, B, have + m, <<>>)
                              ELSE [got |-> FALSE, err |-> "short", rest |-> rest - m, sched |-> sched]
         ELSE [got |-> FALSE, err |-> IF have = 0 THEN "eof" ELSE "short", rest |-> rest, sched |-> sched]
  ELSE LET want == B - have
           n0 == IF Head(sched).n <= rest THEN Head(sched).n ELSE rest
       IN
       IF n0 > want THEN
         \* the read offers less room than the step holds: the stream hands out `want` bytes without
         \* its end-of-step status and keeps the remainder of the step
         ReadBlock(rest - want, B, B, <<[n |-> n0 - want, k |-> Head(sched).k]>> \o Tail(sched))
       ELSE
       LET n == n0
           k == Head(sched).k
           sticky == <<[n |-> 0, k |-> "fail"]>>   \* a failed stream keeps failing
       IN  IF k = "fail" THEN
             \* io.ReadFull drops the error of a read that completes the block; the next call sees it
             IF BLOCK_LOOPS /\ have + n = B THEN [got |-> TRUE, err |-> "nil", rest |-> rest - n, sched |-> sticky]
             ELSE [got |-> FALSE, err |-> "fail", rest |-> rest - n, sched |-> sticky]
           ELSE IF BLOCK_LOOPS THEN
                  IF k = "eof" THEN
                     IF have + n = B THEN [got |-> TRUE, err |-> "nil", rest |-> rest - n, sched |-> Tail(sched)]
                     ELSE [got |-> FALSE, err |-> IF have + n = 0 THEN "eof" ELSE "short", rest |-> rest - n, sched |-> Tail(sched)]
                  ELSE ReadBlock(rest - n, B, have + n, Tail(sched))
           ELSE \* pinned: a single Read decides
                IF k = "eof" THEN [got |-> FALSE, err |-> "eof", rest |-> rest - n, sched |-> Tail(sched)]
                ELSE IF n = B THEN [got |-> TRUE, err |-> "nil", rest |-> rest - n, sched |-> Tail(sched)]
                ELSE [got |-> FALSE, err |-> "short", rest |-> rest - n, sched |-> Tail(sched)]

RECURSIVE ReadAllBlocks(_, _, _, _)
ReadAllBlocks(rest, B, sched, count) ==
  LET r == ReadBlock(rest, B, 0, sched) IN
  IF r.got THEN ReadAllBlocks(r.rest, B, r.sched, count + 1)
  ELSE [n |-> count, err |-> IF r.err = "eof" THEN "nil" ELSE r.err]
=============================================================================
