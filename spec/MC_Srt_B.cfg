SPECIFICATION Spec
CONSTANTS
  MAXCUES = 1
  FAM = "B"
INVARIANT DecoderCorrect
CHECK_DEADLOCK FALSE
