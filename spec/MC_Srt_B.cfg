SPECIFICATION Spec
CONSTANTS
  MAXCUES = 1
  FAM = "B"
INVARIANTS DecoderCorrect ImplRefines
CHECK_DEADLOCK FALSE
