------------------------------ MODULE MC_BigInt ------------------------------
(* Self-check of BigInt against TLC's native integers: with BASE = 10 every carry / borrow path is
   exercised by small numbers. One state per pair (x,y). *)
EXTENDS Integers, Sequences, TLC
CONSTANT R
B == INSTANCE BigInt WITH BASE <- 10
VARIABLES x, y
Init == x \in (0 - R)..R /\ y \in (0 - R)..R
Next == UNCHANGED <<x, y>>
Laws ==
  LET bx == B!FromInt(x) by == B!FromInt(y) IN
  /\ B!IsBig(bx)
  /\ B!ToInt(bx) = x
  /\ B!ToInt(B!Add(bx, by)) = x + y /\ B!IsBig(B!Add(bx, by))
  /\ B!ToInt(B!Sub(bx, by)) = x - y /\ B!IsBig(B!Sub(bx, by))
  /\ B!ToInt(B!Mul(bx, by)) = x * y /\ B!IsBig(B!Mul(bx, by))
  /\ B!Cmp(bx, by) = (IF x < y THEN -1 ELSE IF x > y THEN 1 ELSE 0)
  /\ B!ToInt(B!Abs(bx)) = (IF x < 0 THEN 0 - x ELSE x)
==============================================================================
