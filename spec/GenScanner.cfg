SPECIFICATION Spec
CONSTANTS
  CR_WAITS = TRUE
  CHECKS_ERR = TRUE
  BLOCK_LOOPS = TRUE
  MAXTOK = 65536
  L = 0
  FAULTS = FALSE
CHECK_DEADLOCK FALSE
