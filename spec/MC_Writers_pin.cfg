SPECIFICATION Spec
CONSTANTS
  SORTED = FALSE
  ATTRS = {1, 2, 3}
  MAXSTYLES = 3
INVARIANT OrderIndependent
CHECK_DEADLOCK FALSE
