---------------------------- MODULE StylePropMC ----------------------------
(* TLC checks the laws of StyleProp on every (source format, destination format, look) of its pools. *)
EXTENDS StyleProp, FiniteSets
ASSUME \A c \in Cases : Stable(c[1], c[2], c[3])
ASSUME \A f \in Fmts : \A x \in AllLooks(f) : SameFormat(f, x)
ASSUME \A c \in Cases : Survives(c[1], c[2], c[3])
\* not vacuous: every conjunct's antecedent occurs, and some look does change
ASSUME \A f \in Fmts : \A g \in Fmts : \E c \in Cases : c[1] = f /\ c[2] = g
ASSUME \E c \in Cases : Out(c[1], c[2], c[3]) # Read(c[1], c[3])
ASSUME PrintT(<<"CHECKED", "styleprop-laws", Cardinality(Cases)>>)
VARIABLE z
Spec == z = 0 /\ [][UNCHANGED z]_z
=============================================================================
