---------------------------- MODULE MC_TimeCodec ----------------------------
(* Laws of TimeCodec on a structured set of instants (every ms of selected seconds, sub-ms remainders at the
   edges): the rendering is canonical, not after the instant, a fixed point, and monotone. *)
EXTENDS TimeCodec, TLC
VARIABLES fmt, fps, t
vars == <<fmt, fps, t>>
Secs == {0, 59, 3599, 3600, 35999, 86399}
Rems == {0, 1, 333333, 333334, 666666, 666667, 999999}
Init == /\ fmt \in {"srt", "vtt", "ttml", "ssa", "stl"}
        /\ fps \in (IF fmt = "stl" THEN {25, 30} ELSE {0})
        /\ \E s \in Secs, ms \in 0..999, r \in Rems : t = <<s * 1000 + ms, r>>
Next == UNCHANGED vars
Succ(x) == IF x[2] = 999999 THEN <<x[1] + 1, 0>> ELSE <<x[1], x[2] + 1>>
Laws == /\ TruncLaw(fmt, fps, t)
        \* monotone: the next nanosecond never renders earlier
        /\ Leq(ValueOf(fmt, fps, Render(fmt, fps, t)), ValueOf(fmt, fps, Render(fmt, fps, Succ(t))))
        \* latest representable: the next representable value is after t
        /\ LET f == Render(fmt, fps, t) v == ValueOf(fmt, fps, f) IN BackOK(fmt, fps, f, v)
=============================================================================
