SPECIFICATION Spec
CONSTANT FAM = "I"
INVARIANT DecoderCorrect
INVARIANT CtlRefines
CHECK_DEADLOCK FALSE
