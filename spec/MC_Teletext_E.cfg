SPECIFICATION Spec
CONSTANT FAM = "E"
INVARIANT DecoderCorrect
CHECK_DEADLOCK FALSE
