SPECIFICATION Spec
CONSTANT FAM = "E"
INVARIANT DecoderCorrect
INVARIANT CtlRefines
CHECK_DEADLOCK FALSE
