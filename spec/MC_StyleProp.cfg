SPECIFICATION Spec
