SPECIFICATION Spec
CONSTANTS
  CLOSES = TRUE
  ALG = "add"
  G = 3
  N = 3
  NT = 2
  DS <- DSq
  FS = {1, 2, 3}
  FD = {1, 2, 3, 4}
  SIDS = {"a", "b", "c"}
  RIDS = {"r"}
INVARIANTS Refines AddInv FragInv UnfragInv OptInv
PROPERTY Terminates
CHECK_DEADLOCK FALSE
