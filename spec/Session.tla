------------------------------ MODULE Session ------------------------------
(***************************************************************************)
(* C07: conversion sessions through the file API and the command-line tool *)
(* (anchors: subtitles.go Open / OpenFile / Subtitles.Write, the five      *)
(* writers, astisub/main.go).                                              *)
(*                                                                         *)
(* State                                                                   *)
(*   disk : file name |-> Blank or [fmt, cues, fps]   what a file denotes  *)
(*   mem  : the cue list held by the program (<<>> before the first Open)  *)
(*   fps  : Metadata.Framerate of the list in memory (0 = unset)           *)
(*   res  : outcome of the last step                                       *)
(* A cue is [s, e, t]: start / end in units of 1/3 ms (the coarsest common *)
(* refinement of milliseconds and of 1/25 s and 1/30 s frames), t = text   *)
(* atom (the cue's text with inter-run white space disregarded).           *)
(*                                                                         *)
(* Steps: Open(f), Apply(op), Write(f) - the file API - and Cli(cmd, f, g) *)
(* = Open(f) ; Apply ; Write(g) in one process.  A file name carries its   *)
(* extension as a separate, already lower-cased component (the statement's *)
(* "case-insensitive"): the concrete spelling belongs to the replay.       *)
(***************************************************************************)
EXTENDS Ops, TLC

ReadFmts  == {"srt", "ssa", "ass", "stl", "ttml", "vtt", "ts"}
WriteFmts == ReadFmts \ {"ts"}

\* raw: what the file denotes when opened with the option "ignore the timecode start of programme" (STL; the same
\* as cues for every other format and for the files the library writes, which the model opens without options)
Blank == [fmt |-> "", cues |-> <<>>, fps |-> 0, raw |-> <<>>]     \* a created but empty (or unreadable) file

---------------------------------------------------------------------------
(* time resolution of the formats: every writer truncates (never rounds) *)
EffFps(fps) == IF fps \in {25, 30} THEN fps ELSE 25          \* newGSIBlock: 25 unless the list says 30
Quantum(fmt, fps) ==
  CASE fmt \in {"srt", "vtt", "ttml"} -> 3                    \* 1 ms
    [] fmt \in {"ssa", "ass"} -> 30                           \* 1 cs
    [] fmt = "stl" -> 3000 \div EffFps(fps)                    \* 1 frame
Trunc(fmt, fps, t) == (t \div Quantum(fmt, fps)) * Quantum(fmt, fps)
TruncCue(fmt, fps, c) == [c EXCEPT !.s = Trunc(fmt, fps, c.s), !.e = Trunc(fmt, fps, c.e)]
TruncAll(fmt, fps, cues) == [i \in DOMAIN cues |-> TruncCue(fmt, fps, cues[i])]

\* what re-opening a written file yields as frame rate
FpsWritten(fmt, fps) == IF fmt = "stl" THEN EffFps(fps) ELSE 0

---------------------------------------------------------------------------
(* the documented operations on [s, e, t] lists; parameters in ms.  Where the operations' own specification
   (Ops) is a relation, so is this *)
U(ms) == 3 * ms

\* exact linear correction (the sessions use integral slopes; general slopes are C15's)
LinearDefined(a) == a[3] > a[1] /\ a[4] > a[2] /\ (a[4] - a[2]) % (a[3] - a[1]) = 0
Slope(a) == (a[4] - a[2]) \div (a[3] - a[1])
LinearItems(items, a) ==
  LET k == Slope(a) b == U(a[2]) - k * U(a[1])
  IN  [i \in DOMAIN items |-> [items[i] EXCEPT !.s = k * items[i].s + b, !.e = k * items[i].e + b]]

UnfragmentSet(items0) ==
  LET items == StableSortByStart(items0) IN
  {[s |-> CompStart(items, K), e |-> CompEnd(items, K), t |-> items[CHOOSE i \in K : TRUE].t] : K \in Components(items)}

\* canonical result
OpResult(op, a, items, second) ==
  CASE op = "convert"    -> items
    [] op = "sync"       -> AddItems(items, U(a[1]))
    [] op = "fragment"   -> StableSortByStart(FlatPieces(items, U(a[1])))
    [] op = "unfragment" -> UnfragmentItems(items)
    [] op = "merge"      -> StableSortByStart(items \o second)
    [] op = "optimize"   -> items
    [] op = "order"      -> StableSortByStart(items)
    [] op = "linear"     -> LinearItems(items, a)

\* the relation: fragment / unfragment fix the result up to the order of cues that start together
SetOfSeq(q) == {q[i] : i \in DOMAIN q}
OpOK(op, a, items, second, post) ==
  CASE op = "fragment"   -> SortedByStart(post) /\ SameBag(post, FlatPieces(items, U(a[1])))
    [] op = "unfragment" -> /\ SortedByStart(post) /\ Len(post) = Cardinality(UnfragmentSet(items))
                            /\ SetOfSeq(post) = UnfragmentSet(items)
    [] OTHER -> post = OpResult(op, a, items, second)

\* same cues, cues that start together possibly listed in another order
SameUpToTies(x, y) == Len(x) = Len(y) /\ SameBag(x, y) /\ \A i \in DOMAIN x : x[i].s = y[i].s

NonNegative(items) == \A i \in DOMAIN items : items[i].s >= 0 /\ items[i].e >= 0

CliCommands == {"convert", "sync", "fragment", "unfragment", "merge", "optimize", "linear"}
\* flag validation of astisub/main.go (log.Fatal before anything is written)
CliFlagsOK(op, a) ==
  CASE op = "sync" -> a[1] # 0
    [] op = "fragment" -> a[1] > 0
    [] op = "linear" -> a[1] > 0 /\ a[2] > 0 /\ a[3] > 0 /\ a[4] > 0
    [] OTHER -> TRUE

---------------------------------------------------------------------------
(* outcomes *)
OpenRes(d, f, ext) ==
  IF f \notin DOMAIN d THEN "err"                              \* os.Open fails first
  ELSE IF ext \notin ReadFmts THEN "invalid-extension"
  ELSE IF d[f] = Blank THEN "unspecified"
  ELSE "ok"

WriteRes(ext, items) ==
  IF ext \notin WriteFmts THEN "invalid-extension"              \* the extension is looked at before the list
  ELSE IF items = <<>> THEN "nothing-to-write"
  ELSE "ok"

Written(ext, fps, items) == [fmt |-> ext, cues |-> TruncAll(ext, fps, items), fps |-> FpsWritten(ext, fps), raw |-> TruncAll(ext, fps, items)]

\* os.Create comes first: a failed Write leaves an empty file behind
DiskAfterWrite(d, f, ext, fps, items) ==
  (f :> (IF WriteRes(ext, items) = "ok" THEN Written(ext, fps, items) ELSE Blank)) @@ d

---------------------------------------------------------------------------
(* the state machine *)
VARIABLES disk, mem, fps, res
svars == <<disk, mem, fps, res>>

\* opt: Options.STL.IgnoreTimecodeStartOfProgramme (Open hands the options to the STL reader)
Open(f, ext, opt) ==
  /\ res' = OpenRes(disk, f, ext)
  /\ IF res' = "ok" THEN mem' = (IF opt /\ ext = "stl" THEN disk[f].raw ELSE disk[f].cues) /\ fps' = disk[f].fps ELSE UNCHANGED <<mem, fps>>
  /\ UNCHANGED disk

Apply(op, a, second) ==
  /\ res \in {"ok"}
  /\ mem' = OpResult(op, a, mem, second)
  /\ UNCHANGED <<disk, fps, res>>

Write(f, ext) ==
  /\ res' = WriteRes(ext, mem)
  /\ disk' = DiskAfterWrite(disk, f, ext, fps, mem)
  /\ UNCHANGED <<mem, fps>>

\* one run of the command-line tool; the process's memory is gone afterwards
Cli(op, a, f, fext, f2, g, gext) ==
  LET r1 == OpenRes(disk, f, fext)
      r2 == IF op = "merge" THEN OpenRes(disk, f2, fext) ELSE "ok"
      second == IF op = "merge" /\ r2 = "ok" THEN disk[f2].cues ELSE <<>>
      mid == OpResult(op, a, disk[f].cues, second)
  IN  /\ UNCHANGED <<mem, fps>>
      /\ IF r1 # "ok" THEN res' = r1 /\ UNCHANGED disk
         ELSE IF ~CliFlagsOK(op, a) THEN res' = "err" /\ UNCHANGED disk
         ELSE IF r2 # "ok" THEN res' = r2 /\ UNCHANGED disk
         ELSE /\ res' = WriteRes(gext, mid)
              /\ disk' = DiskAfterWrite(disk, g, gext, disk[f].fps, mid)

---------------------------------------------------------------------------
(* what the statement promises, as state / action properties of the machine *)
FileOK(d) == d = Blank \/ (d.cues # <<>> /\ d.fmt \in ReadFmts)
OnGrid(d) == d.fmt \in WriteFmts =>
               \A i \in DOMAIN d.cues : d.cues[i].s % Quantum(d.fmt, d.fps) = 0 /\ d.cues[i].e % Quantum(d.fmt, d.fps) = 0
\* a successful Write never leaves an empty document, and what it leaves is on the format's grid
WrittenFilesOK(written) == \A f \in written : FileOK(disk[f]) /\ OnGrid(disk[f])
=============================================================================
