SPECIFICATION Spec
CONSTANTS
  SORTED = "names"
  ATTRS = {1, 2, 3}
  MAXSTYLES = 3
INVARIANT OrderIndependentWhenDistinct
CHECK_DEADLOCK FALSE
