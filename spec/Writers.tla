------------------------------- MODULE Writers -------------------------------
(***************************************************************************)
(* C19: writers are pure and deterministic.                                *)
(*                                                                         *)
(* Go ranges over maps in an order the program does not control; a writer  *)
(* is therefore W(list, pi) where pi is an environment-chosen order of the *)
(* style map. Normative: the bytes are a function of the list alone.       *)
(* Implementation layer (the two places that iterate maps directly):       *)
(*   SsaFormat  - the [V4 Styles] Format line is the order in which        *)
(*                attribute names are first met while visiting the styles  *)
(*   VttStyle   - the STYLE block concatenates the styles' CSS lines in    *)
(*                visiting order                                           *)
(*   SsaTable   - WriteToSSA first files the styles under their *ID* in a   *)
(*                table of its own, while visiting the map: when two map   *)
(*                entries carry the same ID the entry visited last stays   *)
(*                and the name is listed twice                             *)
(* SORTED = "keys"  models the current tree (the map's keys are sorted     *)
(*                  before anything is visited),                           *)
(*          "names" the tree after the first repair (the style names were  *)
(*                  sorted, but the table was still filled in map order:   *)
(*                  order-independent only while the IDs are distinct),    *)
(*          "none"  the pinned commit (everything in map order).           *)
(* A style map is [key -> [id, attrs (sequence of attribute names the      *)
(* style carries, in the writer's fixed per-style order), css (sequence of *)
(* CSS line atoms)]]; keys and ids are numbers, an id may occur under      *)
(* several keys.                                                           *)
(***************************************************************************)
EXTENDS Integers, Sequences, FiniteSets, SequencesExt, TLC
CONSTANTS SORTED, ATTRS, MAXSTYLES

Perms(S) == {p \in [1..Cardinality(S) -> S] : \A i, j \in DOMAIN p : i # j => p[i] # p[j]}

\* the order in which the writer visits the map's keys, given the map order pi (a permutation of the keys)
Visit(styles, pi) == IF SORTED = "keys" THEN SetToSortSeq(DOMAIN styles, <) ELSE pi

RECURSIVE AddNew(_, _)
AddNew(fmt, names) == IF names = <<>> THEN fmt
                      ELSE IF \E i \in DOMAIN fmt : fmt[i] = Head(names) THEN AddNew(fmt, Tail(names))
                      ELSE AddNew(Append(fmt, Head(names)), Tail(names))

\* WriteToSSA: styles[ss.name] = ss ; styleNames = append(styleNames, ss.name) while visiting
RECURSIVE SsaTableFrom(_, _, _)
SsaTableFrom(styles, order, acc) ==
  IF order = <<>> THEN acc
  ELSE LET st == styles[Head(order)] IN
       SsaTableFrom(styles, Tail(order), [tbl |-> (st.id :> st) @@ [n \in DOMAIN acc.tbl \ {st.id} |-> acc.tbl[n]], names |-> IF SORTED = "keys" /\ st.id \in DOMAIN acc.tbl THEN acc.names ELSE Append(acc.names, st.id)])   \* current tree: a name is listed once
SsaTable(styles, pi) == SsaTableFrom(styles, Visit(styles, pi), [tbl |-> <<>>, names |-> <<>>])
\* the names in the order the Format line and the Style lines follow
SsaNames(styles, pi) == LET t == SsaTable(styles, pi) IN IF SORTED = "none" THEN t.names ELSE SortSeq(t.names, <)
RECURSIVE SsaFormatFrom(_, _, _)
SsaFormatFrom(tbl, order, fmt) == IF order = <<>> THEN fmt ELSE SsaFormatFrom(tbl, Tail(order), AddNew(fmt, tbl[Head(order)].attrs))
SsaFormat(styles, pi) == SsaFormatFrom(SsaTable(styles, pi).tbl, SsaNames(styles, pi), <<0>>)   \* 0 = the Name column
\* the Style lines: (name, attributes) in writing order
SsaRows(styles, pi) == LET t == SsaTable(styles, pi) ns == SsaNames(styles, pi) IN [k \in DOMAIN ns |-> <<ns[k], t.tbl[ns[k]].attrs>>]

\* WriteToWebVTT: the STYLE block, visiting the map's keys
RECURSIVE VttStyleFrom(_, _)
VttStyleFrom(styles, order) == IF order = <<>> THEN <<>> ELSE styles[Head(order)].css \o VttStyleFrom(styles, Tail(order))
VttStyle(styles, pi) == VttStyleFrom(styles, IF SORTED = "none" THEN pi ELSE SetToSortSeq(DOMAIN styles, <))

\* model checking: every style map over <= MAXSTYLES keys with arbitrary ids and attribute subsequences, every order
VARIABLES styles, pi1, pi2
vars == <<styles, pi1, pi2>>
AttrSeqs == {SetToSortSeq(S, <) : S \in SUBSET ATTRS}
CssSeqs == {<<>>, <<1>>}
Init == \E n \in 0..MAXSTYLES :
          /\ styles \in [1..n -> [id : 1..n, attrs : AttrSeqs, css : CssSeqs]]
          /\ pi1 = [k \in 1..n |-> k] /\ pi2 \in Perms(1..n)        \* every order against one fixed order: all pairs agree
Next == UNCHANGED vars
Spec == Init /\ [][Next]_vars
OrderIndependent == /\ SsaFormat(styles, pi1) = SsaFormat(styles, pi2)
                    /\ SsaRows(styles, pi1) = SsaRows(styles, pi2)
                    /\ VttStyle(styles, pi1) = VttStyle(styles, pi2)
\* current tree: one Style line per name (what the reader makes of the file is then written back unchanged)
OneRowPerName == SORTED = "keys" => \A p \in {pi1, pi2} : \A j, k \in DOMAIN SsaRows(styles, p) : j # k => SsaRows(styles, p)[j][1] # SsaRows(styles, p)[k][1]
\* the first repair's guarantee: with distinct IDs sorting the names is enough
DistinctIds == \A j, k \in DOMAIN styles : j # k => styles[j].id # styles[k].id
OrderIndependentWhenDistinct == DistinctIds => OrderIndependent
=============================================================================
