------------------------------- MODULE Writers -------------------------------
(***************************************************************************)
(* C19: writers are pure and deterministic.                                *)
(*                                                                         *)
(* Go ranges over maps in an order the program does not control; a writer  *)
(* is therefore W(list, pi) where pi is an environment-chosen order of the *)
(* style map. Normative: the bytes are a function of the list alone.       *)
(* Implementation layer (the two places that iterate maps directly):       *)
(*   SsaFormat  - the [V4 Styles] Format line is the order in which        *)
(*                attribute names are first met while visiting the styles  *)
(*   VttStyle   - the STYLE block concatenates the styles' CSS lines in    *)
(*                visiting order                                           *)
(* SORTED = TRUE models the current tree (identifiers sorted before the    *)
(* visit); FALSE the pinned commit (visit in map order).                   *)
(* A style is [id, attrs (sequence of attribute names it carries, in the   *)
(* writer's fixed per-style order), css (sequence of CSS line atoms)].     *)
(***************************************************************************)
EXTENDS Integers, Sequences, FiniteSets, SequencesExt, TLC
CONSTANTS SORTED, ATTRS, MAXSTYLES

Perms(S) == {p \in [1..Cardinality(S) -> S] : \A i, j \in DOMAIN p : i # j => p[i] # p[j]}

\* the order in which the writer visits the styles, given the map order pi (a permutation of the ids)
Visit(styles, pi) == IF SORTED THEN SetToSortSeq(DOMAIN styles, <) ELSE pi

RECURSIVE AddNew(_, _)
AddNew(fmt, names) == IF names = <<>> THEN fmt
                      ELSE IF \E i \in DOMAIN fmt : fmt[i] = Head(names) THEN AddNew(fmt, Tail(names))
                      ELSE AddNew(Append(fmt, Head(names)), Tail(names))
RECURSIVE SsaFormatFrom(_, _, _)
SsaFormatFrom(styles, order, fmt) == IF order = <<>> THEN fmt ELSE SsaFormatFrom(styles, Tail(order), AddNew(fmt, styles[Head(order)].attrs))
SsaFormat(styles, pi) == SsaFormatFrom(styles, Visit(styles, pi), <<0>>)   \* 0 = the Name column

RECURSIVE VttStyleFrom(_, _)
VttStyleFrom(styles, order) == IF order = <<>> THEN <<>> ELSE styles[Head(order)].css \o VttStyleFrom(styles, Tail(order))
VttStyle(styles, pi) == VttStyleFrom(styles, Visit(styles, pi))

\* model checking: every style map over <= MAXSTYLES ids with arbitrary attribute subsequences, every pair of orders
VARIABLES styles, pi1, pi2
vars == <<styles, pi1, pi2>>
AttrSeqs == {SetToSortSeq(S, <) : S \in SUBSET ATTRS}
CssSeqs == {<<>>, <<1>>, <<2>>}
Init == \E n \in 0..MAXSTYLES :
          /\ styles \in [1..n -> [attrs : AttrSeqs, css : CssSeqs]]
          /\ pi1 \in Perms(1..n) /\ pi2 \in Perms(1..n)
Next == UNCHANGED vars
Spec == Init /\ [][Next]_vars
OrderIndependent == SsaFormat(styles, pi1) = SsaFormat(styles, pi2) /\ VttStyle(styles, pi1) = VttStyle(styles, pi2)
=============================================================================
