SPECIFICATION Spec
CONSTANTS
  NCALLS = 3
  NSTEPS = 3
  LEAKY = TRUE
INVARIANT AloneEquivalent
PROPERTY TablesConstant
VIEW View
CHECK_DEADLOCK FALSE
