---------------------------- MODULE GenStyleProp ----------------------------
(* Case generation for the attribute-propagation stage of C07: every (source, destination, look) of StyleProp. *)
EXTENDS StyleProp, Json, IOUtils, SequencesExt
ASSUME LET cs == SetToSeq({[src |-> c[1], dst |-> c[2], x |-> c[3]] : c \in Cases}) IN
       /\ ndJsonSerialize(IOEnv.GEN_OUT, cs)
       /\ PrintT(<<"GENERATED", "styleprop", Len(cs)>>)
VARIABLE z
Init == z = 0
Next == UNCHANGED z
=============================================================================
