------------------------------- MODULE GenSrt -------------------------------
(* Case generation for C01: every (ground truth, rendering) pair of SrtMC's families, as JSON. *)
EXTENDS SrtMC, Json, IOUtils
Env(n, dflt) == IF n \in DOMAIN IOEnv THEN atoi(IOEnv[n]) ELSE dflt
gP == Env("GEN_PART", 0)
gPS == Env("GEN_PARTS", 1)
gFam == IOEnv.GEN_FAM
gN == Env("GEN_N", 1)
TruthSeq(z) == SetToSeq(UNION {Truths(n, gFam) : n \in 0..gN})
Pairs(z) ==
  LET ts == TruthSeq(0) IN
  UNION {{[g |-> ts[i], d |-> D] : D \in Renderings(ts[i], Vars(gFam, Len(ts[i])))} : i \in {j \in DOMAIN ts : j % gPS = gP}}
ASSUME LET ps == Pairs(0) IN
       /\ ndJsonSerialize(IOEnv.GEN_OUT, SetToSeq(ps))
       /\ PrintT(<<"GENERATED", "srt", Cardinality(ps)>>)
=============================================================================
