------------------------------ MODULE GenLinear ------------------------------
(* Case generation for C15: reference quadruples (a1 # a2) and boundaries on a small grid; the harness
   instantiates the grid unit as 1 ns, 1 us, 1 ms, 1 s and 1 h (so that a1 lands on d1 etc. is exercised at
   every magnitude). *)
EXTENDS Integers, Sequences, FiniteSets, SequencesExt, Json, IOUtils, TLC
Env(n, dflt) == IF n \in DOMAIN IOEnv THEN atoi(IOEnv[n]) ELSE dflt
gG == Env("GEN_G", 3)
gP == Env("GEN_PART", 0)
gPS == Env("GEN_PARTS", 1)
Cases(z) ==
  {[a1 |-> a1, d1 |-> d1, a2 |-> a2, d2 |-> d2, cues |-> cs] :
     a1 \in {x \in 0..gG : x % gPS = gP}, a2 \in 0..gG, d1 \in 0..gG, d2 \in 0..gG,
     cs \in {<<>>} \cup {<<p>> : p \in {q \in (0..gG) \X (0..gG) : q[1] <= q[2]}} \cup {<<<<0, 1>>, <<1, gG>>>>, <<<<gG, gG>>, <<0, 0>>>>}}
ASSUME LET cs == {c \in Cases(0) : c.a1 # c.a2} IN
       /\ ndJsonSerialize(IOEnv.GEN_OUT, SetToSeq(cs))
       /\ PrintT(<<"GENERATED", "linear", Cardinality(cs)>>)
VARIABLE x
Init == x = 0
Next == UNCHANGED x
==============================================================================
