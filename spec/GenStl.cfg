SPECIFICATION Spec
CONSTANT FAM = "K"
CHECK_DEADLOCK FALSE
