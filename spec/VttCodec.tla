------------------------------ MODULE VttCodec ------------------------------
(***************************************************************************)
(* C02: WebVTT codec.                                                      *)
(*                                                                         *)
(* Ground truth G = [tsmap, css, regions, cues]                            *)
(*   tsmap   : <<>> or <<[local, mpegts]>>   (X-TIMESTAMP-MAP)             *)
(*   css     : sequence of CSS line atoms of the STYLE block (<<>> = none) *)
(*   regions : sequence (sorted by id) of [id, lines, width, scroll,       *)
(*             anchor, viewport]; 0 means "not given"                      *)
(*   cues    : sequence of [s, e, id, notes, set, region, lines]           *)
(*       id = numeric identifier (0 = none); notes = comment line atoms;   *)
(*       set = [align, line, position, size, vertical] value atoms (0 =    *)
(*       absent); region = region id (0 = none);                           *)
(*       lines = sequence of [voice, runs], voice atom (0 = none),         *)
(*       runs = sequence of [a, tags, ts]: text atom, tag stack (outermost *)
(*       first) of [name, cls, ann], inline timestamp in ms (0 = none)     *)
(* Document D = [eol, bom, toks], toks = physical lines:                   *)
(*   [k "header", trail]  [k "tsmap", local, mpegts]  [k "blank"]          *)
(*   [k "note", a]  [k "cont", a]  [k "style"]  [k "css", a]               *)
(*   [k "region", id, lines, width, scroll]  [k "id", v]                   *)
(*   [k "timing", s, e, hrs, tab, set, region]                             *)
(*   [k "text", voice, its]  its: [t "o", tag] | [t "c", tag] | [t "x", a] *)
(*                                | [t "ts", ms]                           *)
(***************************************************************************)
EXTENDS Integers, Sequences, FiniteSets, SequencesExt, TLC

Tok(k) == [k |-> k]
THeader(trail) == [k |-> "header", trail |-> trail]
TTsmap(m)      == [k |-> "tsmap", local |-> m.local, mpegts |-> m.mpegts]
TBlank         == [k |-> "blank"]
TNote(a)       == [k |-> "note", a |-> a]
TCont(a)       == [k |-> "cont", a |-> a]
TStyle         == [k |-> "style"]
TCss(a)        == [k |-> "css", a |-> a]
TRegion(r)     == [k |-> "region", id |-> r.id, lines |-> r.lines, width |-> r.width, scroll |-> r.scroll, anchor |-> r.anchor, viewport |-> r.viewport]
TId(v)         == [k |-> "id", v |-> v]
TTiming(c, hrs, tab) == [k |-> "timing", s |-> c.s, e |-> c.e, hrs |-> hrs, tab |-> tab, set |-> c.set, region |-> c.region]
TText(voice, its) == [k |-> "text", voice |-> voice, its |-> its]

NoTag == [name |-> "", cls |-> <<>>, ann |-> 0]
IOpen(tag)  == [t |-> "o", tag |-> tag, a |-> 0, ms |-> 0]
IClose(tag) == [t |-> "c", tag |-> tag, a |-> 0, ms |-> 0]
ITxt(a)     == [t |-> "x", tag |-> NoTag, a |-> a, ms |-> 0]
ITs(ms)     == [t |-> "ts", tag |-> NoTag, a |-> 0, ms |-> ms]

Cat(A, B) == {x \o y : x \in A, y \in B}

---------------------------------------------------------------------------
(* Renderings *)
OpenAll(tags)  == [i \in DOMAIN tags |-> IOpen(tags[i])]
CloseAll(tags) == [i \in DOMAIN tags |-> IClose(tags[Len(tags) + 1 - i])]

RunBody(r) == (IF r.ts # 0 THEN <<ITs(r.ts)>> ELSE <<>>) \o <<ITxt(r.a)>>

\* every run opens and closes its whole stack
RECURSIVE RunsClosed(_)
RunsClosed(runs) ==
  IF runs = <<>> THEN <<>>
  ELSE LET r == Head(runs) IN OpenAll(r.tags) \o RunBody(r) \o CloseAll(r.tags) \o RunsClosed(Tail(runs))

\* common prefix of two tag stacks
RECURSIVE Common(_, _)
Common(a, b) == IF a = <<>> \/ b = <<>> \/ Head(a) # Head(b) THEN <<>> ELSE <<Head(a)>> \o Common(Tail(a), Tail(b))
Drop(s, n) == SubSeq(s, n + 1, Len(s))

\* tags shared with the neighbouring run stay open (proper nesting); cur = stack open before the run
RECURSIVE RunsShared(_, _)
RunsShared(runs, cur) ==
  IF runs = <<>> THEN CloseAll(cur)
  ELSE LET r == Head(runs)
           keep == Common(cur, r.tags)
       IN  CloseAll(Drop(cur, Len(keep))) \o OpenAll(Drop(r.tags, Len(keep))) \o RunBody(r) \o RunsShared(Tail(runs), r.tags)

\* a text token that ends one run and starts the next without markup in between would fuse them:
\* the shared discipline is faithful only if adjacent runs differ in stack or the second carries a timestamp
Fusable(runs) == \E j \in 1..(Len(runs) - 1) : runs[j].tags = runs[j + 1].tags /\ runs[j + 1].ts = 0

LineRenderings(l) ==
  {TText(l.voice, RunsClosed(l.runs))} \cup (IF Fusable(l.runs) THEN {} ELSE {TText(l.voice, RunsShared(l.runs, <<>>))})

RECURSIVE LinesRenderings(_)
LinesRenderings(lines) ==
  IF lines = <<>> THEN {<<>>} ELSE {<<x>> \o y : x \in LineRenderings(Head(lines)), y \in LinesRenderings(Tail(lines))}

NoteToks(notes) == IF notes = <<>> THEN <<>>
                   ELSE <<TNote(notes[1])>> \o [i \in 1..(Len(notes) - 1) |-> TCont(notes[i + 1])] \o <<TBlank>>

\* several comment lines before a cue: one block with continuation lines, one block per line, or every line with the
\* NOTE prefix of its own - all of them belong to the next cue
NoteForms(notes) ==
  IF Len(notes) < 2 THEN {NoteToks(notes)}
  ELSE {NoteToks(notes),
        FlattenSeq([i \in DOMAIN notes |-> <<TNote(notes[i]), TBlank>>]),
        [i \in DOMAIN notes |-> TNote(notes[i])] \o <<TBlank>>}

CueRenderings(c, V) ==
  LET ids == IF c.id # 0 THEN {<<TId(c.id)>>} ELSE {<<>>} \cup (IF TRUE \in V.textids THEN {<<TId(-1)>>} ELSE {})
      tim == {<<TTiming(c, hrs, tab)>> : hrs \in (IF c.s >= 3600000 \/ c.e >= 3600000 THEN {TRUE} ELSE V.hrs), tab \in V.tabs}
  IN  Cat(Cat(NoteForms(c.notes), Cat(ids, tim)), LinesRenderings(c.lines))

RECURSIVE CuesRenderings(_, _)
CuesRenderings(cues, V) ==
  IF cues = <<>> THEN {<<>>}
  ELSE Cat(Cat(CueRenderings(Head(cues), V), {<<TBlank>>}), CuesRenderings(Tail(cues), V))

HeadRenderings(G, V) ==
  Cat({<<THeader(tr)>> : tr \in V.trails},
      {(IF G.tsmap = <<>> THEN <<>> ELSE <<TTsmap(G.tsmap[1])>>) \o <<TBlank>>
       \o (IF G.css = <<>> THEN <<>> ELSE <<TStyle>> \o [i \in DOMAIN G.css |-> TCss(G.css[i])] \o <<TBlank>>)
       \o [i \in DOMAIN G.regions |-> TRegion(G.regions[i])] \o (IF G.regions = <<>> THEN <<>> ELSE <<TBlank>>)})

Renderings(G, V) ==
  {[eol |-> eol, bom |-> bom, toks |-> h \o b] :
     eol \in V.eols, bom \in V.boms, h \in HeadRenderings(G, V), b \in CuesRenderings(G.cues, V)}

\* textids: a cue without a numeric identifier may carry a textual one (any line without "-->"): it denotes no number
AllVars == [hrs |-> BOOLEAN, tabs |-> BOOLEAN, trails |-> BOOLEAN, eols |-> {"lf", "crlf", "cr"}, boms |-> BOOLEAN, textids |-> {FALSE}]

---------------------------------------------------------------------------
(* Reference decoder (from the format description): a run-to-completion machine over the physical lines *)
InitDec == [tsmap |-> <<>>, css |-> <<>>, regions |-> <<>>, cues |-> <<>>,
            mode |-> "", notes |-> <<>>, id |-> 0, stack |-> <<>>, err |-> FALSE]

RECURSIVE ItemsToRuns(_, _, _)
\* returns <<runs, stack after>>; ts = pending inline timestamp
ItemsToRuns(its, stack, ts) ==
  IF its = <<>> THEN <<<<>>, stack>>
  ELSE LET it == Head(its) IN
       IF it.t = "x" THEN LET rest == ItemsToRuns(Tail(its), stack, 0)
                          IN  <<<<[a |-> it.a, tags |-> stack, ts |-> ts, col |-> 0]>> \o rest[1], rest[2]>>
       ELSE IF it.t = "ts" THEN ItemsToRuns(Tail(its), stack, it.ms)
       ELSE IF it.t = "o" THEN ItemsToRuns(Tail(its), Append(stack, it.tag), ts)
       ELSE ItemsToRuns(Tail(its), IF stack = <<>> THEN stack ELSE SubSeq(stack, 1, Len(stack) - 1), ts)

AddLine(cues, line) == [cues EXCEPT ![Len(cues)].lines = Append(@, line)]

DecStep(d, t) ==
  CASE t.k = "header" -> d
    [] t.k = "tsmap"  -> [d EXCEPT !.tsmap = <<[local |-> t.local, mpegts |-> t.mpegts]>>]
    [] t.k = "blank"  -> [d EXCEPT !.mode = "", !.stack = <<>>]
    [] t.k = "note"   -> [d EXCEPT !.mode = "note", !.notes = Append(@, t.a)]
    [] t.k = "cont"   -> IF d.mode = "note" THEN [d EXCEPT !.notes = Append(@, t.a)] ELSE d
    [] t.k = "style"  -> [d EXCEPT !.mode = "style"]
    [] t.k = "css"    -> [d EXCEPT !.css = Append(@, t.a)]
    [] t.k = "region" -> [d EXCEPT !.regions = Append(@, [id |-> t.id, lines |-> t.lines, width |-> t.width, scroll |-> t.scroll,
                                                          anchor |-> t.anchor, viewport |-> t.viewport])]
    [] t.k = "id"     -> [d EXCEPT !.id = IF t.v < 0 THEN 0 ELSE t.v]
    [] t.k = "timing" ->
         [d EXCEPT !.cues = Append(@, [s |-> t.s, e |-> t.e, id |-> d.id, notes |-> d.notes, set |-> t.set,
                                       region |-> t.region, lines |-> <<>>]),
                   !.mode = "cue", !.notes = <<>>, !.id = 0, !.stack = <<>>,
                   \* a cue may only refer to a region defined earlier in the file
                   !.err = d.err \/ (t.region # 0 /\ ~\E i \in DOMAIN d.regions : d.regions[i].id = t.region)]
    [] t.k = "text"   ->
         IF d.mode # "cue" \/ d.cues = <<>> THEN d
         ELSE LET r == ItemsToRuns(t.its, d.stack, 0) IN
              [d EXCEPT !.cues = IF r[1] = <<>> THEN @ ELSE AddLine(@, [voice |-> t.voice, runs |-> r[1]]), !.stack = r[2]]
    [] OTHER -> d

RECURSIVE Decode(_, _)
Decode(d, toks) == IF toks = <<>> THEN d ELSE Decode(DecStep(d, Head(toks)), Tail(toks))

SortRegions(rs) == SortSeq(rs, LAMBDA x, y : x.id < y.id)

RefRead(D) ==
  LET d == Decode(InitDec, D.toks) IN
  [tsmap |-> d.tsmap, css |-> d.css, regions |-> SortRegions(d.regions), cues |-> d.cues, err |-> d.err]

Truth(G) == [tsmap |-> G.tsmap, css |-> G.css, regions |-> G.regions, cues |-> G.cues, err |-> FALSE]

---------------------------------------------------------------------------
(* Implementation layer: the control state of webvtt.go:ReadFromWebVTT, one step per physical line after the
   header (= per scanner.Scan() of the main loop): the block the reader believes it is in, the depth of the tag
   stack it carries from line to line, the comments waiting for the next cue, the cues appended so far.
   LoopObs is what the hook at the top of the loop reports before the line is looked at. *)
LoopInit == [n |-> 1, items |-> 0, block |-> "", tags |-> 0, comments |-> 0, styled |-> FALSE]

RECURSIVE DepthAfter(_, _)
DepthAfter(its, d) ==
  IF its = <<>> THEN d
  ELSE DepthAfter(Tail(its), IF Head(its).t = "o" THEN d + 1 ELSE IF Head(its).t = "c" THEN (IF d > 0 THEN d - 1 ELSE 0) ELSE d)

LoopLine(st, tok) ==
  LET st1 == [st EXCEPT !.n = @ + 1] IN
  CASE tok.k = "blank"  -> [st1 EXCEPT !.block = "", !.tags = 0]          \* every CSS line of the model ends its rule
    [] tok.k = "note"   -> [st1 EXCEPT !.block = "comment", !.comments = @ + 1]
    [] tok.k = "cont"   -> IF st.block = "comment" THEN [st1 EXCEPT !.comments = @ + 1] ELSE st1
    [] tok.k = "style"  -> [st1 EXCEPT !.block = "style", !.tags = IF st.styled THEN @ ELSE 0, !.styled = TRUE]
    [] tok.k = "timing" -> [st1 EXCEPT !.block = "text", !.items = @ + 1, !.comments = 0]
    [] tok.k = "text"   -> IF st.block = "text" THEN [st1 EXCEPT !.tags = DepthAfter(tok.its, st.tags)] ELSE st1
    [] OTHER -> st1                                                       \* tsmap, css, region, id: no control state

LoopObsOf(st) == [n |-> st.n + 1, items |-> st.items, block |-> st.block, tags |-> st.tags, comments |-> st.comments]
RECURSIVE LoopObs(_, _)
LoopObs(st, toks) == IF toks = <<>> THEN <<>> ELSE <<LoopObsOf(st)>> \o LoopObs(LoopLine(st, Head(toks)), Tail(toks))
\* the first token is the header line, consumed by the header loop
ImplHooks(D) == IF D.toks = <<>> THEN <<>> ELSE LoopObs(LoopInit, Tail(D.toks))

---------------------------------------------------------------------------
(* Writer contract: the written document denotes the list with cues numbered 1..n.
   A run may carry a colour that comes from another format (col # 0; TTML / teletext / STL colours): WebVTT has no
   colour attribute and the convention is a class span named after the colour around the run's own tags. *)
Renumber(G) == [G EXCEPT !.cues = [i \in DOMAIN G.cues |-> [G.cues[i] EXCEPT !.id = i]]]
ColourTag(c) == [name |-> "c", cls |-> <<c>>, ann |-> 0]
ColourRun(r) == IF r.col = 0 THEN r ELSE [r EXCEPT !.tags = <<ColourTag(r.col)>> \o @, !.col = 0]
ColourAsClass(G) ==
  [G EXCEPT !.cues = [i \in DOMAIN G.cues |-> [G.cues[i] EXCEPT !.lines =
     [j \in DOMAIN G.cues[i].lines |-> [G.cues[i].lines[j] EXCEPT !.runs = [k \in DOMAIN G.cues[i].lines[j].runs |-> ColourRun(G.cues[i].lines[j].runs[k])]]]]]]
WriteOK(G, D) == RefRead(D) = Truth(Renumber(ColourAsClass(G)))
=============================================================================
