------------------------------- MODULE TraceSrt -------------------------------
(* Trace validation for C01. read: the real reader was given the bytes of document ev.d (a rendering of ev.g)
   and returned ev.post; write: the real writer was given the list ev.g, its bytes were lexed into ev.d by the
   harness's independent lexer and re-read by the real reader into ev.post. *)
EXTENDS SrtCodec, Json, IOUtils
Trace == ndJsonDeserialize(IOEnv.TRACE)
VARIABLE l
Reason(ev) ==
  IF ev.dir = "read" THEN
    IF RefRead(ev.d) # ev.g THEN "ORACLE-reference-decoder-disagrees-with-generator"
    ELSE IF ev.res # "ok" THEN "reader-" \o ev.res
    ELSE IF ev.post # ev.g THEN "reader-returns-other-cues"
    ELSE "ok"
  ELSE
    IF ev.g = <<>> THEN (IF ev.res = "empty" THEN "ok" ELSE "empty-list-not-refused")
    ELSE IF ev.res # "ok" THEN "writer-" \o ev.res
    ELSE IF RefRead(ev.d) # ev.g THEN "written-document-denotes-other-cues(independent-decoder)"
    ELSE IF ~Numbered(ev.d.toks) THEN "cues-not-numbered-consecutively"
    ELSE IF ~CanonicalTiming(ev.d.toks) THEN "timing-line-not-canonical"
    ELSE IF ev.post # ev.g THEN "written-document-denotes-other-cues(library-reader)"
    ELSE "ok"
\* implementation layer: the transcription of the reader's loop predicts what the hook at the top of the loop saw
\* on every line (line number, cues so far, lines of the cue being filled) and the cues it returns
ImplPredicts(ev) == ev.dir = "read" /\ ev.res = "ok" => (ev.hooks = ImplHooks(ev.d) /\ ImplRead(ev.d) = ev.post)
Init == l = 1
Step == /\ l <= Len(Trace)
        /\ LET r == Reason(Trace[l]) IN
           IF r = "ok" THEN (IF ImplPredicts(Trace[l]) THEN TRUE ELSE PrintT(<<"V", l, Trace[l].n, "DRIFT", "reader-loop-model-does-not-predict-the-hook-events">>))
           ELSE PrintT(<<"V", l, Trace[l].n, "C01", r>>)
        /\ l' = l + 1
Spec == Init /\ [][Step]_l
Accepted == TLCGet("stats").diameter - 1 = Len(Trace)
==============================================================================
