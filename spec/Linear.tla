------------------------------- MODULE Linear -------------------------------
(***************************************************************************)
(* C15: linear correction is the affine map through (a1,d1) and (a2,d2).   *)
(* Exact rational arithmetic by cross-multiplication in BigInt:            *)
(*   |(u - d1)(a2 - a1) - (t - a1)(d2 - d1)| <= TOL * |a2 - a1|            *)
(* anchors: subtitles.go: Subtitles.ApplyLinearCorrection                  *)
(***************************************************************************)
EXTENDS Integers, Sequences
CONSTANTS BASE, TOL      \* TOL as a TLC integer in the trace's unit (ns)
B == INSTANCE BigInt

\* distance of u from the affine image of t, scaled by |a2-a1|
Dev(q, t, u) ==
  B!Abs(B!Sub(B!Mul(B!Sub(u, q.d1), B!Sub(q.a2, q.a1)), B!Mul(B!Sub(t, q.a1), B!Sub(q.d2, q.d1))))

Within(q, t, u, k) == B!Leq(Dev(q, t, u), B!Mul(B!FromInt(k * TOL), B!Abs(B!Sub(q.a2, q.a1))))

BoundaryOK(q, t, u) == Within(q, t, u, 1)

PositiveSlope(q) == B!Lt(B!Zero, B!Mul(B!Sub(q.a2, q.a1), B!Sub(q.d2, q.d1)))

\* bs: sequence of [t, u] boundaries (start, end of cue 1, start, end of cue 2, ...)
OrderKept(q, bs) ==
  PositiveSlope(q) => \A i, j \in DOMAIN bs : B!Leq(bs[i].t, bs[j].t) => B!Leq(bs[i].u, bs[j].u)

\* every cue's length is scaled by the slope (two boundaries, so twice the tolerance)
LengthsScaled(q, bs) ==
  \A k \in 1..(Len(bs) \div 2) :
    LET s == bs[2 * k - 1] e == bs[2 * k]
        dl == B!Abs(B!Sub(B!Mul(B!Sub(e.u, s.u), B!Sub(q.a2, q.a1)), B!Mul(B!Sub(e.t, s.t), B!Sub(q.d2, q.d1))))
    IN  B!Leq(dl, B!Mul(B!FromInt(2 * TOL), B!Abs(B!Sub(q.a2, q.a1))))

LinearOK(q, bs, idsPre, idsPost, contentOK) ==
  /\ ~B!Eq(q.a1, q.a2)
  /\ \A i \in DOMAIN bs : BoundaryOK(q, bs[i].t, bs[i].u)
  /\ OrderKept(q, bs)
  /\ LengthsScaled(q, bs)
  /\ idsPre = idsPost
  /\ contentOK
=============================================================================
