------------------------------- MODULE TraceSsa -------------------------------
(* Trace validation for C04. *)
EXTENDS SsaCodec, Json, IOUtils
Trace == ndJsonDeserialize(IOEnv.TRACE)
VARIABLE l
AsRead(p) == [info |-> p.info, notes |-> p.notes, styles |-> p.styles, events |-> p.events]
Reason(ev) ==
  IF ev.dir = "read" THEN
    IF ~Denotes(RefRead(ev.d), ev.g) THEN "ORACLE-reference-decoder-disagrees-with-generator"
    ELSE IF ev.res # "ok" THEN "reader-" \o ev.res
    ELSE IF ~Denotes(AsRead(ev.post), ev.g) THEN "reader-returns-something-else"
    ELSE IF ev.zopt # "same" THEN "reading-with-zero-valued-options-gives-another-result"    \* the options only carry observers
    ELSE "ok"
  ELSE
    IF ev.res # "ok" THEN "writer-" \o ev.res
    ELSE IF ev.d.plus # ev.g.plus THEN "script-type-lost"
    ELSE IF ~Denotes(RefRead(ev.d), ev.g) THEN "written-document-denotes-something-else(independent-decoder)"
    ELSE IF ~Denotes(AsRead(ev.post), ev.g) THEN "written-document-denotes-something-else(library-reader)"
    ELSE IF ~ev.fix THEN "read-then-write-again-changes-the-bytes"
    ELSE "ok"
\* implementation layer: the model of the reader's control state predicts what the hook at the top of its loop saw
ImplPredicts(ev) == ev.dir = "read" /\ ev.res = "ok" => ev.hooks = ImplHooks(ev.d)
Init == l = 1
Step == /\ l <= Len(Trace)
        /\ LET r == Reason(Trace[l]) IN
           IF r = "ok" THEN (IF ImplPredicts(Trace[l]) THEN TRUE ELSE PrintT(<<"V", l, Trace[l].n, "DRIFT", "reader-loop-model-does-not-predict-the-hook-events">>))
           ELSE PrintT(<<"V", l, Trace[l].n, "C04", r>>)
        /\ l' = l + 1
Spec == Init /\ [][Step]_l
Accepted == TLCGet("stats").diameter - 1 = Len(Trace)
==============================================================================
