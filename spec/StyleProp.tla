----------------------------- MODULE StyleProp -----------------------------
(***************************************************************************)
(* Cross-format attribute propagation (anchors: subtitles.go               *)
(* propagateSRTAttributes, propagateWebVTTAttributes,                      *)
(* propagateTTMLAttributes, propagateSTLAttributes; the readers that call  *)
(* them and the parts of the five writers that look at the result).        *)
(* This is one of C07's anchored mechanisms; its effect on cue count, text *)
(* and times is C07's statement (Session.tla), what it does to the *look*  *)
(* of a cue is not - this module is specification of the system beyond the *)
(* listed properties, and a disagreement between it and the code is        *)
(* reported as impl-model DRIFT, never as a violation.                     *)
(*                                                                         *)
(* State: an SA is the observed part of one StyleAttributes value; a doc   *)
(* is [cue : SA, run : SA, mnr, dsc] - Item.InlineStyle, the first text   *)
(* run's LineItem.InlineStyle, Metadata.STLMaximumNumberOfDisplayableRows  *)
(* (0 = unset) and Metadata.STLDisplayStandardCode (-1 = unset, 0 = open,  *)
(* 1 / 2 = teletext).  An x is what a *file* says, in the vocabulary of its *)
(* format (the fields the format does not have stay at their defaults).    *)
(* Read[f] : x -> doc and Write[f] : doc -> x transcribe the code; a       *)
(* conversion is Read[g] o Write[g] o Read[f].                             *)
(*                                                                         *)
(* Deliberate deviations of the code, modelled as they are:                *)
(*  - no reader sets WebVTTBold/Italics/Underline, so WebVTT -> SubRip     *)
(*    loses emphasis although propagateWebVTTAttributes copies the flags   *)
(*  - the SubRip reader leaves {\anN} in the text: SRTPosition only exists *)
(*    for lists built in memory and is outside this model                  *)
(*  - propagateTTMLAttributes does not feed SRTColor: TTML -> SubRip loses *)
(*    the colour, SubRip -> TTML keeps it                                  *)
(*  - a colour reaches WebVTT only as one of five named classes            *)
(*  - WriteToSTL justifies left and uses row 20 of 23 when the list says   *)
(*    nothing, whatever WebVTTAlign / TTMLTextAlign hold                   *)
(* The voice name of a line (WebVTT <v>, the Name column of SubStation      *)
(* Alpha) is part of the document: it survives between those two formats   *)
(* and nowhere else.                                                       *)
(* The format-neutral metadata (Title, Language, Framerate, TTMLCopyright)  *)
(* is part of the document as well: the title lives in TTML, SubStation     *)
(* Alpha and STL, the language in TTML and STL, the frame rate is read from *)
(* TTML and STL but written by WriteToSTL only (WriteToTTML emits no        *)
(* ttp:frameRate - its times are clock times), and newGSIBlock fills in     *)
(* French and 25 fps when the list says nothing or something STL cannot     *)
(* express.                                                                 *)
(* tts:extent / tts:origin (region geometry) are not modelled.             *)
(***************************************************************************)
EXTENDS Integers, Sequences, TLC

Fmts == {"srt", "vtt", "ttml", "ssa", "stl"}

Nil == [has |-> FALSE, b |-> FALSE, i |-> FALSE, u |-> FALSE, wb |-> FALSE, wi |-> FALSE, wu |-> FALSE,
        col |-> "", tcol |-> "", tags |-> <<>>, align |-> "", pos |-> "", line |-> "", talign |-> "",
        just |-> "nil", row |-> -1, it |-> FALSE, un |-> FALSE, bx |-> FALSE]
Set == [Nil EXCEPT !.has = TRUE]

X0 == [b |-> FALSE, i |-> FALSE, u |-> FALSE, col |-> "", tags |-> <<>>, align |-> "", pos |-> "", line |-> "",
       talign |-> "", jc |-> 0, vp |-> 0, mnr |-> 0, dsc |-> 0, it |-> FALSE, un |-> FALSE, bx |-> FALSE, voice |-> "",
       title |-> "", lang |-> "", fr |-> 0, copy |-> ""]

---------------------------------------------------------------------------
(* webvtt.go cssColor: the five class colours, compared in lower case *)
Lower(c) == IF c = "#FF0000" THEN "#ff0000" ELSE IF c = "#00FFFF" THEN "#00ffff" ELSE c
Css(c) == CASE Lower(c) = "#00ffff" -> "cyan" [] Lower(c) = "#ffff00" -> "yellow" [] Lower(c) = "#ff0000" -> "red"
            [] Lower(c) = "#ff00ff" -> "magenta" [] Lower(c) = "#00ff00" -> "lime" [] OTHER -> ""

EmphTags(b, i, u) == (IF b THEN <<"b">> ELSE <<>>) \o (IF i THEN <<"i">> ELSE <<>>) \o (IF u THEN <<"u">> ELSE <<>>)

Pct(n) == ToString(n) \o "%"

---------------------------------------------------------------------------
(* subtitles.go: the propagate functions *)
PropSRT(sa) == [sa EXCEPT !.tcol = IF sa.col # "" THEN sa.col ELSE @,
                          !.wb = sa.b, !.wi = sa.i, !.wu = sa.u,
                          !.tags = EmphTags(sa.b, sa.i, sa.u)]
PropVTT(sa) == [sa EXCEPT !.col = IF sa.tcol # "" THEN sa.tcol ELSE @, !.b = sa.wb, !.i = sa.wi, !.u = sa.wu]
PropTTML(sa) == [sa EXCEPT !.align = IF sa.talign # "" THEN sa.talign ELSE @]
\* the row becomes a line percentage: rows of a teletext page count from 1
PropSTL(sa, mnr) ==
  [sa EXCEPT !.align = IF sa.just = "r" THEN "right" ELSE IF sa.just = "l" THEN "left" ELSE @,
             !.line = IF sa.row >= 0 /\ mnr > 0
                      THEN (IF mnr = 23 /\ sa.row > 0 THEN Pct(((sa.row - 1) * 100) \div 23) ELSE Pct((sa.row * 100) \div mnr))
                      ELSE @]

---------------------------------------------------------------------------
(* the readers: which StyleAttributes values exist after reading a one-cue, one-run file saying x *)
NoMeta == [title |-> "", lang |-> "", fr |-> 0, copy |-> ""]
StlFps(fr) == IF fr = 30 THEN 30 ELSE 25                       \* the disk format code of a file is STL25.01 or STL30.01
JustOf(jc) == CASE jc = 1 -> "l" [] jc = 2 -> "c" [] jc = 3 -> "r" [] OTHER -> "u"
JcOf(sa) == CASE sa.just = "u" -> 0 [] sa.just = "c" -> 2 [] sa.just = "r" -> 3 [] OTHER -> 1    \* nil: left
Read(f, x) ==
  CASE f = "srt" -> [cue |-> Nil, mnr |-> 0, dsc |-> -1, voice |-> "", meta |-> NoMeta,
                     run |-> IF x.b \/ x.i \/ x.u \/ x.col # ""
                             THEN PropSRT([Set EXCEPT !.b = x.b, !.i = x.i, !.u = x.u, !.col = x.col]) ELSE Nil]
    [] f = "vtt" -> [cue |-> PropVTT([Set EXCEPT !.align = x.align, !.pos = x.pos, !.line = x.line]), mnr |-> 0, dsc |-> -1, voice |-> x.voice, meta |-> NoMeta,
                     run |-> IF x.tags # <<>> THEN PropVTT([Set EXCEPT !.tags = x.tags]) ELSE Nil]
    [] f = "ttml" -> [cue |-> PropTTML([Set EXCEPT !.talign = x.talign]), mnr |-> 0, dsc |-> -1, voice |-> "",
                      meta |-> [title |-> x.title, lang |-> x.lang, fr |-> x.fr, copy |-> x.copy],
                      run |-> PropTTML([Set EXCEPT !.tcol = x.col])]
    [] f = "ssa" -> [cue |-> Set, run |-> Nil, mnr |-> 0, dsc |-> -1, voice |-> x.voice, meta |-> [NoMeta EXCEPT !.title = x.title]]
    [] f = "stl" -> [cue |-> PropSTL([Set EXCEPT !.just = JustOf(x.jc), !.row = x.vp], x.mnr), mnr |-> x.mnr, dsc |-> x.dsc, voice |-> "",
                     meta |-> [title |-> x.title, lang |-> x.lang, fr |-> StlFps(x.fr), copy |-> ""],
                     run |-> [Set EXCEPT !.it = x.it, !.un = x.un, !.bx = x.bx]]

(* the writers: what the written file says *)
\* newGSIBlock: level-1 teletext unless the list says otherwise; validateVerticalPosition: rows of a teletext page are 1..23
DscOut(d) == IF d.dsc >= 0 THEN d.dsc ELSE 1
ClampRow(v, dsc) == IF dsc \in {1, 2} THEN (IF v < 1 THEN 1 ELSE IF v > 23 THEN 23 ELSE v) ELSE v
Write(f, d) ==
  CASE f = "srt" -> [X0 EXCEPT !.b = d.run.b, !.i = d.run.i, !.u = d.run.u, !.col = d.run.col]
    [] f = "vtt" -> [X0 EXCEPT !.tags = (IF Css(d.run.tcol) # "" THEN <<"c." \o Css(d.run.tcol)>> ELSE <<>>) \o d.run.tags,
                               !.align = d.cue.align, !.pos = d.cue.pos, !.line = d.cue.line, !.voice = d.voice]
    [] f = "ttml" -> [X0 EXCEPT !.talign = d.cue.talign, !.col = d.run.tcol,
                                !.title = d.meta.title, !.copy = d.meta.copy, !.lang = d.meta.lang]      \* no ttp:frameRate
    [] f = "ssa" -> [X0 EXCEPT !.voice = d.voice, !.title = d.meta.title]
    [] f = "stl" -> [X0 EXCEPT !.jc = JcOf(d.cue), !.vp = ClampRow(IF d.cue.row >= 0 THEN d.cue.row ELSE 20, DscOut(d)),
                               !.mnr = IF d.mnr > 0 THEN d.mnr ELSE 23, !.dsc = DscOut(d),
                               !.title = d.meta.title, !.lang = IF d.meta.lang = "" THEN "french" ELSE d.meta.lang,
                               !.fr = IF d.meta.fr \in {25, 30} THEN d.meta.fr ELSE 25,
                               !.it = d.run.it, !.un = d.run.un, !.bx = d.run.bx]

Mid(src, x) == Read(src, x)
Out(src, dst, x) == Read(dst, Write(dst, Read(src, x)))

---------------------------------------------------------------------------
(* the looks the model is checked and replayed on *)
Colours == {"", "#00ffff", "#ffff00", "#FF0000", "#123456", "red"}
TagStacks == {<<>>, <<"b">>, <<"i">>, <<"u">>, <<"b", "i">>, <<"b", "i", "u">>, <<"c.cyan">>, <<"c.cyan", "u">>, <<"c.loud", "b">>}
Looks(f) ==
  CASE f = "srt" -> {[X0 EXCEPT !.b = b, !.i = i, !.u = u, !.col = c] : b, i, u \in BOOLEAN, c \in Colours}
    [] f = "vtt" -> {[X0 EXCEPT !.tags = t, !.align = a, !.pos = p, !.line = ln, !.voice = v] :
                       t \in TagStacks, a \in {"", "left", "right", "center"}, p \in {"", "10%"}, ln \in {"", "50%"}, v \in {"", "Bob"}}
    [] f = "ttml" -> {[X0 EXCEPT !.col = c, !.talign = a] : c \in Colours, a \in {"", "left", "right", "center", "start", "end", "justify"}}
    [] f = "ssa" -> {[X0 EXCEPT !.voice = v] : v \in {"", "Bob"}}
    [] f = "stl" -> {[X0 EXCEPT !.jc = j, !.vp = v, !.mnr = m, !.dsc = ds, !.it = it, !.un = un, !.bx = bx] :
                       j \in 0..3, v \in {0, 1, 5, 20, 22, 30}, m \in {11, 23}, ds \in {0, 1}, it, un, bx \in BOOLEAN}
\* metadata varies on one plain look per format (it does not interact with the styling)
Plain(f) == IF f = "stl" THEN [X0 EXCEPT !.jc = 1, !.vp = 20, !.mnr = 23, !.dsc = 1, !.fr = 25] ELSE X0
MetaLooks(f) ==
  CASE f = "ttml" -> {[Plain(f) EXCEPT !.title = t, !.lang = l, !.fr = r, !.copy = c] :
                        t \in {"", "My programme"}, l \in {"", "english", "french"}, r \in {0, 24, 25, 30}, c \in {"", "(c) 2020"}}
    [] f = "ssa" -> {[Plain(f) EXCEPT !.title = t] : t \in {"", "My programme"}}
    [] f = "stl" -> {[Plain(f) EXCEPT !.title = t, !.lang = l, !.fr = r] : t \in {"", "My programme"}, l \in {"", "english", "french"}, r \in {25, 30}}
    [] OTHER -> {}
AllLooks(f) == Looks(f) \cup MetaLooks(f)
Cases == UNION {{<<f, g, x>> : g \in Fmts, x \in AllLooks(f)} : f \in Fmts}

---------------------------------------------------------------------------
(* laws (StylePropMC checks them on every case) *)
\* a file written by the library says the same when read and written again (the look is stable from the
\* first generation on) - in particular converting within one format changes nothing
Stable(f, g, x) == LET d == Out(f, g, x) IN Read(g, Write(g, d)) = d
SameFormat(f, x) == /\ f = "stl" => ClampRow(x.vp, x.dsc) = x.vp /\ x.lang # ""      \* row clamp, default language
                    /\ f = "ttml" => x.fr = 0                                        \* frame rate not written
                    => Out(f, f, x) = Read(f, x)
\* what survives a change of format
Survives(f, g, x) ==
  LET m == Read(f, x) o == Out(f, g, x) IN
  /\ f = "srt" /\ g = "vtt" => o.run.tags = (IF Css(x.col) # "" THEN <<"c." \o Css(x.col)>> ELSE <<>>) \o EmphTags(x.b, x.i, x.u)
  /\ f = "srt" /\ g = "ttml" => o.run.tcol = x.col
  /\ f = "ttml" /\ g = "vtt" => o.cue.align = x.talign /\ (Css(x.col) # "" => o.run.tags = <<"c." \o Css(x.col)>>)
  /\ f = "stl" /\ g = "vtt" => o.cue.align = m.cue.align /\ o.cue.line = m.cue.line
  /\ f = "vtt" /\ g = "srt" => ~o.run.b /\ ~o.run.i /\ ~o.run.u                      \* the documented loss
  /\ g = "ssa" => o = Read("ssa", [X0 EXCEPT !.voice = m.voice, !.title = m.meta.title])
  /\ x.title # "" => ((o.meta.title = x.title) = (f \in {"ttml", "ssa", "stl"} /\ g \in {"ttml", "ssa", "stl"}))
  /\ x.lang # "" /\ g # "stl" => ((o.meta.lang = x.lang) = (f \in {"ttml", "stl"} /\ g = "ttml"))
  /\ g = "stl" => o.meta.lang = (IF m.meta.lang = "" THEN "french" ELSE m.meta.lang) /\ o.meta.fr = (IF m.meta.fr = 30 THEN 30 ELSE 25)
  /\ g # "stl" => o.meta.fr = 0
  /\ x.voice # "" => ((o.voice = x.voice) = (f \in {"vtt", "ssa"} /\ g \in {"vtt", "ssa"}))   \* voice names live in WebVTT and SubStation Alpha only
  /\ g = "stl" /\ f # "stl" => o.cue.just = "l" /\ o.cue.row = 20 /\ o.cue.line = "82%"
=============================================================================
