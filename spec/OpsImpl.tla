------------------------------ MODULE OpsImpl ------------------------------
(***************************************************************************)
(* Implementation layer of the in-place list algorithms of subtitles.go:   *)
(* Add, Fragment, Unfragment, ForceDuration and the marking phase of       *)
(* Optimize, transcribed step by step - one step per loop iteration of the *)
(* Go code, the loop variables being part of the state.  Every algorithm   *)
(* is a deterministic step function  XStep : state -> state  on a record   *)
(* with a program counter pc; the state machine is  st' = Step(st)  and    *)
(* Run(st) iterates the same function, so that                             *)
(*   - TLC checks, for every small list, termination and refinement of the *)
(*     normative relation of Ops.tla (OpsImplMC), and                      *)
(*   - trace validation predicts the exact list the code must leave        *)
(*     (order among ties, which pointer survives): a mismatch is reported  *)
(*     as impl-model DRIFT, not as a property violation.                   *)
(* Optimize's loops range over Go maps: the model picks the next key       *)
(* nondeterministically and TLC checks that the result does not depend on  *)
(* the order (OptimizeOrderIndependent).                                   *)
(***************************************************************************)
EXTENDS Ops

\* TRUE: Optimize closes the used-style set under inheritance (the repaired code); FALSE: the pinned code, which
\* went from the regions straight to the deletion
CONSTANT CLOSES

DropAt(seq, i) == SubSeq(seq, 1, i - 1) \o SubSeq(seq, i + 1, Len(seq))

---------------------------------------------------------------------------
(* Add(d): for idx := 0; idx < len; idx++ { shift; if end<=0 && start<=0 { delete; idx-- } else if start<=0 { start=0 } } *)
AddInit(items, d) == [alg |-> "add", pc |-> "loop", items |-> items, idx |-> 1, d |-> d]
AddStep(st) ==
  IF st.idx > Len(st.items) THEN [st EXCEPT !.pc = "done"]
  ELSE LET c == [st.items[st.idx] EXCEPT !.s = @ + st.d, !.e = @ + st.d] IN
       IF c.e <= 0 /\ c.s <= 0 THEN [st EXCEPT !.items = DropAt(@, st.idx)]                \* idx-- ; idx++
       ELSE IF c.s <= 0 THEN [st EXCEPT !.items[st.idx] = [c EXCEPT !.s = 0], !.idx = @ + 1]
       ELSE [st EXCEPT !.items[st.idx] = c, !.idx = @ + 1]

---------------------------------------------------------------------------
(* Fragment(f): per cue, cut at every multiple of f it strictly contains; the copies are new objects (ptr 0),
   the original object keeps the last piece; then Order() *)
FragInit(items, f) == [alg |-> "fragment", pc |-> (IF items = <<>> \/ f <= 0 THEN "done" ELSE "next"), items |-> items, out |-> <<>>,
                       k |-> 1, b |-> 0, f |-> f]
FragStep(st) ==
  CASE st.pc = "next" ->
         IF st.k > Len(st.items) THEN [st EXCEPT !.pc = "order"]
         ELSE LET sub == st.items[st.k]
                  b0 == (sub.s \div st.f) * st.f
              IN  [st EXCEPT !.pc = "cut", !.b = IF b0 <= sub.s THEN b0 + st.f ELSE b0]
    [] st.pc = "cut" ->
         LET sub == st.items[st.k] IN
         IF st.b < sub.e
         THEN [st EXCEPT !.out = Append(@, [sub EXCEPT !.e = st.b, !.ptr = 0]), !.items[st.k] = [sub EXCEPT !.s = st.b], !.b = @ + st.f]
         ELSE [st EXCEPT !.out = Append(@, sub), !.k = @ + 1, !.pc = "next"]
    [] st.pc = "order" -> [st EXCEPT !.items = StableSortByStart(st.out), !.pc = "done"]

---------------------------------------------------------------------------
(* Unfragment(): Order(); for i { for j := i+1 { same text && end_i >= start_j -> extend i, delete j ; end_i < start_j -> break } } *)
UnfragInit(items) == [alg |-> "unfragment", pc |-> (IF Len(items) <= 1 THEN "done" ELSE "order"), items |-> items, i |-> 1, j |-> 2]
UnfragStep(st) ==
  CASE st.pc = "order" -> [st EXCEPT !.items = StableSortByStart(@), !.pc = "outer", !.i = 1]
    [] st.pc = "outer" -> IF st.i > Len(st.items) - 1 THEN [st EXCEPT !.pc = "done"] ELSE [st EXCEPT !.pc = "inner", !.j = st.i + 1]
    [] st.pc = "inner" ->
         IF st.j > Len(st.items) THEN [st EXCEPT !.pc = "outer", !.i = @ + 1]
         ELSE LET a == st.items[st.i] c == st.items[st.j] IN
              IF a.t = c.t /\ a.e >= c.s
              THEN [st EXCEPT !.items = DropAt([@ EXCEPT ![st.i] = [a EXCEPT !.e = Max2(a.e, c.e)]], st.j)]    \* j-- ; j++
              ELSE IF a.e < c.s THEN [st EXCEPT !.pc = "outer", !.i = @ + 1]
              ELSE [st EXCEPT !.j = @ + 1]

---------------------------------------------------------------------------
(* ForceDuration(d, dummy) *)
FDInit(items, d, dummy) == [alg |-> "force", pc |-> (IF Duration(items) = d THEN "done" ELSE IF Duration(items) > d THEN "scan" ELSE "dummy"),
                            items |-> items, k |-> 1, d |-> d, dummy |-> dummy]
FDStep(st) ==
  CASE st.pc = "scan" ->
         IF st.k > Len(st.items) THEN [st EXCEPT !.pc = "dummy"]
         ELSE LET c == st.items[st.k] IN
              IF c.s >= st.d THEN [st EXCEPT !.items = SubSeq(@, 1, st.k - 1), !.pc = "dummy"]
              ELSE IF c.e > st.d THEN [st EXCEPT !.items[st.k] = [c EXCEPT !.e = st.d], !.k = @ + 1]
              ELSE [st EXCEPT !.k = @ + 1]
    [] st.pc = "dummy" ->
         IF st.dummy /\ Duration(st.items) < st.d THEN [st EXCEPT !.items = Append(@, Filler(st.d)), !.pc = "done"]
         ELSE [st EXCEPT !.pc = "done"]

---------------------------------------------------------------------------
ImplStep(st) == CASE st.alg = "add" -> AddStep(st) [] st.alg = "fragment" -> FragStep(st)
              [] st.alg = "unfragment" -> UnfragStep(st) [] st.alg = "force" -> FDStep(st)
RECURSIVE ImplRun(_)
ImplRun(st) == IF st.pc = "done" THEN st ELSE ImplRun(ImplStep(st))

AddImpl(items, d) == ImplRun(AddInit(items, d)).items
FragmentImpl(items, f) == ImplRun(FragInit(items, f)).items
UnfragmentImpl(items) == ImplRun(UnfragInit(items)).items
ForceDurationImpl(items, d, dummy) == ImplRun(FDInit(items, d, dummy)).items

---------------------------------------------------------------------------
(* Optimize's marking phase: usedRegions / usedStyles from the cues, then the regions' styles (deleting unused
   regions while ranging over the map), then passes over the style map until nothing changes, then deletion.
   left = keys not yet visited in the current range loop. *)
OptInit(S) == [pc |-> (IF S.items = <<>> THEN "done" ELSE "regions"), S |-> S,
               ur |-> NonEmpty({S.items[i].rg : i \in DOMAIN S.items}),
               us |-> NonEmpty({S.items[i].st : i \in DOMAIN S.items} \cup UNION {RangeOf(S.items[i].rs) : i \in DOMAIN S.items}),
               left |-> DOMAIN S.regions, changed |-> FALSE]
\* the successors of an Optimize state: one per key the range loop may visit next
OptNext(o) ==
  CASE o.pc = "regions" ->
         IF o.left = {} THEN {[o EXCEPT !.pc = IF CLOSES THEN "styles" ELSE "delete", !.left = DOMAIN o.S.styles, !.changed = FALSE]}
         ELSE {LET r == o.S.regions[k] IN
               IF r.id \in o.ur
               THEN [o EXCEPT !.us = IF r.parent # "" THEN @ \cup {r.parent} ELSE @, !.left = @ \ {k}]
               ELSE [o EXCEPT !.S.regions = RestrictTo(@, DOMAIN @ \ {k}), !.left = @ \ {k}] : k \in o.left}
    [] o.pc = "styles" ->
         IF o.left = {} THEN {IF o.changed THEN [o EXCEPT !.left = DOMAIN o.S.styles, !.changed = FALSE]
                              ELSE [o EXCEPT !.pc = "delete", !.left = DOMAIN o.S.styles]}
         ELSE {LET s == o.S.styles[k] IN
               IF s.id \in o.us /\ s.parent # "" /\ s.parent \notin o.us
               THEN [o EXCEPT !.us = @ \cup {s.parent}, !.changed = TRUE, !.left = @ \ {k}]
               ELSE [o EXCEPT !.left = @ \ {k}] : k \in o.left}
    [] o.pc = "delete" ->
         IF o.left = {} THEN {[o EXCEPT !.pc = "done"]}
         ELSE {IF o.S.styles[k].id \in o.us THEN [o EXCEPT !.left = @ \ {k}]
               ELSE [o EXCEPT !.S.styles = RestrictTo(@, DOMAIN @ \ {k}), !.left = @ \ {k}] : k \in o.left}
=============================================================================
