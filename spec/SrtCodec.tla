------------------------------ MODULE SrtCodec ------------------------------
(***************************************************************************)
(* C01: SubRip codec.                                                      *)
(*                                                                         *)
(* Ground truth G: sequence of cues [s, e, lines], s/e in ms,              *)
(*   lines: sequence of lines, line: sequence of runs                      *)
(*   run: [a, b, i, u, c]  a = text atom, b/i/u = bold/italic/underline,   *)
(*                         c = font colour atom (0 = none)                 *)
(* Document D: [eol, bom, toks] with toks a sequence of physical lines:    *)
(*   [k |-> "idx", v]            a cue number                              *)
(*   [k |-> "junk"]              a non-numeric line in index position      *)
(*   [k |-> "blank"]                                                       *)
(*   [k |-> "timing", s, e, sep, fd, sp, xy]                               *)
(*        sep "," | "."; fd = fraction digits 1..3; sp = spacing variant   *)
(*        around the arrow; xy = trailing coordinates present              *)
(*   [k |-> "text", its]         its = sequence of inline items            *)
(*        [t |-> "o", g, c]  opening tag g in {"b","i","u","font"}         *)
(*        [t |-> "c", g, c]  closing tag                                   *)
(*        [t |-> "x", a, c]  text atom a                                   *)
(* (every inline item carries the same fields so that TLC can compare)     *)
(*                                                                         *)
(* Parts: Renderings(G) (what the format tolerates, per the statement),    *)
(* RefRead(D) (reference decoder following the format description, not     *)
(* the code), ImplRead(D) (transcription of srt.go:ReadFromSRT).           *)
(***************************************************************************)
EXTENDS Integers, Sequences, FiniteSets, SequencesExt, TLC

---------------------------------------------------------------------------
(* tokens *)
TIdx(v)   == [k |-> "idx", v |-> v, s |-> 0, e |-> 0, sep |-> "", fd |-> 0, sp |-> 0, xy |-> FALSE, its |-> <<>>]
TJunk     == [k |-> "junk", v |-> 0, s |-> 0, e |-> 0, sep |-> "", fd |-> 0, sp |-> 0, xy |-> FALSE, its |-> <<>>]
TBlank    == [k |-> "blank", v |-> 0, s |-> 0, e |-> 0, sep |-> "", fd |-> 0, sp |-> 0, xy |-> FALSE, its |-> <<>>]
TTiming(s, e, sep, fd, sp, xy) ==
             [k |-> "timing", v |-> 0, s |-> s, e |-> e, sep |-> sep, fd |-> fd, sp |-> sp, xy |-> xy, its |-> <<>>]
TText(its) == [k |-> "text", v |-> 0, s |-> 0, e |-> 0, sep |-> "", fd |-> 0, sp |-> 0, xy |-> FALSE, its |-> its]

IOpen(g, c)  == [t |-> "o", g |-> g, a |-> 0, c |-> c]
IClose(g)    == [t |-> "c", g |-> g, a |-> 0, c |-> 0]
ITxt(a)      == [t |-> "x", g |-> "", a |-> a, c |-> 0]

Run(a, b, i, u, c) == [a |-> a, b |-> b, i |-> i, u |-> u, c |-> c]
Plain == [b |-> FALSE, i |-> FALSE, u |-> FALSE, c |-> 0]
StyleOf(r) == [b |-> r.b, i |-> r.i, u |-> r.u, c |-> r.c]

---------------------------------------------------------------------------
(* Renderings *)
\* fraction digit counts with which a millisecond value can be written exactly
FracDigits(ms) == {3} \cup (IF (ms % 1000) % 10 = 0 THEN {2} ELSE {}) \cup (IF (ms % 1000) % 100 = 0 THEN {1} ELSE {})

Cat(A, B) == {x \o y : x \in A, y \in B}

\* opening tags for style st in the writer's nesting order (font, b, i, u), closing in reverse
Opens(st)  == (IF st.c # 0 THEN <<IOpen("font", st.c)>> ELSE <<>>) \o (IF st.b THEN <<IOpen("b", 0)>> ELSE <<>>)
              \o (IF st.i THEN <<IOpen("i", 0)>> ELSE <<>>) \o (IF st.u THEN <<IOpen("u", 0)>> ELSE <<>>)
Closes(st) == (IF st.u THEN <<IClose("u")>> ELSE <<>>) \o (IF st.i THEN <<IClose("i")>> ELSE <<>>)
              \o (IF st.b THEN <<IClose("b")>> ELSE <<>>) \o (IF st.c # 0 THEN <<IClose("font")>> ELSE <<>>)
\* alternative nesting order (u, i, b, font)
OpensRev(st)  == (IF st.u THEN <<IOpen("u", 0)>> ELSE <<>>) \o (IF st.i THEN <<IOpen("i", 0)>> ELSE <<>>)
                 \o (IF st.b THEN <<IOpen("b", 0)>> ELSE <<>>) \o (IF st.c # 0 THEN <<IOpen("font", st.c)>> ELSE <<>>)
ClosesRev(st) == (IF st.c # 0 THEN <<IClose("font")>> ELSE <<>>) \o (IF st.b THEN <<IClose("b")>> ELSE <<>>)
                 \o (IF st.i THEN <<IClose("i")>> ELSE <<>>) \o (IF st.u THEN <<IClose("u")>> ELSE <<>>)

\* discipline "closed": every run opens and closes its own tags
RECURSIVE LineClosed(_, _)
LineClosed(runs, rev) ==
  IF runs = <<>> THEN <<>>
  ELSE LET r == Head(runs) st == StyleOf(r) IN
       (IF rev THEN OpensRev(st) ELSE Opens(st)) \o <<ITxt(r.a)>> \o (IF rev THEN ClosesRev(st) ELSE Closes(st))
       \o LineClosed(Tail(runs), rev)

\* discipline "carried": tags stay open across runs and lines of the cue; at each run only the difference
\* to the running state is emitted, and nothing is closed at the end of the cue.  Faithful only when no two
\* adjacent runs of a line have the same style (they would be lexed as one text), which Renderings checks.
DiffOpen(cur, st) ==
  (IF st.c # 0 /\ st.c # cur.c THEN <<IOpen("font", st.c)>> ELSE <<>>)
  \o (IF st.b /\ ~cur.b THEN <<IOpen("b", 0)>> ELSE <<>>) \o (IF st.i /\ ~cur.i THEN <<IOpen("i", 0)>> ELSE <<>>)
  \o (IF st.u /\ ~cur.u THEN <<IOpen("u", 0)>> ELSE <<>>)
DiffClose(cur, st) ==
  (IF cur.u /\ ~st.u THEN <<IClose("u")>> ELSE <<>>) \o (IF cur.i /\ ~st.i THEN <<IClose("i")>> ELSE <<>>)
  \o (IF cur.b /\ ~st.b THEN <<IClose("b")>> ELSE <<>>) \o (IF cur.c # 0 /\ st.c = 0 THEN <<IClose("font")>> ELSE <<>>)

RECURSIVE LineCarried(_, _)
\* returns <<items, state after the line>>
LineCarried(runs, cur) ==
  IF runs = <<>> THEN <<<<>>, cur>>
  ELSE LET r == Head(runs) st == StyleOf(r)
           rest == LineCarried(Tail(runs), st)
       IN  <<DiffClose(cur, st) \o DiffOpen(cur, st) \o <<ITxt(r.a)>> \o rest[1], rest[2]>>

RECURSIVE LinesCarried(_, _)
LinesCarried(lines, cur) ==
  IF lines = <<>> THEN <<>>
  ELSE LET lc == LineCarried(Head(lines), cur) IN <<TText(lc[1])>> \o LinesCarried(Tail(lines), lc[2])

NoAdjacentSameStyle(lines) ==
  \A n \in DOMAIN lines : \A j \in 1..(Len(lines[n]) - 1) : StyleOf(lines[n][j]) # StyleOf(lines[n][j + 1])

TextRenderings(lines) ==
  {[n \in DOMAIN lines |-> TText(LineClosed(lines[n], FALSE))],
   [n \in DOMAIN lines |-> TText(LineClosed(lines[n], TRUE))]}
  \cup (IF NoAdjacentSameStyle(lines) THEN {LinesCarried(lines, Plain)} ELSE {})

Blanks(n) == [j \in 1..n |-> TBlank]

\* one cue: index (number k / junk / absent) + timing (syntactic variants) + text
CueRenderings(c, k, VARS) ==
  LET idx == {<<TIdx(k)>>, <<TJunk>>, <<>>}
      tim == {<<TTiming(c.s, c.e, sep, fd, sp, xy)>> :
                sep \in VARS.seps, fd \in FracDigits(c.s) \cap FracDigits(c.e) \cap VARS.fds, sp \in VARS.sps, xy \in VARS.xys}
  IN  Cat(Cat(idx, tim), TextRenderings(c.lines))

RECURSIVE BodyRenderings(_, _, _)
\* cues k.. of G: blank lines (1..maxBlank) between cues
BodyRenderings(G, k, VARS) ==
  IF k > Len(G) THEN {<<>>}
  ELSE IF k = Len(G) THEN CueRenderings(G[k], k, VARS)
  ELSE Cat(Cat(CueRenderings(G[k], k, VARS), {Blanks(n) : n \in VARS.between}), BodyRenderings(G, k + 1, VARS))

Renderings(G, VARS) ==
  {[eol |-> eol, bom |-> bom, toks |-> body \o Blanks(n)] :
     eol \in VARS.eols, bom \in VARS.boms, n \in VARS.atEOF, body \in BodyRenderings(G, 1, VARS)}

AllVars == [seps |-> {",", "."}, fds |-> {1, 2, 3}, sps |-> {0, 1, 2}, xys |-> BOOLEAN, between |-> {1, 2, 3},
            atEOF |-> {0, 1, 2, 3}, eols |-> {"lf", "crlf", "cr"}, boms |-> BOOLEAN]

---------------------------------------------------------------------------
(* Reference decoder: follows the format description of the property statement.
   A timing line starts a cue; the non-blank line directly before it (if any) is that cue's number and not
   text; blank lines separate cues and are never text; markup tags toggle the running style, which starts plain
   at every timing line and is carried from line to line inside the cue. *)

RECURSIVE ItemsToRuns(_, _)
\* returns <<runs, style after>>
ItemsToRuns(its, cur) ==
  IF its = <<>> THEN <<<<>>, cur>>
  ELSE LET it == Head(its) IN
       IF it.t = "x" THEN LET rest == ItemsToRuns(Tail(its), cur)
                          IN  <<<<Run(it.a, cur.b, cur.i, cur.u, cur.c)>> \o rest[1], rest[2]>>
       ELSE LET on == it.t = "o"
                nxt == CASE it.g = "b" -> [cur EXCEPT !.b = on]
                         [] it.g = "i" -> [cur EXCEPT !.i = on]
                         [] it.g = "u" -> [cur EXCEPT !.u = on]
                         [] it.g = "font" -> [cur EXCEPT !.c = IF on THEN it.c ELSE 0]
                         [] OTHER -> cur
            IN  ItemsToRuns(Tail(its), nxt)

\* index of the next timing token at or after position p (0 if none)
NextTiming(toks, p) == IF \E q \in p..Len(toks) : toks[q].k = "timing"
                       THEN CHOOSE q \in p..Len(toks) : toks[q].k = "timing" /\ \A r \in p..(q - 1) : toks[r].k # "timing"
                       ELSE 0

RECURSIVE TextLines(_, _)
\* text tokens of a cue body -> lines (style carried)
TextLines(body, cur) ==
  IF body = <<>> THEN <<>>
  ELSE IF Head(body).k = "text"
       THEN LET r == ItemsToRuns(Head(body).its, cur) IN
            (IF r[1] = <<>> THEN <<>> ELSE <<r[1]>>) \o TextLines(Tail(body), r[2])
       ELSE TextLines(Tail(body), cur)   \* idx / junk lines inside a body are text in SubRip only if they are
                                         \* not directly before a timing line; Renderings never produces them

RECURSIVE RefCues(_, _)
\* p = position of a timing token
RefCues(toks, p) ==
  LET q == NextTiming(toks, p + 1)
      \* body = tokens after the timing line up to (excluding) the next cue's index line / timing line
      lim == IF q = 0 THEN Len(toks)
             ELSE IF q - 1 > p /\ toks[q - 1].k \in {"idx", "junk"} THEN q - 2 ELSE q - 1
      body == SelectSeq(SubSeq(toks, p + 1, lim), LAMBDA t : t.k # "blank")
      cue == [s |-> toks[p].s, e |-> toks[p].e, lines |-> TextLines(body, Plain)]
  IN  <<cue>> \o (IF q = 0 THEN <<>> ELSE RefCues(toks, q))

RefRead(D) == LET p == NextTiming(D.toks, 1) IN IF p = 0 THEN <<>> ELSE RefCues(D.toks, p)

---------------------------------------------------------------------------
(* Implementation layer: transcription of srt.go:ReadFromSRT, one step per physical line (= per scanner.Scan()).
   State: items (cues appended so far, the last one still growing), pend (the Lines of the item variable `s`:
   before the first timing line a detached item, afterwards the last appended cue), sa (running style, reset at
   every timing line), n (lines consumed).  A pending line is [blank |-> TRUE] (the reader stores an empty text
   item for a blank line) or [blank |-> FALSE, runs, num] (num: the line is a cue number / junk candidate).
   At a timing line the last pending line, unless blank, is taken away as the cue's index; then - and at the end
   of the input - the pending lines are cut at their first blank line (removeTrailingEmptyLinesSRT).
   Obs(st) is what the hook at the top of the loop reports: <<lineNum, len(o.Items), len(s.Lines)>>. *)
ImplInit == [items |-> <<>>, pend |-> <<>>, sa |-> Plain, n |-> 0]

CutAtBlank(pend) ==
  LET bl == {i \in DOMAIN pend : pend[i].blank} IN
  IF bl = {} THEN pend ELSE SubSeq(pend, 1, (CHOOSE i \in bl : \A j \in bl : i <= j) - 1)
LinesOf(pend) == [i \in DOMAIN CutAtBlank(pend) |-> CutAtBlank(pend)[i].runs]
\* the growing cue's lines live in pend; Settle writes them back
Settle(st) == IF st.items = <<>> THEN st.items
              ELSE [st.items EXCEPT ![Len(st.items)].lines = LinesOf(st.pend)]

ImplLine(st, tok) ==
  LET st1 == [st EXCEPT !.n = @ + 1] IN
  CASE tok.k = "timing" ->
         LET pend1 == IF st.pend # <<>> /\ ~st.pend[Len(st.pend)].blank THEN SubSeq(st.pend, 1, Len(st.pend) - 1) ELSE st.pend
             done == Settle([st EXCEPT !.pend = pend1])
         IN  [st1 EXCEPT !.items = Append(done, [s |-> tok.s, e |-> tok.e, lines |-> <<>>]), !.pend = <<>>, !.sa = Plain]
    [] tok.k = "blank" -> [st1 EXCEPT !.pend = Append(@, [blank |-> TRUE, runs |-> <<>>])]
    [] tok.k = "text" ->
         LET r == ItemsToRuns(tok.its, st.sa) IN
         [st1 EXCEPT !.pend = IF r[1] = <<>> THEN @ ELSE Append(@, [blank |-> FALSE, runs |-> r[1]]), !.sa = r[2]]
    [] tok.k \in {"idx", "junk"} ->       \* a number / junk line is text to the reader until a timing line follows
         [st1 EXCEPT !.pend = Append(@, [blank |-> FALSE, runs |-> <<Run(0 - 1, st.sa.b, st.sa.i, st.sa.u, st.sa.c)>>])]

Obs(st) == <<st.n + 1, Len(st.items), Len(st.pend)>>

RECURSIVE ImplFold(_, _)
ImplFold(st, toks) == IF toks = <<>> THEN st ELSE ImplFold(ImplLine(st, Head(toks)), Tail(toks))
RECURSIVE ImplObs(_, _)
ImplObs(st, toks) == IF toks = <<>> THEN <<>> ELSE <<Obs(st)>> \o ImplObs(ImplLine(st, Head(toks)), Tail(toks))

ImplRead(D) == Settle(ImplFold(ImplInit, D.toks))
\* a document that consists of a byte-order mark only still is one (empty) line to the scanner
ImplHooks(D) == IF D.toks = <<>> /\ D.bom THEN << <<1, 0, 0>> >> ELSE ImplObs(ImplInit, D.toks)

---------------------------------------------------------------------------
(* Writer contract: the document denotes G (through RefRead) and cues are numbered 1..n *)
Numbered(toks) ==
  LET idxs == SelectSeq(toks, LAMBDA t : t.k \in {"idx", "junk"}) IN
  /\ Len(idxs) = Len(SelectSeq(toks, LAMBDA t : t.k = "timing"))
  /\ \A n \in DOMAIN idxs : idxs[n].k = "idx" /\ idxs[n].v = n
CanonicalTiming(toks) == \A n \in DOMAIN toks : toks[n].k = "timing" => toks[n].sep = "," /\ toks[n].fd = 3
WriteOK(G, D) == RefRead(D) = G /\ Numbered(D.toks) /\ CanonicalTiming(D.toks)
=============================================================================
