SPECIFICATION Spec
CONSTANTS
  SORTED = "keys"
  ATTRS = {1, 2, 3}
  MAXSTYLES = 3
INVARIANT OrderIndependent
INVARIANT OneRowPerName
CHECK_DEADLOCK FALSE
