------------------------------ MODULE SsaCodec ------------------------------
(***************************************************************************)
(* C04: SubStation Alpha (v4 / v4+) codec.                                 *)
(*                                                                         *)
(* All cell values are integers (atoms the harness maps to typed concrete  *)
(* values per column: booleans, colours in decimal or &H form, floats,     *)
(* ints, strings).                                                         *)
(* Ground truth G = [plus, info, notes, styles, events]                    *)
(*   plus   : TRUE for v4+ (ScriptType v4.00+)                             *)
(*   info   : function script-info key |-> value atom (subset of keys)     *)
(*   notes  : sequence of ';' comment atoms                                *)
(*   styles : sequence (sorted by Name value) of functions column |-> value*)
(*            over a subset of the style columns that contains "Name"      *)
(*   events : sequence of [s, e, cols, lines]; s/e in centiseconds; cols = *)
(*            function event column |-> value (not Start/End/Text);        *)
(*            lines = sequence of lines, line = sequence of runs [a, fx]   *)
(* Document D = [eol, bom, toks], toks:                                    *)
(*   [k "section", sec]  sec in {"info","styles","events","unknown"}       *)
(*   [k "info", key, val]  [k "note", a]  [k "junk"]  [k "blank"]          *)
(*   [k "format", cols]     cols = sequence of column names                *)
(*   [k "style", vals]      vals aligned with the section's Format         *)
(*   [k "event", cat, vals, s, e, lines]  vals aligned with Format; the    *)
(*        cells of Start / End / Text are 0 and carried by s, e, lines     *)
(***************************************************************************)
EXTENDS Integers, Sequences, FiniteSets, SequencesExt, Functions, TLC

TSection(sec) == [k |-> "section", sec |-> sec]
TInfo(key, val) == [k |-> "info", key |-> key, val |-> val]
TNote(a) == [k |-> "note", a |-> a]
TJunk == [k |-> "junk"]
TBlank == [k |-> "blank"]
TFormat(cols) == [k |-> "format", cols |-> cols]
TStyle(vals) == [k |-> "style", vals |-> vals]
TEvent(cat, vals, s, e, lines) == [k |-> "event", cat |-> cat, vals |-> vals, s |-> s, e |-> e, lines |-> lines]

Cat(A, B) == {x \o y : x \in A, y \in B}

\* v4 calls the outline colour TertiaryColour
ColName(plus, c) == IF ~plus /\ c = "OutlineColour" THEN "TertiaryColour" ELSE c
Canon(c) == IF c = "TertiaryColour" THEN "OutlineColour" ELSE c
LayerCol(plus) == IF plus THEN "Layer" ELSE "Marked"

RowOf(f, cols) == [i \in DOMAIN cols |-> IF Canon(cols[i]) \in DOMAIN f THEN f[Canon(cols[i])] ELSE 0]

---------------------------------------------------------------------------
(* Renderings: SP / EP = the orderings of the style / event column sets to use (supplied by the model: all
   permutations for small sets, a few for the full sets); Start, End and Text close the event Format (the
   format description makes Text the last column) *)
InfoToks(G) == [i \in 1..Cardinality(DOMAIN G.info) |->
                  LET key == SetToSeq(DOMAIN G.info)[i] IN TInfo(key, G.info[key])]

StyleCols(G) == UNION {DOMAIN G.styles[i] : i \in DOMAIN G.styles}
EventCols(G) == UNION {DOMAIN G.events[i].cols : i \in DOMAIN G.events}

Renderings(G, V, SP, EP) ==
  LET head == <<TSection("info")>> \o InfoToks(G) \o [i \in DOMAIN G.notes |-> TNote(G.notes[i])]
      styleBlocks == IF G.styles = <<>> THEN {<<>>}
                     ELSE {<<TBlank, TSection("styles"), TFormat([i \in DOMAIN p |-> ColName(G.plus, p[i])])>>
                           \o [i \in DOMAIN G.styles |-> TStyle(RowOf(G.styles[i], p))] : p \in SP}
      eventBlocks == IF G.events = <<>> THEN {<<>>}
                     ELSE {<<TBlank, TSection("events"), TFormat(p \o <<"Start", "End", "Text">>)>>
                           \o [i \in DOMAIN G.events |->
                                 TEvent("Dialogue", RowOf(G.events[i].cols, p) \o <<0, 0, 0>>, G.events[i].s, G.events[i].e, G.events[i].lines)]
                           \* lines of other event kinds (pictures, sounds, commands, comments) are not subtitles
                           \o (IF V.noise THEN <<TEvent("Picture", RowOf(G.events[1].cols, p) \o <<0, 0, 0>>, G.events[1].s, G.events[1].e, G.events[1].lines),
                                                 TEvent("Command", RowOf(G.events[1].cols, p) \o <<0, 0, 0>>, G.events[1].s, G.events[1].e, G.events[1].lines)>> ELSE <<>>)
                           : p \in EP}
      \* an unknown section is ignored as a whole - also its lines that look like comments
      noise == {<<>>} \cup (IF V.noise THEN {<<TBlank, TSection("unknown"), TJunk>>, <<TBlank, TSection("unknown"), TNote(3), TJunk>>} ELSE {})
      \* the sections may come in either order: an event refers to its style by name, wherever the style is defined
  IN  {[eol |-> eol, bom |-> bom, plus |-> G.plus, radix |-> rx, nl |-> nl, star |-> st,
        toks |-> head \o n \o (IF first = "styles" THEN sb \o eb ELSE eb \o sb)] :
         eol \in V.eols, bom \in V.boms, rx \in V.radix, nl \in V.nls, st \in V.stars, n \in noise, sb \in styleBlocks, eb \in eventBlocks,
         first \in V.first}

---------------------------------------------------------------------------
(* Implementation layer: the control state of ssa.go:ReadFromSSAWithOptions, one step per physical line: the
   section the reader is in, the number of Format columns it holds, the style and event rows collected so far.
   LoopObs is what the hook at the top of the loop reports before the line is looked at. *)
LoopInit == [sec |-> "", nfmt |-> 0, ns |-> 0, ne |-> 0]
SecName(sec) == CASE sec = "info" -> "script.info" [] sec = "styles" -> "styles" [] sec = "events" -> "events" [] OTHER -> "unknown"
LoopLine(st, tok) ==
  CASE tok.k = "section" -> [st EXCEPT !.sec = SecName(tok.sec), !.nfmt = IF tok.sec \in {"styles", "events"} THEN 0 ELSE @]
    [] st.sec = "unknown" -> st
    [] tok.k = "format" -> IF st.sec \in {"styles", "events"} THEN [st EXCEPT !.nfmt = Len(tok.cols)] ELSE st
    [] tok.k = "style" -> IF st.sec = "styles" THEN [st EXCEPT !.ns = @ + 1] ELSE st
    [] tok.k = "event" -> IF st.sec = "events" THEN [st EXCEPT !.ne = @ + 1] ELSE st
    [] OTHER -> st                                            \* blank, junk, comment, script-info field
LoopObsOf(st) == [sec |-> st.sec, nfmt |-> st.nfmt, ns |-> st.ns, ne |-> st.ne]
RECURSIVE LoopObs(_, _)
LoopObs(st, toks) == IF toks = <<>> THEN <<>> ELSE <<LoopObsOf(st)>> \o LoopObs(LoopLine(st, Head(toks)), Tail(toks))
\* physical lines: every script-info header is followed by the ScriptType line (carried by D.plus, not by a token)
RECURSIVE Phys(_)
Phys(toks) == IF toks = <<>> THEN <<>>
              ELSE IF Head(toks).k = "section" /\ Head(toks).sec = "info" THEN <<Head(toks), TInfo("ScriptType", 0)>> \o Phys(Tail(toks))
              ELSE <<Head(toks)>> \o Phys(Tail(toks))
ImplHooks(D) == LoopObs(LoopInit, Phys(D.toks))

---------------------------------------------------------------------------
(* Reference decoder: Format-driven *)
InitDec == [sec |-> "", fmt |-> <<>>, info |-> <<>>, notes |-> <<>>, styles |-> <<>>, events |-> <<>>]

\* function from the Format's column names (canonical) to the row's cells, restricted to the listed columns
RowFun(fmt, vals, skip) ==
  LET idx == {i \in DOMAIN fmt : fmt[i] \notin skip} IN
  [c \in {Canon(fmt[i]) : i \in idx} |-> vals[CHOOSE i \in idx : Canon(fmt[i]) = c]]

DecStep(d, t) ==
  CASE t.k = "section" -> [d EXCEPT !.sec = t.sec, !.fmt = <<>>]
    [] t.k = "blank" -> d
    [] t.k = "junk" -> d
    [] d.sec = "unknown" -> d
    [] t.k = "note" -> [d EXCEPT !.notes = Append(@, t.a)]
    [] t.k = "info" -> IF d.sec = "info" THEN [d EXCEPT !.info = Append(@, <<t.key, t.val>>)] ELSE d
    [] t.k = "format" -> [d EXCEPT !.fmt = t.cols]
    [] t.k = "style" -> IF d.sec = "styles" THEN [d EXCEPT !.styles = Append(@, RowFun(d.fmt, t.vals, {}))] ELSE d
    [] t.k = "event" ->
         IF d.sec = "events" /\ t.cat = "Dialogue"
         THEN [d EXCEPT !.events = Append(@, [s |-> t.s, e |-> t.e, cols |-> RowFun(d.fmt, t.vals, {"Start", "End", "Text"}), lines |-> t.lines])]
         ELSE d
    [] OTHER -> d

RECURSIVE Decode(_, _)
Decode(d, toks) == IF toks = <<>> THEN d ELSE Decode(DecStep(d, Head(toks)), Tail(toks))

SortStyles(ss) == SortSeq(ss, LAMBDA x, y : x["Name"] < y["Name"])

RefRead(D) ==
  LET d == Decode(InitDec, D.toks) IN
  [info |-> [key \in {d.info[i][1] : i \in DOMAIN d.info} |-> d.info[CHOOSE i \in DOMAIN d.info : d.info[i][1] = key][2]],
   notes |-> d.notes, styles |-> SortStyles(d.styles), events |-> d.events]

Truth(G) == [info |-> G.info, notes |-> G.notes, styles |-> G.styles, events |-> G.events]

\* two functions denote the same row if they agree wherever either is defined, an undefined cell being 0
SameRow(f, g) == \A c \in DOMAIN f \cup DOMAIN g : (IF c \in DOMAIN f THEN f[c] ELSE 0) = (IF c \in DOMAIN g THEN g[c] ELSE 0)

\* what a document denotes vs. a truth, up to absent cells = default (0): the writer spells out defaults
Denotes(R, G) ==
  /\ SameRow(R.info, G.info) /\ R.notes = G.notes
  /\ Len(R.styles) = Len(G.styles) /\ \A i \in DOMAIN G.styles : SameRow(R.styles[i], G.styles[i])
  /\ Len(R.events) = Len(G.events)
  /\ \A i \in DOMAIN G.events : /\ R.events[i].s = G.events[i].s /\ R.events[i].e = G.events[i].e
                                /\ R.events[i].lines = G.events[i].lines
                                /\ SameRow(R.events[i].cols, G.events[i].cols)
=============================================================================
