------------------------------- MODULE StlMC -------------------------------
(* Model checking of the STL specification itself and source of the generated cases. Families:
   "K": the whole Latin code table, one document per printable code, per composable and per non-composable
        diacritic x letter pair (13 x 52)
   "T": timecodes - every frame number x selected h:m:s x 25/30 fps x programme start offsets
   "R": rows / runs / italic-underline-boxing sequences (open subtitling), justification, vertical position
   "X": teletext display standards 1 and 2: boxed rows, colour and double-height codes
   "M": GSI metadata subsets, user-data blocks interleaved *)
EXTENDS StlCodec, IOUtils
CONSTANT FAM
VARIABLES g, d, phase
vars == <<g, d, phase>>

\* GEN_WIDE=1 (thorough tier): the families range over the whole space of rendering choices / wider truth sets
Wide == "GEN_WIDE" \in DOMAIN IOEnv /\ IOEnv.GEN_WIDE = "1"

\* MNC / MNR (characters per row / rows) are mandatory GSI fields
NoMeta == [f \in {"mnc", "mnr"} |-> IF f = "mnc" THEN 40 ELSE 23]
TC0 == <<0, 0, 0, 0>>
Cue(tci, tco, vp, jc, rows) == [tci |-> tci, tco |-> tco, vp |-> vp, jc |-> jc, rows |-> rows]
BaseG(fps, dsc, tcp, cues) == [fps |-> fps, dsc |-> dsc, tcp |-> tcp, meta |-> NoMeta, cues |-> cues]
X == 120
Y == 121

\* K: explicit (truth, document) pairs
PrintableCodes == {c \in 32..255 : c \notin 128..159 /\ c \notin 192..207 /\ Latin(c) # 0}
Letters == (65..90) \cup (97..122)
KPair(codes, cps) ==
  [g |-> BaseG(25, 0, TC0, <<Cue(<<0, 0, 1, 0>>, <<0, 0, 2, 0>>, 20, 2, <<<<PlainRun(cps)>>>>)>>),
   d |-> [fps |-> 25, dsc |-> 0, tcp |-> TC0, meta |-> NoMeta,
          ttis |-> <<[ebn |-> 255, tci |-> <<0, 0, 1, 0>>, tco |-> <<0, 0, 2, 0>>, vp |-> 20, jc |-> 2, tf |-> codes]>>]]
PairsK == {KPair(<<X, c, Y>>, <<X, Latin(c), Y>>) : c \in PrintableCodes \ {32}}
          \cup {KPair(<<X, dc, b, Y>>, IF Compose(dc, b) # 0 THEN <<X, Compose(dc, b), Y>> ELSE <<X, b, Combining(dc), Y>>) :
                  dc \in DiacriticCodes, b \in Letters}

\* T: timecodes
HMS == IF Wide THEN {<<h, m, s>> : h \in {0, 1, 9, 10, 23}, m \in {0, 1, 59}, s \in {0, 1, 30, 58}}
       ELSE {<<0, 0, 0>>, <<0, 59, 59>>, <<1, 1, 58>>, <<10, 0, 0>>, <<23, 59, 58>>}
TruthsT == {BaseG(fps, 0, tcp, <<Cue(<<hms[1], hms[2], hms[3], f>>, <<hms[1], hms[2], hms[3] + 1, (f * 7) % fps>>, 20, 2, <<<<PlainRun(<<X>>)>>>>)>>) :
              fps \in {25, 30}, tcp \in {TC0, <<0, 0, 0, 0>>}, hms \in HMS, f \in 0..29} 
TruthsTOK == {t \in TruthsT : t.cues[1].tci[4] < t.fps}
           \cup {BaseG(fps, 0, <<10, 0, 0, 0>>, <<Cue(<<10, hms[2], hms[3], f>>, <<11, hms[2], hms[3], f>>, 20, 2, <<<<PlainRun(<<X>>)>>>>)>>) :
                   fps \in {25, 30}, hms \in HMS, f \in {0, 1, 12, 24}}
           \cup {BaseG(fps, 0, <<0, 59, 59, fps - 1>>, <<Cue(<<1, 0, 0, f>>, <<1, 0, 1, 0>>, 20, 2, <<<<PlainRun(<<X>>)>>>>)>>) : fps \in {25, 30}, f \in {0, 1, 2, 24}}

\* R: open-subtitling rows and runs
FlagSeqs == {<<0, 0>>, <<2, 2>>, <<2, 1>>, <<0, 2>>, <<1, 2>>}      \* flag of run 1, run 2 (0 only before the first set)
\* two adjacent runs with the same flags are one run (no code separates them): not a distinct truth
Runs2 == {rr \in {<<Run(<<X, 32, Y>>, it[1], un[1], bx[1], -1, 0), Run(<<Y, X>>, it[2], un[2], bx[2], -1, 0)>> :
                    it \in FlagSeqs, un \in {<<0, 0>>, <<0, 2>>, <<2, 1>>}, bx \in {<<0, 0>>, <<2, 1>>}} :
            <<rr[1].it, rr[1].un, rr[1].bx>> # <<rr[2].it, rr[2].un, rr[2].bx>>}
Runs1 == {<<Run(<<X, 32, Y>>, it, un, 0, -1, 0)>> : it \in {0, 2}, un \in {0, 2}}
TruthsR == {BaseG(25, 0, TC0, <<Cue(<<0, 0, 1, 0>>, <<0, 0, 2, 0>>, vp, jc, rows)>>) :
              vp \in (IF Wide THEN {0, 1, 12, 23, 99} ELSE {0, 12, 99}), jc \in 0..3,
              rows \in {<<r>> : r \in Runs1 \cup Runs2} \cup {<<r1, r2>> : r1 \in (IF Wide THEN Runs1 \cup Runs2 ELSE Runs1), r2 \in Runs1}}

\* a text that fills the 112-byte text field to its last byte, and one that leaves a single byte of padding
Filled(n) == [i \in 1..n |-> 65 + (i % 26)]
TruthsFull == {BaseG(25, 0, TC0, <<Cue(<<0, 0, 1, 0>>, <<0, 0, 2, 0>>, 20, 2, <<<<PlainRun(Filled(n))>>>>)>>) : n \in {111, 112}}

\* X: teletext display standards
TRow(a, col, dh) == <<Run(<<X, a, Y>>, 0, 0, 0, col, dh)>>
TruthsX == {BaseG(25, dsc, TC0, <<Cue(<<0, 0, 1, 0>>, <<0, 0, 2, 0>>, vp, 2, rows)>>) :
              dsc \in {1, 2}, vp \in (IF Wide THEN {1, 2, 12, 20, 22, 23} ELSE {1, 20, 23}),
              rows \in {<<TRow(65, c, h)>> : c \in (IF Wide THEN -1..7 ELSE {-1, 3, 7}), h \in {0, 2}} \cup {<<TRow(65, c1, 0), TRow(66, c2, 2)>> : c1 \in {-1, 6}, c2 \in {-1, 1}}}
           \* a blank display standard code (undefined): rows are not confined to a teletext page
           \cup {BaseG(25, -1, TC0, <<Cue(<<0, 0, 1, 0>>, <<0, 0, 2, 0>>, vp, 2, <<TRow(65, -1, 0)>>)>>) : vp \in {0, 20, 30}}

\* M: metadata
MetaAll == [f \in {"opt", "oet", "tpt", "tet", "tn", "tcd", "slr", "pub", "en", "ecd", "co", "lang", "mnc", "mnr", "rn"} |->
              CASE f = "lang" -> 2 [] f = "mnc" -> 38 [] f = "mnr" -> 11 [] f = "rn" -> 3 [] OTHER -> 1]
\* every text field filled to its last byte
MetaFull == [f \in {"opt", "oet", "tpt", "tet", "tn", "tcd", "slr", "pub", "en", "ecd", "co", "lang", "mnc", "mnr", "rn"} |->
               CASE f = "lang" -> 3 [] f = "mnc" -> 40 [] f = "mnr" -> 23 [] f = "rn" -> 1 [] OTHER -> 3]
Metas == {NoMeta, MetaAll, MetaFull, [f \in {"opt", "lang", "mnc", "mnr"} |-> IF f = "opt" THEN 2 ELSE IF f = "lang" THEN 4 ELSE IF f = "mnc" THEN 40 ELSE 23]}
TruthsM == {[fps |-> fps, dsc |-> dsc, tcp |-> TC0, meta |-> m,
             cues |-> <<Cue(<<0, 0, 1, 0>>, <<0, 0, 2, 0>>, 20, 2, <<IF dsc = 0 THEN <<PlainRun(<<X>>)>> ELSE TRow(65, -1, 0)>>),
                        Cue(<<0, 0, 3, 0>>, <<0, 0, 4, 12>>, 20, 1, <<IF dsc = 0 THEN <<PlainRun(<<Y>>)>> ELSE TRow(66, -1, 0)>>)>>] :
              fps \in {25, 30}, dsc \in {0, 1, -1}, m \in Metas}

Truths(fam) == CASE fam = "T" -> TruthsTOK [] fam = "R" -> TruthsR \cup TruthsFull [] fam = "X" -> TruthsX [] fam = "M" -> TruthsM [] fam = "K" -> {p.g : p \in PairsK}
Pairs(fam) == IF fam = "K" THEN PairsK ELSE UNION {{[g |-> t, d |-> D] : D \in Renderings(t)} : t \in Truths(fam)}

Init == \E p \in Pairs(FAM) : g = p.g /\ d = p.d /\ phase = "done"
Next == UNCHANGED vars
Spec == Init /\ [][Next]_vars
DecoderCorrect == \A ig \in BOOLEAN : Same(RefRead(d, ig), Truth(g, ig))
=============================================================================
