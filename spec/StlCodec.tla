------------------------------ MODULE StlCodec ------------------------------
(***************************************************************************)
(* C05: EBU Tech 3264 (STL) codec.                                         *)
(*                                                                         *)
(* Ground truth G = [fps, dsc, tcp, meta, cues]                            *)
(*   fps : 25 | 30 (disk format code STL25.01 / STL30.01)                  *)
(*   dsc : 0 open subtitling, 1 / 2 level-1 / level-2 teletext,            *)
(*         -1 blank = undefined (read like teletext, rows not clamped)     *)
(*   tcp : programme start timecode <<h, m, s, f>>                         *)
(*   meta: function GSI field name |-> atom                                *)
(*   cues: sequence of [tci, tco, vp, jc, rows]; tci/tco = <<h,m,s,f>>;    *)
(*         rows = sequence of rows, row = sequence of runs                 *)
(*         run = [t, it, un, bx, col, dh]  t = sequence of code points,    *)
(*         it/un/bx in {0 (never set in the row), 1 off, 2 on},            *)
(*         col = teletext colour 0..7 or -1, dh in {0, 1 off, 2 on}        *)
(* Document D = [fps, dsc, tcp, meta, ttis], ttis: sequence of             *)
(*   [ebn, tci, tco, vp, jc, tf]  tf = text field codes without padding    *)
(*   (ebn 255 = last block of a subtitle, 254 = reserved user data)        *)
(***************************************************************************)
EXTENDS Integers, Sequences, FiniteSets, SequencesExt, StlTables, TimeCodec

PAD == 143        \* 8Fh unused space
ROWBRK == 138     \* 8Ah
STARTBOX == 11    \* 0Bh
ENDBOX == 10      \* 0Ah
DHON == 13        \* 0Dh double height
DHOFF == 12       \* 0Ch normal height

Run(t, it, un, bx, col, dh) == [t |-> t, it |-> it, un |-> un, bx |-> bx, col |-> col, dh |-> dh]
PlainRun(t) == Run(t, 0, 0, 0, -1, 0)

---------------------------------------------------------------------------
(* instants *)
\* <<h,m,s,f>> as <<ms, ns>> (first whole nanosecond of the frame)
TcInst(tc, fps) == LET ns == FrameStartCeil(tc[4], fps) IN <<((tc[1] * 60 + tc[2]) * 60 + tc[3]) * 1000 + ns \div 1000000, ns % 1000000>>
\* a - b for a >= b
InstSub(a, b) == IF a[2] >= b[2] THEN <<a[1] - b[1], a[2] - b[2]>> ELSE <<a[1] - b[1] - 1, a[2] + 1000000 - b[2]>>
InstNear(a, b) == a = b \/ (a[1] = b[1] /\ (a[2] = b[2] + 1 \/ b[2] = a[2] + 1))
                  \/ (a[1] + 1 = b[1] /\ a[2] = 999999 /\ b[2] = 0) \/ (b[1] + 1 = a[1] /\ b[2] = 999999 /\ a[2] = 0)

---------------------------------------------------------------------------
(* text field: rendering of rows into codes *)
\* codes of one code point: direct code, or floating diacritic followed by the base letter
CodesOf(cp) ==
  IF \E c \in 32..255 : c \notin 128..159 /\ c \notin 192..207 /\ Latin(c) = cp
  THEN <<CHOOSE c \in 32..255 : c \notin 128..159 /\ c \notin 192..207 /\ Latin(c) = cp
                                 /\ \A c2 \in 32..255 : (c2 \notin 128..159 /\ c2 \notin 192..207 /\ Latin(c2) = cp) => c <= c2>>
  ELSE LET pr == CHOOSE p \in DiacriticCodes \X (65..122) : Compose(p[1], p[2]) = cp IN <<pr[1], pr[2]>>
Encodable(cp) == (\E c \in 32..255 : c \notin 128..159 /\ c \notin 192..207 /\ Latin(c) = cp)
                 \/ \E p \in DiacriticCodes \X (65..122) : Compose(p[1], p[2]) = cp

RECURSIVE TextCodes(_)
TextCodes(t) == IF t = <<>> THEN <<>> ELSE CodesOf(Head(t)) \o TextCodes(Tail(t))

\* spacing-attribute codes that take the flags from (pi,pu,pb) to (i,u,b): 80h/81h italics, 82h/83h underline, 84h/85h boxing
FlagCodes(p, n, onc) == IF n = p \/ n = 0 THEN <<>> ELSE IF n = 2 THEN <<onc>> ELSE <<onc + 1>>

RECURSIVE OpenRow(_, _)
OpenRow(runs, prev) ==
  IF runs = <<>> THEN <<>>
  ELSE LET r == Head(runs) IN
       FlagCodes(prev.it, r.it, 128) \o FlagCodes(prev.un, r.un, 130) \o FlagCodes(prev.bx, r.bx, 132)
       \o TextCodes(r.t) \o (IF Len(runs) > 1 THEN <<32>> ELSE <<>>) \o OpenRow(Tail(runs), r)

\* teletext row: colour / height codes, start box twice, text, end box twice (one run per row in this model);
\* a row may also be transmitted without any box code (then the whole row is text)
TeletextRow(runs, boxed) ==
  LET r == runs[1] IN
  (IF r.dh = 2 THEN <<DHON>> ELSE <<>>) \o (IF r.col >= 0 THEN <<r.col>> ELSE <<>>)
  \o (IF boxed THEN <<STARTBOX, STARTBOX>> ELSE <<>>) \o TextCodes(r.t) \o (IF boxed THEN <<ENDBOX, ENDBOX>> ELSE <<>>)

\* box pattern of a block: which rows carry box codes ("all", "none", the odd ones, the even ones)
BoxPatterns == {"all", "none", "odd", "even"}
Boxed(bp, i) == bp = "all" \/ (bp = "odd" /\ i % 2 = 1) \/ (bp = "even" /\ i % 2 = 0)

RECURSIVE RowsCodes(_, _, _, _)
RowsCodes(rows, dsc, bp, i) ==
  IF rows = <<>> THEN <<>>
  ELSE (IF dsc = 0 THEN OpenRow(Head(rows), PlainRun(<<>>)) ELSE TeletextRow(Head(rows), Boxed(bp, i)))
       \o (IF Len(rows) > 1 THEN <<ROWBRK>> ELSE <<>>) \o RowsCodes(Tail(rows), dsc, bp, i + 1)

TTIOf(c, dsc, bp) == [ebn |-> 255, tci |-> c.tci, tco |-> c.tco, vp |-> c.vp, jc |-> c.jc, tf |-> RowsCodes(c.rows, dsc, bp, 1)]
UserData == [ebn |-> 254, tci |-> <<0, 0, 0, 0>>, tco |-> <<0, 0, 0, 0>>, vp |-> 0, jc |-> 0, tf |-> <<85, 83, 69, 82>>]

\* renderings: with / without reserved user-data blocks interleaved; teletext blocks under every box pattern
Renderings(G) ==
  {[fps |-> G.fps, dsc |-> G.dsc, tcp |-> G.tcp, meta |-> G.meta,
    ttis |-> IF ud THEN <<UserData>> \o FlattenSeq([i \in DOMAIN G.cues |-> <<TTIOf(G.cues[i], G.dsc, bp), UserData>>])
                   ELSE [i \in DOMAIN G.cues |-> TTIOf(G.cues[i], G.dsc, bp)]] :
     ud \in BOOLEAN, bp \in (IF G.dsc = 0 THEN {"all"} ELSE BoxPatterns)}

---------------------------------------------------------------------------
(* Implementation layer: the block loop of stl.go:ReadFromSTL - one step per 128-byte TTI block; the hook after
   parseTTIBlock reports the cues appended so far and the block's extension block number (FEh = user data,
   skipped) *)
ImplHooks(D) == [i \in DOMAIN D.ttis |->
                   [items |-> Cardinality({j \in 1..(i - 1) : D.ttis[j].ebn # 254}), ebn |-> D.ttis[i].ebn]]

---------------------------------------------------------------------------
(* Reference decoder of a text field (from the format description) *)
\* state: rows done, runs of the current row, current run text, flags, pending diacritic, box open, col, dh
InitTF == [rows |-> <<>>, runs |-> <<>>, t |-> <<>>, it |-> 0, un |-> 0, bx |-> 0, col |-> -1, dh |-> 0, acc |-> 0, box |-> FALSE]

TrimCps(t) ==
  LET first == IF \E i \in DOMAIN t : t[i] # 32 THEN CHOOSE i \in DOMAIN t : t[i] # 32 /\ \A j \in 1..(i - 1) : t[j] = 32 ELSE 0
      last == IF first = 0 THEN 0 ELSE CHOOSE i \in DOMAIN t : t[i] # 32 /\ \A j \in (i + 1)..Len(t) : t[j] = 32
  IN  IF first = 0 THEN <<>> ELSE SubSeq(t, first, last)

Flush(s) == IF TrimCps(s.t) = <<>> THEN [s EXCEPT !.t = <<>>]
            ELSE [s EXCEPT !.runs = Append(@, Run(TrimCps(s.t), s.it, s.un, s.bx, s.col, s.dh)), !.t = <<>>]
EndRow(s) == LET f == Flush(s) IN
             [f EXCEPT !.rows = IF f.runs = <<>> THEN @ ELSE Append(@, f.runs), !.runs = <<>>,
                       !.it = 0, !.un = 0, !.bx = 0, !.col = -1, !.dh = 0, !.acc = 0, !.box = FALSE]

SetFlag(s, fld, v) == IF s[fld] = v THEN s ELSE [Flush(s) EXCEPT ![fld] = v]

TFStep(s, c, dsc) ==
  IF c = PAD THEN s
  ELSE IF c = ROWBRK THEN EndRow(s)
  ELSE IF c \in 128..133 THEN
         SetFlag(s, IF c \in {128, 129} THEN "it" ELSE IF c \in {130, 131} THEN "un" ELSE "bx", IF c % 2 = 0 THEN 2 ELSE 1)
  ELSE IF dsc # 0 /\ c \in 0..7 THEN SetFlag(s, "col", c)
  ELSE IF dsc # 0 /\ c = STARTBOX THEN [s EXCEPT !.box = TRUE]
  ELSE IF dsc # 0 /\ c = ENDBOX THEN [s EXCEPT !.box = FALSE]
  ELSE IF dsc # 0 /\ c = DHON THEN SetFlag(s, "dh", 2)
  ELSE IF dsc # 0 /\ c = DHOFF THEN SetFlag(s, "dh", 1)
  ELSE IF dsc # 0 /\ ~s.box THEN s                      \* teletext: only boxed text is subtitle text
  ELSE IF c \in DiacriticCodes THEN [s EXCEPT !.acc = c]
  ELSE IF s.acc # 0 THEN
         \* diacritic + letter: the precomposed character, or letter followed by the combining mark (NFC)
         [s EXCEPT !.t = IF Compose(s.acc, c) # 0 THEN Append(@, Compose(s.acc, c))
                          ELSE IF Latin(c) # 0 THEN @ \o <<Latin(c), Combining(s.acc)>> ELSE @, !.acc = 0]
  ELSE IF Latin(c) # 0 THEN [s EXCEPT !.t = Append(@, Latin(c))]
  ELSE s

\* rows of a text field (split at the row-break code)
RECURSIVE SplitRows(_, _)
SplitRows(tf, cur) ==
  IF tf = <<>> THEN <<cur>>
  ELSE IF Head(tf) = ROWBRK THEN <<cur>> \o SplitRows(Tail(tf), <<>>) ELSE SplitRows(Tail(tf), Append(cur, Head(tf)))

RECURSIVE RowFold(_, _, _)
RowFold(s, row, dsc) == IF row = <<>> THEN s ELSE RowFold(TFStep(s, Head(row), dsc), Tail(row), dsc)

\* a teletext row should box its text (0Bh ... 0Ah); a row that carries no start box at all is displayed as a
\* whole (files without any box codes are common, the library writes them itself)
RECURSIVE RowsFold(_, _, _)
RowsFold(s, rows, dsc) ==
  IF rows = <<>> THEN s.rows
  ELSE LET row == Head(rows)
           s0 == [s EXCEPT !.box = (dsc # 0 /\ ~\E i \in DOMAIN row : row[i] = STARTBOX)]
       IN  RowsFold(EndRow(RowFold(s0, row, dsc)), Tail(rows), dsc)

TFDecode(s, tf, dsc) == RowsFold(s, SplitRows(tf, <<>>), dsc)

RefRead(D, ignoreTcp) ==
  LET blocks == SelectSeq(D.ttis, LAMBDA b : b.ebn # 254)
      off == IF ignoreTcp THEN <<0, 0>> ELSE TcInst(D.tcp, D.fps)
  IN  [fps |-> D.fps, dsc |-> D.dsc, meta |-> D.meta,
       cues |-> [i \in DOMAIN blocks |->
                   [s |-> InstSub(TcInst(blocks[i].tci, D.fps), off), e |-> InstSub(TcInst(blocks[i].tco, D.fps), off),
                    vp |-> blocks[i].vp, jc |-> blocks[i].jc, rows |-> TFDecode(InitTF, blocks[i].tf, D.dsc)]]]

Truth(G, ignoreTcp) ==
  LET off == IF ignoreTcp THEN <<0, 0>> ELSE TcInst(G.tcp, G.fps) IN
  [fps |-> G.fps, dsc |-> G.dsc, meta |-> G.meta,
   cues |-> [i \in DOMAIN G.cues |->
               [s |-> InstSub(TcInst(G.cues[i].tci, G.fps), off), e |-> InstSub(TcInst(G.cues[i].tco, G.fps), off),
                vp |-> G.cues[i].vp, jc |-> G.cues[i].jc, rows |-> G.cues[i].rows]]]

\* equality up to one nanosecond on the instants
SameCues(R, T) ==
  /\ Len(R) = Len(T)
  /\ \A i \in DOMAIN T : /\ InstNear(R[i].s, T[i].s) /\ InstNear(R[i].e, T[i].e)
                         /\ R[i].vp = T[i].vp /\ R[i].jc = T[i].jc /\ R[i].rows = T[i].rows
Same(R, T) == R.fps = T.fps /\ R.dsc = T.dsc /\ R.meta = T.meta /\ SameCues(R.cues, T.cues)

\* a written file may spell out defaults for mandatory GSI fields the list does not carry (language, country)
MetaCarried(R, T) == \A k \in DOMAIN T : k \in DOMAIN R /\ R[k] = T[k]
\* under the teletext display standards the vertical position is a row number 1..23
ClampVp(vp, dsc) == IF dsc \notin {1, 2} THEN vp ELSE IF vp < 1 THEN 1 ELSE IF vp > 23 THEN 23 ELSE vp
\* a list that carries STL metadata without a country of origin denotes a blank country: the writer has no default to spell out
CountryKept(R, T) == ("co" \in DOMAIN R.meta) = ("co" \in DOMAIN T.meta)
\* a flag that is explicitly off and a flag that was never set denote the same (the writer only marks what is on)
OffIsUnset(rows) == [i \in DOMAIN rows |-> [j \in DOMAIN rows[i] |->
                       [rows[i][j] EXCEPT !.it = IF @ = 1 THEN 0 ELSE @, !.un = IF @ = 1 THEN 0 ELSE @, !.bx = IF @ = 1 THEN 0 ELSE @]]]
SameWritten(R, T) ==
  /\ R.fps = T.fps /\ R.dsc = T.dsc /\ MetaCarried(R.meta, T.meta)
  /\ SameCues([i \in DOMAIN R.cues |-> [R.cues[i] EXCEPT !.rows = OffIsUnset(@)]],
              [i \in DOMAIN T.cues |-> [T.cues[i] EXCEPT !.vp = ClampVp(@, R.dsc), !.rows = OffIsUnset(@)]])

\* replace a code point in every run of a decoded / true document
ReplaceCp(X, from, to) ==
  [X EXCEPT !.cues = [i \in DOMAIN X.cues |-> [X.cues[i] EXCEPT !.rows =
     [r \in DOMAIN X.cues[i].rows |-> [k \in DOMAIN X.cues[i].rows[r] |->
        [X.cues[i].rows[r][k] EXCEPT !.t = [p \in DOMAIN @ |-> IF @[p] = from THEN to ELSE @[p]]]]]]]]
HasCp(X, cp) == \E i \in DOMAIN X.cues : \E r \in DOMAIN X.cues[i].rows : \E k \in DOMAIN X.cues[i].rows[r] :
                  \E p \in DOMAIN X.cues[i].rows[r][k].t : X.cues[i].rows[r][k].t[p] = cp
=============================================================================
