SPECIFICATION Spec
CONSTANT FAM = "P"
INVARIANT DecoderCorrect
CHECK_DEADLOCK FALSE
