SPECIFICATION Spec
CONSTANT FAM = "P"
INVARIANT DecoderCorrect
INVARIANT CtlRefines
CHECK_DEADLOCK FALSE
