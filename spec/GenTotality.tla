---------------------------- MODULE GenTotality ----------------------------
EXTENDS Totality, Json, IOUtils
Env(n, dflt) == IF n \in DOMAIN IOEnv THEN atoi(IOEnv[n]) ELSE dflt
gK == Env("GEN_K", 3)
gP == Env("GEN_PART", 0)
gPS == Env("GEN_PARTS", 1)
gKind == IOEnv.GEN_KIND
Mine(S) == LET q == SetToSeq(S) IN [j \in 1..Cardinality({i \in DOMAIN q : i % gPS = gP}) |-> q[SetToSortSeq({i \in DOMAIN q : i % gPS = gP}, <)[j]]]
Cases(z) ==
  IF gKind = "shapes" THEN SetToSeq({[kind |-> "shape", fmt |-> "", toks |-> <<>>, mut |-> [f |-> "", v |-> ""], shape |-> s] :
                                        \* every partition holds every text class (the partition key leaves the text out)
                                        s \in {x \in Shapes : x.text <= gK /\ (x.styles + 3 * x.regions + 5 * x.istyle + 7 * x.lines + 11 * x.iregion) % gPS = gP}})
  ELSE IF gKind = "stl" THEN Mine({[kind |-> "stl", fmt |-> "stl", toks |-> <<>>, mut |-> m, shape |-> <<>>] : m \in StlMutations})
  ELSE Mine({[kind |-> "tokens", fmt |-> gKind, toks |-> t, mut |-> [f |-> "", v |-> ""], shape |-> <<>>] : t \in SeqsUpTo(Alphabet(gKind), gK)})
ASSUME LET cs == Cases(0) IN ndJsonSerialize(IOEnv.GEN_OUT, cs) /\ PrintT(<<"GENERATED", gKind, Len(cs)>>)
VARIABLE x
Init == x = 0
Next == UNCHANGED x
=============================================================================
