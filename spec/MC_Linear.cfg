INIT Init
NEXT Next
CONSTANT R = 5
INVARIANT Laws
CHECK_DEADLOCK FALSE
