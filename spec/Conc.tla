-------------------------------- MODULE Conc --------------------------------
(***************************************************************************)
(* C20: independent calls are safe to run concurrently.                    *)
(*                                                                         *)
(* Calls c \in Calls run their steps (one step per instrumented site of    *)
(* the implementation: a line of a line-based reader, a TTI block, a       *)
(* packet; a call without instrumented site is one step). Every step reads *)
(* the package-level tables; the result of a call is a function of what it *)
(* read and of its private input. Normative:                               *)
(*   TablesConstant  - no step writes the tables                           *)
(*   AloneEquivalent - in every interleaving every call returns what it    *)
(*                     returns when run alone                              *)
(* LEAKY = TRUE models an implementation whose step 2 patches the shared   *)
(* table in place (e.g. national-option substitution applied to the shared *)
(* G0 set instead of a per-call copy): TLC then exhibits an interleaving   *)
(* that breaks AloneEquivalent. The interleavings of this model are the    *)
(* schedules the harness forces on the real code through the hook gate.    *)
(***************************************************************************)
EXTENDS Integers, Sequences, FiniteSets, TLC
CONSTANTS NCALLS, NSTEPS, LEAKY
Calls == 1..NCALLS
VARIABLES pc, acc, tables, sched
vars == <<pc, acc, tables, sched>>

Init == pc = [c \in Calls |-> 0] /\ acc = [c \in Calls |-> <<>>] /\ tables = 0 /\ sched = <<>>

\* what a call reads at a step: the table value combined with its private input
Step(c) ==
  /\ pc[c] < NSTEPS
  /\ pc' = [pc EXCEPT ![c] = @ + 1]
  /\ acc' = [acc EXCEPT ![c] = Append(@, <<c, pc[c] + 1, tables>>)]
  /\ tables' = IF LEAKY /\ pc[c] + 1 = 2 THEN c ELSE tables
  /\ sched' = Append(sched, c)

Next == \E c \in Calls : Step(c)
Spec == Init /\ [][Next]_vars

Done == \A c \in Calls : pc[c] = NSTEPS
\* result of call c when it runs alone from the initial tables
RECURSIVE AloneFrom(_, _, _)
AloneFrom(c, k, tb) == IF k > NSTEPS THEN <<>> ELSE <<<<c, k, tb>>>> \o AloneFrom(c, k + 1, IF LEAKY /\ k = 2 THEN c ELSE tb)
Alone(c) == AloneFrom(c, 1, 0)

TablesConstant == [][tables' = tables]_vars
AloneEquivalent == Done => \A c \in Calls : acc[c] = Alone(c)
\* the schedule is an output-only history: it is not part of the state that matters
View == <<pc, acc, tables>>
=============================================================================
