------------------------------ MODULE MC_Linear ------------------------------
(* Spec-level check of C15's relation on integer grids where the affine map is exact:
   Lin(t) = d1 + (t-a1)(d2-d1)/(a2-a1) whenever the division is exact. Laws: a1 -> d1, a2 -> d2,
   BoundaryOK accepts exactly the values within TOL of Lin(t), order is kept for positive slope. *)
EXTENDS Integers, Sequences, TLC
CONSTANT R
L == INSTANCE Linear WITH BASE <- 10, TOL <- 1
VARIABLES a1, d1, a2, d2, t
vars == <<a1, d1, a2, d2, t>>
Init == a1 \in 0..R /\ a2 \in 0..R /\ a1 # a2 /\ d1 \in (0 - 1)..R /\ d2 \in (0 - 1)..R /\ t \in 0..R
Next == UNCHANGED vars
Q == [a1 |-> L!B!FromInt(a1), d1 |-> L!B!FromInt(d1), a2 |-> L!B!FromInt(a2), d2 |-> L!B!FromInt(d2)]
Sg == IF a2 > a1 THEN 1 ELSE -1
Num == (t - a1) * (d2 - d1) * Sg
Den == (a2 - a1) * Sg
Exact == Num % Den = 0
Lin == d1 + Num \div Den
Laws ==
  /\ L!BoundaryOK(Q, L!B!FromInt(a1), L!B!FromInt(d1))
  /\ L!BoundaryOK(Q, L!B!FromInt(a2), L!B!FromInt(d2))
  /\ Exact => /\ L!BoundaryOK(Q, L!B!FromInt(t), L!B!FromInt(Lin))
              /\ L!BoundaryOK(Q, L!B!FromInt(t), L!B!FromInt(Lin + 1))
              /\ L!BoundaryOK(Q, L!B!FromInt(t), L!B!FromInt(Lin - 1))
              /\ ~L!BoundaryOK(Q, L!B!FromInt(t), L!B!FromInt(Lin + 2))
              /\ ~L!BoundaryOK(Q, L!B!FromInt(t), L!B!FromInt(Lin - 2))
  /\ L!PositiveSlope(Q) <=> ((a2 - a1) * (d2 - d1) > 0)
==============================================================================
