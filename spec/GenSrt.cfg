SPECIFICATION Spec
CONSTANTS
  MAXCUES = 0
  FAM = "A"
CHECK_DEADLOCK FALSE
