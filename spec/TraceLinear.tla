----------------------------- MODULE TraceLinear -----------------------------
(* Trace validation for C15: one line per recorded call of ApplyLinearCorrection; all instants are
   nanoseconds as BigInt limb records (base 10^4). State = line counter. *)
EXTENDS Integers, Sequences, Json, IOUtils, TLC
L == INSTANCE Linear WITH BASE <- 10000, TOL <- 1000
Trace == ndJsonDeserialize(IOEnv.TRACE)
VARIABLE l
WellFormed(ev) ==
  /\ L!B!IsBig(ev.q.a1) /\ L!B!IsBig(ev.q.d1) /\ L!B!IsBig(ev.q.a2) /\ L!B!IsBig(ev.q.d2)
  /\ \A i \in DOMAIN ev.bs : L!B!IsBig(ev.bs[i].t) /\ L!B!IsBig(ev.bs[i].u)
Reason(ev) ==
  IF ev.res # "ok" THEN ev.res
  ELSE IF ~WellFormed(ev) THEN "malformed"
  ELSE IF L!B!Eq(ev.q.a1, ev.q.a2) THEN "precondition"
  ELSE IF ~(\A i \in DOMAIN ev.bs : L!BoundaryOK(ev.q, ev.bs[i].t, ev.bs[i].u)) THEN "boundary-off-by-more-than-1us"
  ELSE IF ~L!OrderKept(ev.q, ev.bs) THEN "order"
  ELSE IF ~L!LengthsScaled(ev.q, ev.bs) THEN "length"
  ELSE IF ev.idsPre # ev.idsPost THEN "list-order"
  ELSE IF ~ev.contentOK THEN "content"
  ELSE "ok"
Init == l = 1
Step == /\ l <= Len(Trace)
        /\ LET r == Reason(Trace[l]) IN IF r = "ok" THEN TRUE ELSE PrintT(<<"V", l, Trace[l].n, "C15", r>>)
        /\ l' = l + 1
Spec == Init /\ [][Step]_l
Accepted == TLCGet("stats").diameter - 1 = Len(Trace)
==============================================================================
