------------------------------- MODULE VttMC -------------------------------
(* Model checking of the WebVTT specification itself (reference decoder vs rendering relation) and source of
   the generated cases. Families: "H" header material (timestamp map, STYLE block, regions, header trail, EOL, BOM),
   "C" cue structure (ids, comments, settings, voices, tag stacks, inline timestamps, hours, tabs),
   "P" pairs of cues (tag stack / comment / id state between cues). *)
EXTENDS VttCodec, IOUtils
CONSTANT FAM
VARIABLES g, d
vars == <<g, d>>

\* GEN_WIDE=1 (thorough tier): the families range over the whole space of rendering choices / wider truth sets
Wide == "GEN_WIDE" \in DOMAIN IOEnv /\ IOEnv.GEN_WIDE = "1"

Tb == [name |-> "b", cls |-> <<>>, ann |-> 0]
Ti == [name |-> "i", cls |-> <<>>, ann |-> 0]
Tu == [name |-> "u", cls |-> <<>>, ann |-> 0]
Tc1 == [name |-> "c", cls |-> <<1>>, ann |-> 0]
Tc2 == [name |-> "c", cls |-> <<2>>, ann |-> 0]
Tc12 == [name |-> "c", cls |-> <<1, 2>>, ann |-> 0]
Tl == [name |-> "lang", cls |-> <<>>, ann |-> 1]
Stacks == {<<>>, <<Tb>>, <<Tc1>>, <<Tc2>>, <<Tb, Ti>>, <<Tc1, Tl>>, <<Tu, Ti, Tc12>>}
StacksSmall == {<<>>, <<Tb>>, <<Tc1, Tl>>}

NoSet == [align |-> 0, line |-> 0, position |-> 0, size |-> 0, vertical |-> 0]
Sets == {NoSet, [NoSet EXCEPT !.align = 1], [NoSet EXCEPT !.line = 1, !.position = 1], [align |-> 2, line |-> 2, position |-> 2, size |-> 1, vertical |-> 1]}

Run1(a, st, ts) == [a |-> a, tags |-> st, ts |-> ts, col |-> 0]
\* two adjacent runs with the same stack and no timestamp in between are one run: not a distinct truth
RunSeqs(stacks) == {<<Run1(1, st, 0)>> : st \in stacks}
                   \cup ({<<Run1(1, s1, 0), Run1(2, s2, ts)>> : s1 \in stacks, s2 \in stacks, ts \in {0, 1500}}
                         \ {<<Run1(1, s1, 0), Run1(2, s1, 0)>> : s1 \in stacks})
Line1(v, runs) == [voice |-> v, runs |-> runs]
SimpleCue(s, e) == [s |-> s, e |-> e, id |-> 0, notes |-> <<>>, set |-> NoSet, region |-> 0, lines |-> <<Line1(0, <<Run1(1, <<>>, 0)>>)>>]

R1 == [id |-> 1, lines |-> 3, width |-> 1, scroll |-> 1, anchor |-> 1, viewport |-> 2]
R2 == [id |-> 2, lines |-> 0, width |-> 0, scroll |-> 0, anchor |-> 0, viewport |-> 0]
R3 == [id |-> 2, lines |-> 0, width |-> 0, scroll |-> 0, anchor |-> 2, viewport |-> 0]
R4 == [id |-> 1, lines |-> 0, width |-> 0, scroll |-> 0, anchor |-> 0, viewport |-> 1]
BaseG == [tsmap |-> <<>>, css |-> <<>>, regions |-> <<>>, cues |-> <<>>]

\* the region reference is combined with every cue-setting subset (a setting may not hide the region)
TruthsH == {[tsmap |-> tm, css |-> cs, regions |-> rg, cues |-> <<[SimpleCue(0, 1500) EXCEPT !.region = rr, !.set = st]>>] :
              \* 2147483647 stands for 8589934591 = 2^33 - 1, the largest MPEG-TS time stamp (TLC's integers are 32 bits
              \* wide; the harness writes and reads the real value)
              tm \in {<<>>, <<[local |-> 0, mpegts |-> 900000]>>, <<[local |-> 3723004, mpegts |-> 123456789]>>, <<[local |-> 1000, mpegts |-> 2147483647]>>,
                      <<[local |-> 10000, mpegts |-> 0]>>},
              cs \in {<<>>, <<1>>, <<1, 2>>}, rg \in {<<>>, <<R1>>, <<R1, R2>>, <<R2>>, <<R4, R3>>}, rr \in {0, 1, 2}, st \in Sets}
TruthsHOK == {t \in TruthsH : t.cues[1].region = 0 \/ \E i \in DOMAIN t.regions : t.regions[i].id = t.cues[1].region}

TruthsC == {[BaseG EXCEPT !.cues = <<[s |-> tp[1], e |-> tp[2], id |-> id, notes |-> nt, set |-> st, region |-> 0, lines |-> ls]>>] :
              \* (the last time pair lies beyond 24 h)
              tp \in {<<0, 1500>>, <<3599999, 3723004>>, <<90610123, 93600500>>}, id \in {0, 7}, nt \in {<<>>, <<1>>, <<1, 2>>}, st \in Sets,
              ls \in {<<Line1(v, rs)>> : v \in {0, 1}, rs \in RunSeqs(Stacks)}
                     \* two lines, the second spoken by nobody or by the same voice as the first
                     \cup {<<Line1(v, <<Run1(1, s1, 0)>>), Line1(v2, <<Run1(2, s2, 0)>>)>> : v \in {0, 1}, v2 \in {0, 1}, s1 \in StacksSmall, s2 \in StacksSmall}}

TruthsP == {[BaseG EXCEPT !.cues = <<[SimpleCue(0, 1000) EXCEPT !.id = i1, !.notes = n1, !.set = st1, !.lines = <<Line1(0, <<Run1(1, s1, 0)>>)>>],
                                     [SimpleCue(2000, 3000) EXCEPT !.id = i2, !.notes = n2, !.lines = <<Line1(v2, <<Run1(2, s2, 0)>>)>>]>>] :
              \* (the first cue with or without settings: what is pending for the second cue must not depend on it)
              i1 \in {0, 5}, i2 \in {0, 9}, n1 \in {<<>>, <<1>>}, n2 \in {<<>>, <<2>>}, s1 \in StacksSmall, s2 \in StacksSmall, v2 \in {0, 1},
              st1 \in {NoSet, [align |-> 2, line |-> 2, position |-> 2, size |-> 1, vertical |-> 1]}}

\* N: nesting - tags of the same name inside one another (class spans in class spans, i in b in i), runs that leave
\* the inner span only, up to three runs on a line
Tc3 == [name |-> "c", cls |-> <<3>>, ann |-> 0]
\* ... and tags of the same name that differ in their annotation only (<lang en> next to <lang fr>)
Tl2 == [name |-> "lang", cls |-> <<>>, ann |-> 2]
Tlc == [name |-> "lang", cls |-> <<1>>, ann |-> 1]      \* a class and an annotation on the same tag
\* ... and a class that names a colour (the writer wraps such runs) next to runs sharing a tag with it
StacksN == {<<>>, <<Tc1>>, <<Tc1, Tc2>>, <<Tc1, Tc2, Tc3>>, <<Ti>>, <<Ti, Tb>>, <<Ti, Tb, Ti>>, <<Tl>>, <<Tl2>>, <<Tc1, Tl2>>,
            <<Tb>>, <<Tc2, Tb>>, <<Tb, Tc2>>, <<Tlc>>}
RunSeqsN == {rs \in {<<Run1(1, s1, 0), Run1(2, s2, 0)>> : s1 \in StacksN, s2 \in StacksN} : rs[1].tags # rs[2].tags}
            \cup {rs \in {<<Run1(1, s1, 0), Run1(2, s2, 0), Run1(3, s3, 0)>> : s1 \in StacksN, s2 \in StacksN, s3 \in StacksN} :
                     rs[1].tags # rs[2].tags /\ rs[2].tags # rs[3].tags}
TruthsN == {[BaseG EXCEPT !.cues = <<[SimpleCue(0, 1500) EXCEPT !.lines = <<Line1(0, rs)>>]>>] : rs \in RunSeqsN}

\* K: runs that carry a colour from another format next to runs that share tags with them
RunK(a, st, c) == [a |-> a, tags |-> st, ts |-> 0, col |-> c]
TruthsK == {[BaseG EXCEPT !.cues = <<[SimpleCue(0, 1500) EXCEPT !.lines = <<Line1(0, <<RunK(1, s1, c1), RunK(2, s2, c2)>>)>>]>>] :
              s1 \in {<<>>, <<Tb>>, <<Tb, Ti>>}, s2 \in {<<>>, <<Tb>>, <<Ti>>, <<Tb, Ti>>}, c1 \in {0, 2}, c2 \in {0, 2}}
           \ {[BaseG EXCEPT !.cues = <<[SimpleCue(0, 1500) EXCEPT !.lines = <<Line1(0, <<RunK(1, s1, 0), RunK(2, s1, 0)>>)>>]>>] : s1 \in {<<>>, <<Tb>>, <<Tb, Ti>>}}

Truths(fam) == CASE fam = "K" -> TruthsK [] fam = "H" -> TruthsHOK [] fam = "C" -> TruthsC [] fam = "P" -> TruthsP [] fam = "N" -> TruthsN
Vars(fam) == IF Wide THEN AllVars ELSE
             CASE fam = "H" -> [AllVars EXCEPT !.hrs = {TRUE}, !.tabs = {FALSE}]
               [] fam = "C" -> [AllVars EXCEPT !.trails = {FALSE}, !.eols = {"lf"}, !.boms = {FALSE}]
               [] fam = "P" -> [AllVars EXCEPT !.trails = {FALSE}, !.eols = {"crlf"}, !.boms = {TRUE}, !.hrs = {FALSE}, !.tabs = {FALSE}, !.textids = {TRUE}]
               [] fam = "K" -> [AllVars EXCEPT !.trails = {FALSE}, !.eols = {"lf"}, !.boms = {FALSE}, !.hrs = {FALSE}, !.tabs = {FALSE}]
               [] fam = "N" -> [AllVars EXCEPT !.trails = {FALSE}, !.eols = {"lf"}, !.boms = {FALSE}, !.hrs = {FALSE}, !.tabs = {FALSE}]

Init == g \in Truths(FAM) /\ d = [eol |-> "", bom |-> FALSE, toks |-> <<>>]
Next == d.eol = "" /\ d' \in Renderings(ColourAsClass(g), Vars(FAM)) /\ UNCHANGED g
Spec == Init /\ [][Next]_vars
DecoderCorrect == d.eol # "" => RefRead(d) = Truth(ColourAsClass(g))
=============================================================================
