----------------------------- MODULE GenScanner -----------------------------
(* Case generation for C17/C18 (model-level conformance): every document of length <= L over {c,l,x} x every
   clean schedule, every fault schedule; block reader: every length <= 2B+1 x every schedule. *)
EXTENDS ScannerMC, Json, IOUtils, SequencesExt
Env(n, dflt) == IF n \in DOMAIN IOEnv THEN atoi(IOEnv[n]) ELSE dflt
gL == Env("GEN_L", 4)
gP == Env("GEN_PART", 0)
gPS == Env("GEN_PARTS", 1)
gB == Env("GEN_B", 3)
Hash(d) == Len(d) + (IF d = <<>> THEN 0 ELSE (IF d[1] = "c" THEN 1 ELSE IF d[1] = "l" THEN 2 ELSE 3)
                       + 3 * (IF d[Len(d)] = "c" THEN 1 ELSE IF d[Len(d)] = "l" THEN 2 ELSE 3))
MyDocs(z) == {d \in Docs(gL) : Hash(d) % gPS = gP}
LineCases(z) ==
  UNION {{[kind |-> "lines", doc |-> d, len |-> 0, b |-> 0, sched |-> s] :
            s \in CleanScheds(Len(d)) \cup (IF IOEnv.GEN_FAULTS = "1" THEN FaultScheds(Len(d)) ELSE {})} : d \in MyDocs(0)}
BlockCases(z) ==
  UNION {{[kind |-> "blocks", doc |-> <<>>, len |-> n, b |-> gB, sched |-> s] :
            s \in CleanScheds(n) \cup (IF IOEnv.GEN_FAULTS = "1" THEN FaultScheds(n) ELSE {})} :
           n \in {m \in 0..(2 * gB + 1) : m % gPS = gP}}
ASSUME LET cs == LineCases(0) \cup BlockCases(0) IN
       /\ ndJsonSerialize(IOEnv.GEN_OUT, SetToSeq(cs))
       /\ PrintT(<<"GENERATED", "scanner", Cardinality(cs)>>)
=============================================================================
