SPECIFICATION Spec
CONSTANTS
  MAXCUES = 1
  FAM = "A"
INVARIANT DecoderCorrect
CHECK_DEADLOCK FALSE
