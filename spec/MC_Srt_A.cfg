SPECIFICATION Spec
CONSTANTS
  MAXCUES = 1
  FAM = "A"
INVARIANTS DecoderCorrect ImplRefines
CHECK_DEADLOCK FALSE
