------------------------------- MODULE GenStl -------------------------------
(* Case generation for C05: every (ground truth, document) pair of StlMC's families, as JSON. *)
EXTENDS StlMC, Json, IOUtils
Env(n, dflt) == IF n \in DOMAIN IOEnv THEN atoi(IOEnv[n]) ELSE dflt
gP == Env("GEN_PART", 0)
gPS == Env("GEN_PARTS", 1)
gFam == IOEnv.GEN_FAM
PairSeq(z) == SetToSeq(Pairs(gFam))
ASSUME LET ps == PairSeq(0)
           mine == SelectSeq(ps, LAMBDA p : TRUE)
           idx == {i \in DOMAIN ps : i % gPS = gP}
           out == [j \in 1..Cardinality(idx) |-> ps[SetToSortSeq(idx, <)[j]]]
       IN  /\ ndJsonSerialize(IOEnv.GEN_OUT, out)
           /\ PrintT(<<"GENERATED", "stl", Len(out)>>)
=============================================================================
