SPECIFICATION Spec
CONSTANTS
  CR_WAITS = TRUE
  CHECKS_ERR = TRUE
  BLOCK_LOOPS = TRUE
  MAXTOK = 8
  L = 0
  FAULTS = FALSE
INVARIANTS BlocksScheduleIndependent BlocksFaultReported
CHECK_DEADLOCK FALSE
