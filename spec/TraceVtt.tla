------------------------------- MODULE TraceVtt -------------------------------
(* Trace validation for C02 (same shape as TraceSrt). *)
EXTENDS VttCodec, Json, IOUtils
Trace == ndJsonDeserialize(IOEnv.TRACE)
VARIABLE l
Strip(p) == [tsmap |-> p.tsmap, css |-> p.css, regions |-> p.regions, cues |-> p.cues]
Reason(ev) ==
  IF ev.dir = "read" THEN
    IF RefRead(ev.d) # Truth(ColourAsClass(Strip(ev.g))) THEN "ORACLE-reference-decoder-disagrees-with-generator"
    ELSE IF ev.res # "ok" THEN "reader-" \o ev.res
    ELSE IF Strip(ev.post) # ColourAsClass(Strip(ev.g)) THEN "reader-returns-something-else"
    ELSE "ok"
  ELSE
    IF ev.res # "ok" THEN "writer-" \o ev.res
    ELSE IF RefRead(ev.d).err THEN "cue-references-region-not-defined-earlier"
    ELSE IF ~WriteOK(Strip(ev.g), ev.d) THEN "written-document-denotes-something-else(independent-decoder)"
    ELSE IF Strip(ev.post) # Strip(Renumber(ColourAsClass(Strip(ev.g)))) THEN "written-document-denotes-something-else(library-reader)"
    ELSE "ok"
\* implementation layer: the model of the reader's control state predicts what the hook at the top of its loop saw
ImplPredicts(ev) == ev.dir = "read" /\ ev.res = "ok" => ev.hooks = ImplHooks(ev.d)
Init == l = 1
Step == /\ l <= Len(Trace)
        /\ LET r == Reason(Trace[l]) IN
           IF r = "ok" THEN (IF ImplPredicts(Trace[l]) THEN TRUE ELSE PrintT(<<"V", l, Trace[l].n, "DRIFT", "reader-loop-model-does-not-predict-the-hook-events">>))
           ELSE PrintT(<<"V", l, Trace[l].n, "C02", r>>)
        /\ l' = l + 1
Spec == Init /\ [][Step]_l
Accepted == TLCGet("stats").diameter - 1 = Len(Trace)
==============================================================================
