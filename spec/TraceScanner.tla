---------------------------- MODULE TraceScanner ----------------------------
(* Trace validation for the scanner / block reader events recorded by `drive scan`.
   Normative verdict (C17 for fault-free schedules, C18 for schedules with a fault): a fault-free schedule yields exactly Lines(doc) /
   BlocksOf(len) and no error; a schedule with a fault yields an error.
   Drift verdict (property "DRIFT"): the implementation layer Run(doc, sched) predicts the observed output. *)
EXTENDS Scanner, Json, IOUtils
Trace == ndJsonDeserialize(IOEnv.TRACE)
PROP == IOEnv.PROP
VARIABLE l
Normative(ev) ==
  IF ev.res # "ok" THEN ev.res
  ELSE IF ev.kind = "lines" THEN
    IF HasFail(ev.sched) THEN (IF ev.err = "nil" THEN "fault-not-reported" ELSE "ok")
    ELSE IF ev.out # Lines(ev.doc) THEN "lines-depend-on-schedule"
    ELSE IF ev.err # "nil" THEN "spurious-error"
    ELSE "ok"
  ELSE
    IF HasFail(ev.sched) THEN (IF ev.err = "nil" THEN "fault-not-reported" ELSE "ok")
    \* the number of complete blocks, and whether the reader ends with an error (a cut block) or not: which error value or
    \* message it is belongs to the implementation layer (Drift), not to the statement
    ELSE IF <<ev.out[1], ev.err = "nil">> # <<BlocksOf(ev.len, ev.b).n, BlocksOf(ev.len, ev.b).err = "nil">> THEN "blocks-depend-on-schedule"
    ELSE "ok"
Drift(ev) ==
  IF ev.res # "ok" THEN "ok"
  ELSE IF ev.kind = "lines" THEN
    LET r == Run(ev.doc, ev.sched) IN IF r.out = ev.out /\ r.err = ev.err THEN "ok" ELSE "impl-model-drift"
  ELSE LET r == ReadAllBlocks(ev.len, ev.b, ev.sched, 0) IN
       IF r.n = ev.out[1] /\ r.err = ev.err THEN "ok" ELSE "impl-model-drift"
Init == l = 1
Step == /\ l <= Len(Trace)
        /\ LET r == Normative(Trace[l]) d == Drift(Trace[l]) IN
           /\ IF r = "ok" THEN TRUE ELSE PrintT(<<"V", l, Trace[l].n, (IF HasFail(Trace[l].sched) THEN "C18" ELSE "C17"), r>>)
           /\ IF d = "ok" THEN TRUE ELSE PrintT(<<"V", l, Trace[l].n, "DRIFT", d>>)
        /\ l' = l + 1
Spec == Init /\ [][Step]_l
Accepted == TLCGet("stats").diameter - 1 = Len(Trace)
=============================================================================
