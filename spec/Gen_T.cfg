SPECIFICATION Spec
CONSTANTS
  G = 1
  N = 2
  NT = 1
  DS = {1}
  FS = {1}
  FD = {1}
  K = 0
  REFS = FALSE
CHECK_DEADLOCK FALSE
