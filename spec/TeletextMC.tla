----------------------------- MODULE TeletextMC -----------------------------
(* Stream families for C06 (also the source of the generated cases) and the spec-level check that the normative
   decoder Expected agrees with the truth that each family carries by construction (units of target instance k are
   tagged own = k). Families:
   "S" serial mode: every order of target instances, an erase instance, distractor pages in the same / another
       magazine (incl. the page with the same number in another magazine), x PES grouping 1..3 units
   "P" parallel mode: every merge of the target magazine's packet sequence with another magazine's
   "E" extras: every extra unit kind (stuffing, non-subtitle unit, X/26, X/28, M/29, 8/30, wrong framing code,
       Hamming error, short / overlong / cut units) inserted at every position of a base stream; other PIDs; empty PES
   "A" auto-detection of the page (first subtitle-flagged page) and of the PID (first teletext PID of the PMT)
   "H" hexadecimal page numbers (1F vs 25, A0 ...), page FF
   "D" character-set designation: an M/29 packet before / inside the target page or in another magazine, an X/28
       packet inside / outside the page, designating the Polish sub-set; rows with all 13 national positions
   "C" character sets: every character-set code x all 13 national-option positions, sets switching between instances,
       colour / size codes, text outside the box, parity errors *)
EXTENDS Teletext, IOUtils
CONSTANT FAM
VARIABLES st, op

\* GEN_WIDE=1 (thorough tier): the families range over the whole space of rendering choices / wider truth sets
Wide == "GEN_WIDE" \in DOMAIN IOEnv /\ IOEnv.GEN_WIDE = "1"
vars == <<st, op>>

Ch(v) == [k |-> "ch", v |-> v]
Sp == [k |-> "sp", v |-> 0]
Box == [k |-> "box", v |-> 0]
EndBox == [k |-> "endbox", v |-> 0]
Col(c) == [k |-> "col", v |-> c]
Dh == [k |-> "dh", v |-> 0]
Nh == [k |-> "nh", v |-> 0]
ParErr(v) == [k |-> "parerr", v |-> v]

Boxed(cells) == <<Box, Box>> \o cells \o <<EndBox, EndBox>>
Word(a, b) == <<Ch(a), Ch(b)>>
RA == Boxed(Word(72, 105))                                   \* "Hi"
RB == <<Dh, Col(3)>> \o Boxed(Word(121, 101) \o <<Sp, Col(6)>> \o Word(99, 121))   \* double height yellow "ye" then cyan "cy"
RC == Boxed(Word(65, 66) \o <<Sp>> \o Word(67, 68))          \* "AB CD"
RX == Word(110, 111) \o <<Sp>> \o Boxed(Word(79, 75))        \* "no" outside the box, "OK" inside
RU == Word(117, 110)                                         \* text without any box: no subtitle text
RP == Boxed(<<Ch(97), ParErr(98), Ch(99)>>)                  \* "a?c" with a parity error in the middle
\* a colour code that repeats the colour in effect (with and without a size code before it): no new attributes
RR == <<Dh, Col(6)>> \o Boxed(Word(72, 105) \o <<Col(6)>> \o Word(99, 121))
RS == <<Col(6)>> \o Boxed(Word(72, 105) \o <<Col(6)>> \o Word(99, 121))
\* two boxed segments on one row, text between them outside any box
RD == Boxed(Word(76, 69)) \o <<Sp, Ch(120), Sp>> \o Boxed(Word(82, 73))
RN == Boxed([i \in 1..13 |-> Ch(SetToSortSeq(NationalPositions, <)[i])] \o <<Ch(65)>>)

Hdr(mag, pt, pu, sub, serial, cs, own) == [k |-> "hdr", mag |-> mag, pt |-> pt, pu |-> pu, sub |-> sub, serial |-> serial, cs |-> cs, erase |-> FALSE, row |-> 0, cells |-> <<>>, own |-> own, grp |-> 0, dc |-> 0]
Row(mag, row, cells, own) == [k |-> "row", mag |-> mag, pt |-> 0, pu |-> 0, sub |-> FALSE, serial |-> FALSE, cs |-> 0, erase |-> FALSE, row |-> row, cells |-> cells, own |-> own, grp |-> 0, dc |-> 0]
Extra(kind, mag) == [k |-> kind, mag |-> mag, pt |-> 0, pu |-> 0, sub |-> FALSE, serial |-> FALSE, cs |-> 0, erase |-> FALSE, row |-> 20, cells |-> RA, own |-> 0, grp |-> 0, dc |-> 0]

\* target page 100 (magazine 1, page 00)
T(own, serial, cs, rows) == <<Hdr(1, 0, 0, TRUE, serial, cs, own)>> \o [i \in DOMAIN rows |-> Row(1, rows[i][1], rows[i][2], own)]
DSame(serial) == <<Hdr(1, 0, 1, TRUE, serial, 0, 0), Row(1, 20, RC, 0)>>            \* page 101
DOther(serial) == <<Hdr(2, 0, 0, TRUE, serial, 0, 0), Row(2, 20, RC, 0), Row(2, 22, RA, 0)>>   \* page 200: same number, other magazine
DNoSub(serial) == <<Hdr(1, 0, 2, FALSE, serial, 0, 0), Row(1, 20, RC, 0)>>          \* page 102 without subtitle flag

\* units -> PES packets of g units, one second apart, on pid 0
RECURSIVE Chunk(_, _, _)
Chunk(us, g, i) == IF us = <<>> THEN <<>>
                   ELSE LET n == IF Len(us) < g THEN Len(us) ELSE g
                        IN  <<[pts |-> i * 90000, pid |-> 0, units |-> SubSeq(us, 1, n)]>> \o Chunk(SubSeq(us, n + 1, Len(us)), g, i + 1)
Stream(us, g) == [pes |-> Chunk(us, g, 0), twopids |-> FALSE, repeat |-> FALSE, emptypes |-> FALSE, vbi |-> FALSE]

RECURSIVE Flat(_)
Flat(ss) == IF ss = <<>> THEN <<>> ELSE Head(ss) \o Flat(Tail(ss))
Perms(S) == {p \in [1..Cardinality(S) -> S] : \A i, j \in DOMAIN p : i # j => p[i] # p[j]}

Opt(page, pid) == [page |-> page, pid |-> pid]

\* S: serial
BlocksS == [t1 |-> T(1, TRUE, 0, <<<<20, RA>>, <<22, RB>>>>), t2 |-> T(2, TRUE, 0, <<<<22, RC>>>>), t3 |-> T(3, TRUE, 0, <<>>),
            ds |-> DSame(TRUE), do |-> DOther(TRUE), dn |-> DNoSub(TRUE)]
OrdersS == {p \in Perms({"t1", "t2", "t3", "ds", "do"}) :
              \* target instances keep their numbering order (own = 1, 2, 3 is the order of transmission)
              LET pos(x) == CHOOSE i \in DOMAIN p : p[i] = x IN pos("t1") < pos("t2") /\ pos("t2") < pos("t3")}
CasesS == {[st |-> Stream(Flat([i \in DOMAIN p |-> BlocksS[p[i]]]), g), op |-> Opt(100, 0)] : p \in OrdersS, g \in {1, 2, 3}}

\* P: parallel - merges of the magazine-1 sequence with the magazine-2 sequence
RECURSIVE Merges(_, _)
Merges(a, b) == IF a = <<>> THEN {b} ELSE IF b = <<>> THEN {a}
                ELSE {<<Head(a)>> \o m : m \in Merges(Tail(a), b)} \cup {<<Head(b)>> \o m : m \in Merges(a, Tail(b))}
Mag1P == T(1, FALSE, 0, <<<<20, RA>>, <<22, RB>>>>) \o DSame(FALSE) \o T(2, FALSE, 0, <<<<21, RC>>>>)
\* (the other magazine transmits the page with the same number, or a page with another number)
DOtherNum == <<Hdr(2, 0, 5, TRUE, FALSE, 0, 0), Row(2, 20, RC, 0)>>
CasesP == {[st |-> Stream(m, g), op |-> Opt(100, 0)] : m \in Merges(Mag1P, DOther(FALSE)), g \in {1, 3}}
          \cup {[st |-> Stream(m, 2), op |-> Opt(100, 0)] : m \in Merges(Mag1P, DOtherNum)}

\* E: extras
BaseE == T(1, TRUE, 0, <<<<20, RA>>>>) \o DSame(TRUE) \o T(2, TRUE, 0, <<<<22, RC>>>>)
PutAfter(s, i, x) == SubSeq(s, 1, i) \o <<x>> \o SubSeq(s, i + 1, Len(s))
ExtraKinds == {"stuff", "nonsub", "x26", "x28", "m29", "x30", "badframe", "hamerr", "short", "overlong", "cut"}
CasesE == {[st |-> Stream(PutAfter(BaseE, i, Extra(kd, mg)), g), op |-> Opt(100, 0)] : i \in 0..Len(BaseE), kd \in ExtraKinds, mg \in {1, 2}, g \in {1, 2}}
          \cup {[st |-> [Stream(BaseE, 2) EXCEPT !.emptypes = TRUE], op |-> Opt(100, 0)]}
          \cup {[st |-> [Stream(BaseE, 2) EXCEPT !.repeat = TRUE], op |-> Opt(100, 0)]}
\* "overlong" / "cut" end the PES payload: what follows in the same PES is lost by definition of the unit; they are only
\* generated as the last unit of their PES (g = 1) - filtered here
LastInPes(c) == \A i \in DOMAIN c.st.pes : \A j \in DOMAIN c.st.pes[i].units :
                   c.st.pes[i].units[j].k \in {"overlong", "cut"} => j = Len(c.st.pes[i].units)
\* PES packets of the teletext PID that carry other VBI data (data identifier outside the EBU teletext range) before
\* the first and after the last teletext packet: they hold no text, but the stream's first and last presentation time
\* are theirs
NonEbu(i) == [pts |-> i * 90000, pid |-> 0, units |-> <<Extra("nonebu", 1)>>]
Later(ps, k) == [i \in DOMAIN ps |-> [ps[i] EXCEPT !.pts = @ + k * 90000]]
CasesV == {[st |-> [Stream(BaseE, g) EXCEPT !.pes = pre \o Later(@, 2) \o post], op |-> Opt(100, 0)] :
             g \in {1, 2}, pre \in {<<>>, <<NonEbu(0)>>}, post \in {<<>>, <<NonEbu(20)>>}}
CasesEOK == {c \in CasesE : LastInPes(c)} \cup CasesV

\* A: auto detection of page and PID; other PIDs
OtherPid(pid, i) == [pts |-> i * 90000 + 45000, pid |-> pid, units |-> T(IF pid = 1 THEN 10 + i ELSE 0, TRUE, 0, <<<<20, RC>>>>)]
WithPids(s, two) == [s EXCEPT !.twopids = two, !.pes = Flat([i \in DOMAIN s.pes |-> <<s.pes[i], OtherPid(1, i), OtherPid(2, i)>>])]
BaseA == DNoSub(TRUE) \o T(1, TRUE, 0, <<<<20, RA>>>>) \o DSame(TRUE) \o T(2, TRUE, 0, <<<<22, RC>>>>)
\* (the PMT may announce a teletext PID with the teletext descriptor or with the VBI teletext descriptor)
CasesA == {[st |-> [WithPids(Stream(BaseA, g), two) EXCEPT !.vbi = vb], op |-> Opt(pg, 0)] : g \in {1, 2}, two \in BOOLEAN, pg \in {0, 100}, vb \in BOOLEAN}
          \cup {[st |-> WithPids(Stream(BaseA, 2), TRUE), op |-> Opt(100, 1)]}

\* H: hexadecimal page numbers
THex(own, pt, pu, rows) == <<Hdr(1, pt, pu, TRUE, TRUE, 0, own)>> \o [i \in DOMAIN rows |-> Row(1, rows[i][1], rows[i][2], own)]
CasesH == {[st |-> Stream(THex(1, 2, 5, <<<<20, RA>>>>) \o THex(0, 1, 15, <<<<20, RC>>>>) \o THex(2, 2, 5, <<<<22, RB>>>>) \o THex(0, 15, 15, <<>>) \o THex(0, 10, 0, <<<<20, RC>>>>), g),
            op |-> Opt(125, 0)] : g \in {1, 2}}

\* C: character sets and row contents
CasesC == {[st |-> Stream(T(1, TRUE, cs, <<<<20, RN>>, <<21, r>>>>) \o T(2, TRUE, cs2, <<<<20, RN>>>>) \o T(3, TRUE, 0, <<>>), 3), op |-> Opt(100, 0)] :
             cs \in 0..6, cs2 \in {0, 1, 4}, r \in {RA, RB, RX, RU, RP, RR, RS, RD}}

\* I: instance schedules - every sequence of 4 instances of the target page, each empty (erase page / repeated
\* header) or carrying one of two rows, x 1..3 units per PES: an empty instance before, between and after the
\* non-empty ones, several in a row
KindsI == <<<<>>, <<<<20, RA>>>>, <<<<22, RC>>>>>>
NI == IF Wide THEN 6 ELSE 4
CasesI == {[st |-> Stream(Flat([i \in 1..NI |-> T(i, TRUE, 0, KindsI[q[i]])]), g), op |-> Opt(100, 0)] : q \in [1..NI -> 1..3], g \in (IF Wide THEN 1..4 ELSE {1, 2, 3})}

\* M: the target page in every magazine 1..8 (magazine 8 travels as 0), selected by the option or auto-detected, with
\* the same page number transmitted in the next magazine
TM(mag, own, rows) == <<Hdr(mag, 2, 3, TRUE, TRUE, 0, own)>> \o [i \in DOMAIN rows |-> Row(mag, rows[i][1], rows[i][2], own)]
CasesM == UNION {{[st |-> Stream(TM(m, 1, <<<<20, RA>>>>) \o TM((m % 8) + 1, 0, <<<<20, RC>>>>) \o TM(m, 2, <<<<22, RC>>>>) \o TM(m, 3, <<>>), g),
                   op |-> Opt(pg, 0)] : g \in {1, 3}, pg \in {0, m * 100 + 23}} : m \in 1..8}

\* D: designation of the character set (own = 99: by construction the designation governs the target page)
Desig(kind, mag, grp, applies) == [Extra(kind, mag) EXCEPT !.grp = grp, !.own = IF applies THEN 99 ELSE 0]
DesigDc(kind, mag, grp, applies, dc) == [Desig(kind, mag, grp, applies) EXCEPT !.dc = dc]
TD(own) == T(own, TRUE, 0, <<<<20, RN>>>>)
CasesD == {[st |-> Stream(us, g), op |-> Opt(100, 0)] : g \in {1, 2},
             us \in {<<Desig("m29", 1, 1, TRUE)>> \o TD(1) \o TD(2),                      \* M/29 before the page is received
                      <<Hdr(1, 0, 0, TRUE, TRUE, 0, 1), Desig("m29", 1, 1, TRUE), Row(1, 20, RN, 1)>> \o TD(2),
                      <<Hdr(1, 0, 0, TRUE, TRUE, 0, 1), Desig("x28", 1, 1, TRUE), Row(1, 20, RN, 1)>> \o TD(2),
                      <<Hdr(1, 0, 0, TRUE, TRUE, 0, 1), Row(1, 20, RN, 1), Desig("x28", 1, 1, TRUE)>> \o TD(2),
                      <<Desig("m29", 2, 1, FALSE)>> \o TD(1) \o TD(2),                     \* another magazine's
                      <<Desig("x28", 1, 1, FALSE)>> \o TD(1) \o TD(2),                     \* X/28 while no page is received
                      TD(1) \o DSame(TRUE) \o <<Desig("x28", 1, 1, FALSE)>> \o TD(2),      \* X/28 of another page of the magazine
                      <<DesigDc("m29", 1, 1, TRUE, 4)>> \o TD(1) \o TD(2),                  \* M/29/4
                      <<Hdr(1, 0, 0, TRUE, TRUE, 0, 1), DesigDc("x28", 1, 1, TRUE, 4), Row(1, 20, RN, 1)>> \o TD(2),    \* X/28/4
                      <<DesigDc("m29", 1, 1, FALSE, 1)>> \o TD(1) \o TD(2),                 \* M/29/1 designates nothing
                      \* both: the page's own designation (X/28) goes before the magazine's (M/29)
                      <<Desig("m29", 1, 0, FALSE), Hdr(1, 0, 0, TRUE, TRUE, 0, 1), Desig("x28", 1, 1, TRUE), Row(1, 20, RN, 1)>> \o TD(2),
                      TD(1) \o TD(2)}}

Cases(fam) == CASE fam = "D" -> CasesD [] fam = "M" -> CasesM [] fam = "I" -> CasesI [] fam = "S" -> CasesS [] fam = "P" -> CasesP [] fam = "E" -> CasesEOK [] fam = "A" -> CasesA [] fam = "H" -> CasesH [] fam = "C" -> CasesC

---------------------------------------------------------------------------
(* truth by construction: units tagged own = k belong to target instance k *)
PidPes(s, pid) == SelectSeq(s.pes, LAMBDA p : p.pid = pid)
Owns(s, pid) == {u.own : u \in UNION {{p.units[j] : j \in DOMAIN p.units} : p \in {PidPes(s, pid)[i] : i \in DOMAIN PidPes(s, pid)}}} \ {0}
HdrPts(s, pid, k) == LET ps == PidPes(s, pid)
                         i == CHOOSE x \in DOMAIN ps : \E j \in DOMAIN ps[x].units : ps[x].units[j].k = "hdr" /\ ps[x].units[j].own = k
                     IN  ps[i].pts
RowsOf(s, pid, k) == LET ps == PidPes(s, pid)
                         all == Flat([i \in DOMAIN ps |-> ps[i].units])
                     IN  SelectSeq(all, LAMBDA u : u.k = "row" /\ u.own = k)
CsOf(s, pid, k) == LET ps == PidPes(s, pid)
                       all == Flat([i \in DOMAIN ps |-> ps[i].units])
                   IN  (CHOOSE u \in {all[i] : i \in DOMAIN all} : u.k = "hdr" /\ u.own = k).cs
GrpTruth(s, pid) == LET all == Flat([i \in DOMAIN PidPes(s, pid) |-> PidPes(s, pid)[i].units])
                        ds == {all[i].grp : i \in {j \in DOMAIN all : all[j].own = 99}}
                    IN  IF ds = {} THEN 0 ELSE CHOOSE x \in ds : TRUE
Truth(s, pid) ==
  LET owns == SetToSortSeq(Owns(s, pid) \ {99}, <)
      ps == PidPes(s, pid)
      first == MinPts(ps)
      cue(n) == LET k == owns[n]
                    rows == SortRows(RowsOf(s, pid, k))
                IN  [s |-> (HdrPts(s, pid, k) - first) \div 90,
                     e |-> ((IF n < Len(owns) THEN HdrPts(s, pid, owns[n + 1]) ELSE MaxPts(ps)) - first) \div 90,
                     lines |-> SelectSeq([j \in DOMAIN rows |-> [runs |-> RowRuns(rows[j].cells, <<CsOf(s, pid, k), GrpTruth(s, pid)>>), textonly |-> HasParErr(rows[j].cells)]],
                                         LAMBDA ln : ln.runs # <<>>),
                     nrows |-> Len(rows)]
      cues == [n \in DOMAIN owns |-> cue(n)]
  IN  [n \in DOMAIN SelectSeq(cues, LAMBDA c : c.nrows > 0) |->
         [s |-> SelectSeq(cues, LAMBDA c : c.nrows > 0)[n].s, e |-> SelectSeq(cues, LAMBDA c : c.nrows > 0)[n].e,
          lines |-> SelectSeq(cues, LAMBDA c : c.nrows > 0)[n].lines]]

Init == \E c \in Cases(FAM) : st = c.st /\ op = c.op
Next == UNCHANGED vars
Spec == Init /\ [][Next]_vars
DecoderCorrect == Expected(st, op) = Truth(st, op.pid)

---------------------------------------------------------------------------
(* the implementation layer's control state (CtlStep = parsePacketHeader) against the normative decoder's (UnitStep),
   folded in lockstep: the selected page is the same at every unit, the code receives whenever the norm does, and
   at every row of the selected magazine - the only place where `receiving` is consulted for content - they agree *)
RECURSIVE LockUnits(_, _, _, _, _)
LockUnits(d, c, us, pts, o) ==
  IF us = <<>> THEN [ok |-> TRUE, d |-> d, c |-> c]
  ELSE LET u == Head(us)
           here == /\ (d.sel = <<>>) = (c.mag = 0 /\ c.page = 0)
                   /\ d.sel # <<>> => (c.mag = d.sel[1] /\ c.page = (16 * d.sel[2]) + d.sel[3])
                   /\ d.recv => c.recv
                   /\ (u.k = "row" /\ d.sel # <<>> /\ u.mag = d.sel[1]) => (c.recv = d.recv)
           r == LockUnits(UnitStep(d, u, pts, o), IF Reaches(u) THEN CtlStep(c, u) ELSE c, Tail(us), pts, o)
       IN  [ok |-> here /\ r.ok, d |-> r.d, c |-> r.c]
RECURSIVE LockPes(_, _, _, _)
LockPes(d, c, ps, o) ==
  IF ps = <<>> THEN TRUE
  ELSE LET r == LockUnits(d, c, BeforeBreak(Head(ps).units), Head(ps).pts, o) IN r.ok /\ LockPes(r.d, r.c, Tail(ps), o)
CtlRefines ==
  LET ps == SelectSeq(st.pes, LAMBDA p : p.pid = op.pid /\ (p.pid # 1 \/ st.twopids))
  IN  LockPes([InitDec EXCEPT !.sel = SelOf(op.page)], CtlInit(op.page), ps, op)
=============================================================================
