INIT Init
NEXT Next
CONSTANT R = 60
INVARIANT Laws
CHECK_DEADLOCK FALSE
