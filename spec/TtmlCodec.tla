------------------------------ MODULE TtmlCodec ------------------------------
(***************************************************************************)
(* C03: TTML codec.                                                        *)
(*                                                                         *)
(* Ground truth G = [lang, title, copyright, fr, tr, styles, regions, cues]*)
(*   lang : 0 none, 1..5 the five languages the library maps, 6 another    *)
(*   fr, tr : ttp:frameRate / ttp:tickRate of the document (0 = absent)    *)
(*   styles  : sequence (sorted by id) of [id, parent, attrs]              *)
(*   regions : sequence (sorted by id) of [id, style, attrs]               *)
(*   cues : sequence of [s, e, style, region, attrs, lines]; s/e in ms;    *)
(*          lines = sequence of lines, line = sequence of runs             *)
(*          run = [a, style, attrs]                                        *)
(*   attrs = function attribute name |-> value atom                        *)
(* Document D = [indent, prefix, lang, title, copyright, fr, tr, styles,   *)
(*               regions, ps]                                              *)
(*   ps : sequence of [begin, end, style, region, attrs, content]          *)
(*   begin/end : time expressions                                          *)
(*     [f "clock", h, m, s, frac, fd]       hh:mm:ss(.frac with fd digits) *)
(*     [f "frames", h, m, s, ff]            hh:mm:ss:ff                    *)
(*     [f "off", unit, vi, vf, vd]          vi(.vf with vd digits) unit    *)
(*   content : sequence of nodes [k "text", a] | [k "br"] |                *)
(*             [k "span", style, attrs, content (text / br nodes)]         *)
(* Resolve gives the instant an expression means as <<ms, ns>>.            *)
(***************************************************************************)
EXTENDS Integers, Sequences, FiniteSets, SequencesExt, TLC

Pow10(n) == CASE n = 0 -> 1 [] n = 1 -> 10 [] n = 2 -> 100 [] n = 3 -> 1000 [] n = 4 -> 10000 [] n = 5 -> 100000 [] n = 6 -> 1000000

EClock(h, m, s, frac, fd) == [f |-> "clock", h |-> h, m |-> m, s |-> s, frac |-> frac, fd |-> fd, ff |-> 0, unit |-> "", vi |-> 0, vf |-> 0, vd |-> 0]
EFrames(h, m, s, ff)      == [f |-> "frames", h |-> h, m |-> m, s |-> s, frac |-> 0, fd |-> 0, ff |-> ff, unit |-> "", vi |-> 0, vf |-> 0, vd |-> 0]
EOff(unit, vi, vf, vd)    == [f |-> "off", h |-> 0, m |-> 0, s |-> 0, frac |-> 0, fd |-> 0, ff |-> 0, unit |-> unit, vi |-> vi, vf |-> vf, vd |-> vd]

\* <<ms, ns>> normalised (0 <= ns < 10^6)
Inst(ms, ns) == <<ms + ns \div 1000000, ns % 1000000>>

\* k / rate seconds as <<ms, ns>> (rounded down to the nanosecond) in 32-bit arithmetic: long division in
\* three stages (ms, us, ns); rates above 2*10^6 must be multiples of 1000
Frac(k, rate) ==
  IF rate <= 2000000 THEN
    LET q == k \div rate r == k % rate
        a == r * 1000 ms == a \div rate
        b == (a % rate) * 1000 us == b \div rate
        c == (b % rate) * 1000 ns == c \div rate
    IN  <<q * 1000 + ms, us * 1000 + ns>>
  ELSE
    LET rp == rate \div 1000
        ms == k \div rp r == k % rp
        b == r * 1000 us == b \div rp
        c == (b % rp) * 1000 ns == c \div rp
    IN  <<ms, us * 1000 + ns>>

UnitMs(u) == CASE u = "h" -> 3600000 [] u = "m" -> 60000 [] u = "s" -> 1000 [] u = "ms" -> 1

\* the instant a time expression means (fr / tr = frame and tick rate of the document)
Resolve(x, fr, tr) ==
  IF x.f = "clock" THEN <<((x.h * 60 + x.m) * 60 + x.s) * 1000 + (IF x.fd = 0 THEN 0 ELSE x.frac * Pow10(3 - x.fd)), 0>>
  ELSE IF x.f = "frames" THEN
    LET base == ((x.h * 60 + x.m) * 60 + x.s) * 1000 fr2 == Frac(x.ff, fr) IN <<base + fr2[1], fr2[2]>>
  ELSE IF x.unit = "f" THEN Frac(x.vi, fr)
  ELSE IF x.unit = "t" THEN Frac(x.vi, tr)
  \* "T": vi * 10^4 ticks, written out in full by the harness (33-bit and larger tick counts do not fit TLC's
  \* integers); only generated for tickRate 10^7, where it is vi milliseconds exactly
  ELSE IF x.unit = "T" THEN <<x.vi, 0>>
  ELSE \* h, m, s, ms with a decimal fraction: vi + vf / 10^vd units
    LET u == UnitMs(x.unit)
        fracMsNum == x.vf * u                     \* in 1/10^vd ms
        p == Pow10(x.vd)
    IN  Inst(x.vi * u + fracMsNum \div p, ((fracMsNum % p) * 1000000) \div p)

\* the equivalent expressions the generator uses for an instant of ms milliseconds (only exact ones)
Exprs(ms, fr, tr) ==
  LET h == ms \div 3600000 m == (ms \div 60000) % 60 s == (ms \div 1000) % 60 fr3 == ms % 1000 IN
  {EClock(h, m, s, fr3, 3)}
  \cup (IF fr3 % 10 = 0 THEN {EClock(h, m, s, fr3 \div 10, 2)} ELSE {})
  \cup (IF fr3 % 100 = 0 THEN {EClock(h, m, s, fr3 \div 100, 1)} ELSE {})
  \cup (IF fr3 = 0 THEN {EClock(h, m, s, 0, 0)} ELSE {})
  \cup (IF fr > 0 /\ (fr3 * fr) % 1000 = 0 THEN {EFrames(h, m, s, (fr3 * fr) \div 1000)} ELSE {})
  \cup {EOff("ms", ms, 0, 0)}
  \cup {EOff("s", ms \div 1000, fr3, 3)}
  \cup (IF fr3 % 100 = 0 THEN {EOff("s", ms \div 1000, fr3 \div 100, 1)} ELSE {})
  \cup (IF fr3 = 0 THEN {EOff("s", ms \div 1000, 0, 0)} ELSE {})
  \cup (IF ms % 600 = 0 THEN {EOff("m", ms \div 60000, (ms % 60000) \div 600, 2)} ELSE {})
  \cup (IF ms % 36000 = 0 THEN {EOff("h", ms \div 3600000, (ms % 3600000) \div 36000, 2)} ELSE {})
  \cup (IF fr > 0 /\ ms < 2000000 /\ (ms * fr) % 1000 = 0 THEN {EOff("f", (ms * fr) \div 1000, 0, 0)} ELSE {})
  \cup (IF tr > 0 /\ tr <= 90000 /\ ms < 20000 /\ (ms * tr) % 1000 = 0 THEN {EOff("t", (ms * tr) \div 1000, 0, 0)} ELSE {})
  \cup (IF tr = 10000000 /\ ms < 200000 THEN {EOff("t", ms * 10000, 0, 0)} ELSE {})
  \cup (IF tr = 10000000 /\ ms > 0 THEN {EOff("T", ms, 0, 0)} ELSE {})

---------------------------------------------------------------------------
(* content of a paragraph *)
NText(a) == [k |-> "text", a |-> a, style |-> 0, attrs |-> <<>>, content |-> <<>>]
NBr == [k |-> "br", a |-> 0, style |-> 0, attrs |-> <<>>, content |-> <<>>]
NSpan(style, attrs, content) == [k |-> "span", a |-> 0, style |-> style, attrs |-> attrs, content |-> content]

Bare(r) == r.style = 0 /\ DOMAIN r.attrs = {}

\* rendering "between": one node per run (bare text for an unstyled run when bareOK), <br/> between lines
RunNode(r, bareOK) == IF bareOK /\ Bare(r) THEN NText(r.a) ELSE NSpan(r.style, r.attrs, <<NText(r.a)>>)
RECURSIVE Between(_, _)
Between(lines, bareOK) ==
  IF lines = <<>> THEN <<>>
  ELSE [i \in DOMAIN Head(lines) |-> RunNode(Head(lines)[i], bareOK)]
       \o (IF Len(lines) > 1 THEN <<NBr>> ELSE <<>>) \o Between(Tail(lines), bareOK)

\* rendering "inside": consecutive lines that consist of one styled run each, with the same style and attributes,
\* share one span with the <br/> elements inside it
RECURSIVE SamePrefix(_, _)
SamePrefix(lines, r) ==   \* number of leading lines that are a single run styled like r
  IF lines = <<>> THEN 0
  ELSE LET l == Head(lines) IN
       IF Len(l) = 1 /\ l[1].style = r.style /\ l[1].attrs = r.attrs THEN 1 + SamePrefix(Tail(lines), r) ELSE 0

RECURSIVE Joined(_)
Joined(grp) == IF Len(grp) = 1 THEN <<NText(grp[1][1].a)>> ELSE <<NText(grp[1][1].a), NBr>> \o Joined(Tail(grp))

RECURSIVE Inside(_)
Inside(lines) ==
  IF lines = <<>> THEN <<>>
  ELSE LET l == Head(lines) IN
       IF Len(l) = 1 /\ ~Bare(l[1])
       THEN LET k == SamePrefix(lines, l[1])
                rest == SubSeq(lines, k + 1, Len(lines))
            IN  <<NSpan(l[1].style, l[1].attrs, Joined(SubSeq(lines, 1, k)))>>
                \o (IF rest # <<>> THEN <<NBr>> ELSE <<>>) \o Inside(rest)
       ELSE [i \in DOMAIN l |-> RunNode(l[i], FALSE)] \o (IF Len(lines) > 1 THEN <<NBr>> ELSE <<>>) \o Inside(Tail(lines))

Contents(lines) == {Between(lines, FALSE), Between(lines, TRUE), Inside(lines)}

CanonOnly(X) == {x \in X : x.f = "clock" /\ x.fd = 3}
Forms(ms, fr, tr, all) == IF all THEN Exprs(ms, fr, tr) ELSE CanonOnly(Exprs(ms, fr, tr))

Paragraphs(c, fr, tr, TF) ==
  {[begin |-> b, end |-> e, style |-> c.style, region |-> c.region, attrs |-> c.attrs, content |-> ct] :
     b \in Forms(c.s, fr, tr, TF), e \in Forms(c.e, fr, tr, TF), ct \in Contents(c.lines)}

RECURSIVE PSeqs(_, _, _, _)
PSeqs(cues, fr, tr, TF) ==
  IF cues = <<>> THEN {<<>>} ELSE {<<p>> \o rest : p \in Paragraphs(Head(cues), fr, tr, TF), rest \in PSeqs(Tail(cues), fr, tr, TF)}

\* TF = TRUE: every equivalent time expression; FALSE: hh:mm:ss.mmm only
Renderings(G, V, TF) ==
  {[indent |-> ind, prefix |-> px, lang |-> G.lang, title |-> G.title, copyright |-> G.copyright, fr |-> G.fr, tr |-> G.tr,
    styles |-> G.styles, regions |-> G.regions, ps |-> ps] : ind \in V.indents, px \in V.prefixes, ps \in PSeqs(G.cues, G.fr, G.tr, TF)}

---------------------------------------------------------------------------
(* Reference decoder *)
RECURSIVE SpanRuns(_, _, _, _)
\* content of a span -> <<lines closed inside the span, current (open) line>> appended to the open line cur
SpanRuns(content, style, attrs, acc) ==   \* acc = <<done lines, cur line>>
  IF content = <<>> THEN acc
  ELSE LET n == Head(content) IN
       IF n.k = "br" THEN SpanRuns(Tail(content), style, attrs, <<Append(acc[1], acc[2]), <<>>>>)
       ELSE SpanRuns(Tail(content), style, attrs, <<acc[1], Append(acc[2], [a |-> n.a, style |-> style, attrs |-> attrs])>>)

RECURSIVE NodesToLines(_, _)
NodesToLines(content, acc) ==
  IF content = <<>> THEN Append(acc[1], acc[2])
  ELSE LET n == Head(content) IN
       IF n.k = "br" THEN NodesToLines(Tail(content), <<Append(acc[1], acc[2]), <<>>>>)
       ELSE IF n.k = "text" THEN NodesToLines(Tail(content), <<acc[1], Append(acc[2], [a |-> n.a, style |-> 0, attrs |-> <<>>])>>)
       ELSE NodesToLines(Tail(content), SpanRuns(n.content, n.style, n.attrs, acc))

RefRead(D) ==
  [lang |-> D.lang, title |-> D.title, copyright |-> D.copyright, fr |-> D.fr,
   styles |-> D.styles, regions |-> D.regions,
   cues |-> [i \in DOMAIN D.ps |->
               [s |-> Resolve(D.ps[i].begin, D.fr, D.tr), e |-> Resolve(D.ps[i].end, D.fr, D.tr),
                style |-> D.ps[i].style, region |-> D.ps[i].region, attrs |-> D.ps[i].attrs,
                lines |-> NodesToLines(D.ps[i].content, <<<<>>, <<>>>>)]]]

\* the truth in the decoder's shape (instants as <<ms, 0>>; the tick rate is not part of what a document denotes)
Truth(G) ==
  [lang |-> G.lang, title |-> G.title, copyright |-> G.copyright, fr |-> G.fr, styles |-> G.styles, regions |-> G.regions,
   cues |-> [i \in DOMAIN G.cues |-> [G.cues[i] EXCEPT !.s = <<G.cues[i].s, 0>>, !.e = <<G.cues[i].e, 0>>]]]

\* the library's language table maps five languages; any other language is not carried
LangDenoted(l) == IF l = 6 THEN 0 ELSE l

\* an instant returned by the library may be one nanosecond off (it computes in floating point)
Near(a, b) == a = b \/ (a[1] = b[1] /\ (a[2] = b[2] + 1 \/ b[2] = a[2] + 1))
             \/ (a[1] + 1 = b[1] /\ a[2] = 999999 /\ b[2] = 0) \/ (b[1] + 1 = a[1] /\ b[2] = 999999 /\ a[2] = 0)

SameModuloNs(R, T) ==
  /\ R.lang = LangDenoted(T.lang) /\ R.title = T.title /\ R.copyright = T.copyright
  /\ R.styles = T.styles /\ R.regions = T.regions
  /\ Len(R.cues) = Len(T.cues)
  /\ \A i \in DOMAIN T.cues :
       /\ Near(R.cues[i].s, T.cues[i].s) /\ Near(R.cues[i].e, T.cues[i].e)
       /\ [R.cues[i] EXCEPT !.s = 0, !.e = 0] = [T.cues[i] EXCEPT !.s = 0, !.e = 0]
=============================================================================
