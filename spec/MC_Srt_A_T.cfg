SPECIFICATION Spec
CONSTANTS
  MAXCUES = 2
  FAM = "A"
INVARIANT DecoderCorrect
CHECK_DEADLOCK FALSE
