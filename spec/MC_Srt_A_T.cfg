SPECIFICATION Spec
CONSTANTS
  MAXCUES = 2
  FAM = "A"
INVARIANTS DecoderCorrect ImplRefines
CHECK_DEADLOCK FALSE
