------------------------------- MODULE GenConc -------------------------------
(* Schedules for the hook gate: every interleaving of NC calls x NS gated steps, as sequences of call numbers. *)
EXTENDS Integers, Sequences, FiniteSets, SequencesExt, Json, IOUtils, TLC
Env(n, dflt) == IF n \in DOMAIN IOEnv THEN atoi(IOEnv[n]) ELSE dflt
NC == Env("GEN_NC", 2)
NS == Env("GEN_NS", 3)
Count(s, c) == Cardinality({i \in DOMAIN s : s[i] = c})
Scheds == {s \in [1..(NC * NS) -> 1..NC] : \A c \in 1..NC : Count(s, c) = NS}
ASSUME ndJsonSerialize(IOEnv.GEN_OUT, SetToSeq({[sched |-> s] : s \in Scheds})) /\ PrintT(<<"GENERATED", "schedules", Cardinality(Scheds)>>)
VARIABLE x
Init == x = 0
Next == UNCHANGED x
=============================================================================
