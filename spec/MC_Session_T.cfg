SPECIFICATION Spec
CONSTANTS
  MaxSteps = 4
  Times = {0, 40, 100, 130}
  Texts = {1, 2}
  MaxCues = 1
INVARIANTS TypeOK WrittenOK MemFromOpen
PROPERTIES WriteFaithful FailedWriteBlank Reconvert CliTouchesOnlyOutput
CHECK_DEADLOCK FALSE
