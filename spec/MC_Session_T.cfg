SPECIFICATION Spec
CONSTANTS
  MaxSteps = 4
  Times = {0, 40, 130}
  Texts = {1, 2}
  MaxCues = 2
INVARIANTS TypeOK WrittenOK MemFromOpen
PROPERTIES WriteFaithful FailedWriteBlank Reconvert CliTouchesOnlyOutput
CHECK_DEADLOCK FALSE
