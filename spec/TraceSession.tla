---------------------------- MODULE TraceSession ----------------------------
(* Trace validation for C07: the recorded steps of a conversion session (file API or command-line tool) are
   replayed through Session's state machine.  The state variables are bound to what the implementation logged
   (so that one deviation does not hide the rest of the history); the verdict of a step compares the logged
   outcome and content with what the machine computes from the state before the step.

   Scope (the statement's provisos): a history leaves the scope when an instant is off the 1/3 ms grid or
   negative, or from the Write on whose destination cannot represent a text of the sources. *)
EXTENDS Session, Json, IOUtils
Trace == ndJsonDeserialize(IOEnv.TRACE)
VARIABLES l, second, scope, norep, ties, swap
vars == <<svars, l, second, scope, norep, ties, swap>>

ToCues(q) == [i \in DOMAIN q |-> [s |-> q[i][1], e |-> q[i][2], t |-> q[i][3]]]
SeqSet(q) == {q[i] : i \in DOMAIN q}

\* known finding stl-dollar-as-currency-sign: an STL file holds the currency sign where the list had '$'
SwapT(sw, t) == IF \E i \in DOMAIN sw : sw[i][1] = t THEN sw[CHOOSE i \in DOMAIN sw : sw[i][1] = t][2] ELSE t
SwapAll(sw, cues) == [i \in DOMAIN cues |-> [cues[i] EXCEPT !.t = SwapT(sw, cues[i].t)]]

Diff(got, want) ==
  IF Len(got) # Len(want) THEN "cue-count"
  ELSE IF \E i \in DOMAIN got : got[i].s # want[i].s \/ got[i].e # want[i].e THEN
         (IF SameBag(got, want) THEN "cue-order" ELSE "cue-times")
  ELSE "cue-text"

Content(ev, want, fmt) ==
  LET got == ToCues(ev.cues) IN
  IF got = want THEN "ok"
  ELSE IF ties /\ SameUpToTies(got, want) THEN "ok"
  ELSE IF fmt = "stl" /\ swap # <<>> /\ (got = SwapAll(swap, want) \/ (ties /\ SameUpToTies(got, SwapAll(swap, want))))
       THEN "kf:stl-dollar-as-currency-sign-c07"
  ELSE Diff(got, want)

OpenReason(ev) ==
  LET exp == OpenRes(disk, ev.file, ev.ext) IN
  IF ev.res = "panic" \/ ev.res = "timeout" THEN "open-" \o ev.res
  ELSE IF ~scope \/ exp = "unspecified" THEN "ok"
  ELSE IF exp # "ok" THEN (IF ev.res = exp THEN "ok" ELSE "open-of-." \o ev.ext \o "-gives-" \o ev.res \o "-instead-of-" \o exp)
  ELSE IF ev.res # "ok" THEN "written-" \o disk[ev.file].fmt \o "-file-cannot-be-read-back"
  ELSE IF ~ev.grid THEN "ok"
  ELSE IF ev.fps # disk[ev.file].fps THEN "frame-rate"
  ELSE Content(ev, IF ev.ign /\ ev.ext = "stl" THEN disk[ev.file].raw ELSE disk[ev.file].cues, disk[ev.file].fmt)

OpReason(ev) ==
  IF ev.res # "ok" THEN "op-" \o ev.name \o "-" \o ev.res
  ELSE IF ~scope \/ ~ev.grid THEN "ok"
  ELSE IF ev.name = "linear" /\ ~LinearDefined(ev.a) THEN "ok"
  ELSE IF OpOK(ev.name, ev.a, mem, second, ToCues(ev.cues)) THEN "ok"
  ELSE "op-" \o ev.name \o "-result"

WriteReason(ev) ==
  LET exp == WriteRes(ev.ext, mem) IN
  IF ev.res = "panic" \/ ev.res = "timeout" THEN "write-" \o ev.res
  ELSE IF ~scope \/ ev.ext \in norep THEN "ok"
  ELSE IF ev.res = exp THEN "ok"
  ELSE "write-to-." \o ev.ext \o "-gives-" \o ev.res \o "-instead-of-" \o exp

CliMid(ev) == OpResult(ev.name, ev.a, disk[ev.file].cues, IF ev.name = "merge" THEN disk[ev.file2].cues ELSE <<>>)
CliExp(ev) ==
  LET r1 == OpenRes(disk, ev.file, ev.inext)
      r2 == IF ev.name = "merge" THEN OpenRes(disk, ev.file2, ev.inext2) ELSE "ok"
  IN  IF ev.name \notin CliCommands THEN "err"
      ELSE IF r1 # "ok" THEN r1
      ELSE IF ~CliFlagsOK(ev.name, ev.a) THEN "err"
      ELSE IF r2 # "ok" THEN r2
      ELSE WriteRes(ev.ext, CliMid(ev))
CliReason(ev) ==
  IF ev.res = "panic" \/ ev.res = "timeout" THEN "cli-" \o ev.name \o "-" \o ev.res
  ELSE IF ~scope \/ ev.ext \in norep THEN "ok"
  ELSE IF ev.name = "linear" /\ ~LinearDefined(ev.a) THEN "ok"
  ELSE IF CliExp(ev) = "unspecified" THEN "ok"
  ELSE IF ev.res = CliExp(ev) THEN "ok"
  ELSE "cli-" \o ev.name \o "-to-." \o ev.ext \o "-gives-" \o ev.res \o "-instead-of-" \o CliExp(ev)

Reason(ev) ==
  CASE ev.ev = "source" -> "ok"
    [] ev.ev \in {"open", "open2"} -> OpenReason(ev)
    [] ev.ev = "op" -> OpReason(ev)
    [] ev.ev = "write" -> WriteReason(ev)
    [] ev.ev = "cli" -> CliReason(ev)
    [] ev.ev = "budget" -> "ok"
    [] OTHER -> "unknown-event"

Init == l = 1 /\ disk = <<>> /\ mem = <<>> /\ fps = 0 /\ res = "ok" /\ second = <<>> /\ scope = TRUE
        /\ norep = {} /\ ties = FALSE /\ swap = <<>>

SourceStep(ev) ==
  LET d0 == IF ev.first THEN <<>> ELSE disk
      inScope == ev.res = "ok" /\ ev.grid
  IN  /\ disk' = (ev.file :> [fmt |-> ev.fmt, cues |-> ToCues(ev.cues), fps |-> ev.fps, raw |-> ToCues(ev.raw)]) @@ d0
      /\ scope' = IF ev.first THEN inScope ELSE scope /\ inScope
      /\ norep' = IF ev.first THEN SeqSet(ev.norep) ELSE norep \cup SeqSet(ev.norep)
      /\ swap' = IF ev.first THEN ev.swap ELSE swap \o ev.swap
      /\ ties' = IF ev.first THEN FALSE ELSE ties
      /\ mem' = IF ev.first THEN <<>> ELSE mem
      /\ fps' = IF ev.first THEN 0 ELSE fps
      /\ second' = IF ev.first THEN <<>> ELSE second
      /\ res' = "ok"

OpenStep(ev) ==
  /\ IF ev.ev = "open" THEN mem' = (IF ev.res = "ok" THEN ToCues(ev.cues) ELSE mem) /\ fps' = (IF ev.res = "ok" THEN ev.fps ELSE fps) /\ UNCHANGED second
     ELSE second' = (IF ev.res = "ok" THEN ToCues(ev.cues) ELSE <<>>) /\ UNCHANGED <<mem, fps>>
  /\ res' = ev.res
  /\ scope' = (scope /\ ev.grid)
  \* the file's denotation is re-bound to what was observed (a deviation has been reported by OpenReason; the rest of
  \* the history is judged from the state the implementation is really in)
  /\ disk' = IF ev.res = "ok" /\ ev.file \in DOMAIN disk /\ disk[ev.file] # Blank /\ ev.grid /\ ~ev.ign
             THEN [disk EXCEPT ![ev.file].cues = ToCues(ev.cues)] ELSE disk
  /\ UNCHANGED <<norep, ties, swap>>

OpStep(ev) ==
  /\ mem' = ToCues(ev.cues)
  /\ scope' = (scope /\ ev.grid /\ NonNegative(ToCues(ev.cues)) /\ (ev.name = "linear" => LinearDefined(ev.a)))
  /\ res' = ev.res
  /\ UNCHANGED <<disk, fps, second, norep, ties, swap>>

WriteStep(ev) ==
  /\ disk' = (ev.file :> (IF ev.res = "ok" /\ ev.ext \in WriteFmts THEN Written(ev.ext, fps, mem) ELSE Blank)) @@ disk
  /\ scope' = (scope /\ ev.ext \notin norep)
  /\ res' = ev.res
  /\ UNCHANGED <<mem, fps, second, norep, ties, swap>>

CliStep(ev) ==
  LET can == ev.res = "ok" /\ ev.ext \in WriteFmts /\ ev.file \in DOMAIN disk /\ ev.name \in CliCommands
             /\ (ev.name = "merge" => ev.file2 \in DOMAIN disk) /\ (ev.name = "linear" => LinearDefined(ev.a))
  IN  /\ disk' = (ev.out :> (IF can THEN Written(ev.ext, disk[ev.file].fps, CliMid(ev)) ELSE Blank)) @@ disk
      /\ scope' = (scope /\ ev.ext \notin norep /\ can /\ NonNegative(CliMid(ev)))
      /\ ties' = (ties \/ ev.name \in {"fragment", "unfragment"})
      /\ res' = ev.res
      /\ UNCHANGED <<mem, fps, second, norep, swap>>

Step == /\ l <= Len(Trace)
        /\ LET ev == Trace[l] r == IF ev.first \/ l > 1 THEN Reason(ev) ELSE "trace-does-not-start-a-history" IN
           /\ IF r = "ok" THEN TRUE ELSE PrintT(<<"V", l, ev.n, IF r = "unknown-event" THEN "DRIFT" ELSE "C07", r>>)
           /\ CASE ev.ev = "source" -> SourceStep(ev)
                [] ev.ev \in {"open", "open2"} -> OpenStep(ev)
                [] ev.ev = "op" -> OpStep(ev)
                [] ev.ev = "write" -> WriteStep(ev)
                [] ev.ev = "cli" -> CliStep(ev)
                [] ev.ev = "budget" -> scope' = FALSE /\ UNCHANGED <<svars, second, norep, ties, swap>>
                [] OTHER -> UNCHANGED <<svars, second, scope, norep, ties, swap>>
        /\ l' = l + 1
Spec == Init /\ [][Step]_vars
Accepted == TLCGet("stats").diameter - 1 = Len(Trace)
=============================================================================
