------------------------------- MODULE TraceStl -------------------------------
(* Trace validation for C05. *)
EXTENDS StlCodec, Json, IOUtils
Trace == ndJsonDeserialize(IOEnv.TRACE)
VARIABLE l
T4(x) == <<x[1], x[2], x[3], x[4]>>
NormG(g) == [g EXCEPT !.tcp = T4(g.tcp), !.cues = [i \in DOMAIN g.cues |-> [g.cues[i] EXCEPT !.tci = T4(g.cues[i].tci), !.tco = T4(g.cues[i].tco)]]]
NormD(d) == [d EXCEPT !.tcp = T4(d.tcp), !.ttis = [i \in DOMAIN d.ttis |-> [d.ttis[i] EXCEPT !.tci = T4(d.ttis[i].tci), !.tco = T4(d.ttis[i].tco)]]]
NormP(p) == [p EXCEPT !.cues = [i \in DOMAIN p.cues |-> [p.cues[i] EXCEPT !.s = <<p.cues[i].s[1], p.cues[i].s[2]>>, !.e = <<p.cues[i].e[1], p.cues[i].e[2]>>]]]

\* the writer is given no display standard / frame rate when the list carries no STL metadata: it must pick
\* one, and the file must then denote the cues under the standard it declares
WriteTruth(ev) ==
  LET g == NormG(ev.g) d == NormD(ev.d) IN
  IF ev.mode = "full" THEN Truth(g, FALSE)
  ELSE Truth([g EXCEPT !.dsc = d.dsc, !.fps = d.fps, !.meta = <<>>], FALSE)

Reason(ev) ==
  IF ev.dir = "read" THEN
    LET g == NormG(ev.g) d == NormD(ev.d) IN
    IF ~Same(RefRead(d, ev.ignore), Truth(g, ev.ignore)) THEN "ORACLE-reference-decoder-disagrees-with-generator"
    ELSE IF ev.res # "ok" THEN "reader-" \o ev.res
    ELSE IF ~Same(NormP(ev.post), Truth(g, ev.ignore)) THEN "reader-returns-something-else"
    ELSE "ok"
  ELSE
    IF ev.res # "ok" THEN "writer-" \o ev.res
    ELSE IF ev.size # 1024 + 128 * Len(ev.g.cues) THEN "file-size-is-not-1024+128n"
    ELSE IF ev.mode = "full" /\ ~(CountryKept(RefRead(NormD(ev.d), FALSE), WriteTruth(ev)) /\ CountryKept(NormP(ev.post), WriteTruth(ev)))
         THEN "written-file-names-a-country-the-list-does-not"
    ELSE IF SameWritten(RefRead(NormD(ev.d), FALSE), WriteTruth(ev)) /\ SameWritten(NormP(ev.post), WriteTruth(ev))
         THEN (IF ev.tc2 THEN "ok" ELSE "read-then-write-changes-a-timecode")
    \* known finding stl-dollar-as-currency-sign: '$' (U+0024) is written as code 24h, which the Latin table
    \* defines as the currency sign; everything else must be exactly right
    ELSE IF HasCp(WriteTruth(ev), 36) /\ ev.tc2
            /\ SameWritten(RefRead(NormD(ev.d), FALSE), ReplaceCp(WriteTruth(ev), 36, 164))
            /\ SameWritten(NormP(ev.post), ReplaceCp(WriteTruth(ev), 36, 164))
         THEN "kf:stl-dollar-as-currency-sign"
    ELSE IF ~SameWritten(RefRead(NormD(ev.d), FALSE), WriteTruth(ev)) THEN "written-file-denotes-something-else(independent-decoder)"
    ELSE "written-file-denotes-something-else(library-reader)"
\* implementation layer: the model of the block loop predicts what the hook saw after every TTI block
ImplPredicts(ev) == ev.dir = "read" /\ ev.res = "ok" => ev.hooks = ImplHooks(ev.d)
Init == l = 1
Step == /\ l <= Len(Trace)
        /\ LET r == Reason(Trace[l]) IN
           IF r = "ok" THEN (IF ImplPredicts(Trace[l]) THEN TRUE ELSE PrintT(<<"V", l, Trace[l].n, "DRIFT", "block-loop-model-does-not-predict-the-hook-events">>))
           ELSE PrintT(<<"V", l, Trace[l].n, "C05", r>>)
        /\ l' = l + 1
Spec == Init /\ [][Step]_l
Accepted == TLCGet("stats").diameter - 1 = Len(Trace)
==============================================================================
