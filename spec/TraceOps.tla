------------------------------ MODULE TraceOps ------------------------------
(***************************************************************************)
(* Trace validation for C09-C14: every line of the trace is one call of    *)
(* the real code (recorded by harness/cmd/drive ops|opsrand).  The trace   *)
(* spec replays the lines as a behaviour of the list-operation system:     *)
(* state = the abstract list, one step per recorded call, the step must be *)
(* allowed by the normative relation of Ops.tla and must start in the      *)
(* state the previous call of the same history left (histories are         *)
(* concatenated; an event with first = TRUE resets the state).             *)
(* The spec never blocks: a step that the relation rejects is taken anyway *)
(* and reported as a verdict line <<"V", line, case, property, reason>>,   *)
(* so that the rest of the trace is still checked.                         *)
(***************************************************************************)
EXTENDS OpsImpl, Json, IOUtils, TLC

Trace == ndJsonDeserialize(IOEnv.TRACE)

\* The state of the replayed system after line l-1 is Trace[l-1].post / .post2 (the abstract list the
\* real code left); keeping it as a derived expression instead of a variable keeps TLC's states small.
VARIABLES l
vars == <<l>>
Cur(i)  == Trace[i - 1].post
Cur2(i) == Trace[i - 1].post2
\* first line of the history line i belongs to
RECURSIVE HistStart(_)
HistStart(i) == IF Trace[i].first THEN i ELSE HistStart(i - 1)

Times3(items) == MapSeq(items, LAMBDA c : <<c.s, c.e, c.t>>)

Pre(ev) ==
  CASE ev.op = "fragment" -> ev.a > 0 /\ SortedByStart(ev.pre.items) /\ \A i \in DOMAIN ev.pre.items : ev.pre.items[i].s <= ev.pre.items[i].e
    [] ev.op \in {"add", "add-inv"} -> \A i \in DOMAIN ev.pre.items : ev.pre.items[i].s <= ev.pre.items[i].e
    [] ev.op = "force" -> ForceDurationPre(ev.pre.items, ev.a)
    [] OTHER -> TRUE

\* the normative relation of the recorded call
Allowed(ev, b) ==
  CASE ev.op = "add"            -> AddOK(ev.pre, ev.a, ev.post)
    [] ev.op = "add-inv"        -> /\ AddOK(ev.pre, ev.a, ev.post)
                                   \* shifting by d and then by -d restores every cue that was neither clamped nor
                                   \* removed (by either step); d = -ev.a, b = the list before the first shift
                                   /\ \A i \in DOMAIN b.items :
                                        LET c == b.items[i] d == 0 - ev.a IN
                                        (c.s <= c.e /\ c.e + d > 0 /\ c.s + d >= 0 /\ c.e > 0 /\ c.s >= 0)
                                          => \E j \in DOMAIN ev.post.items : ev.post.items[j] = c
    [] ev.op = "fragment"       -> FragmentOK(ev.pre, ev.a, ev.post)
    [] ev.op = "unfragment"     -> UnfragmentOK(ev.pre, ev.post)
    [] ev.op = "unfragment-inv" -> /\ UnfragmentOK(ev.pre, ev.post)
                                   /\ SameBag(Times3(ev.post.items), Times3(b.items))
    [] ev.op = "order"          -> OrderOK(ev.pre, ev.post)
    [] ev.op = "merge"          -> MergeOK(ev.pre, ev.pre2, ev.post, ev.post2)
    [] ev.op = "optimize"       -> OptimizeOK(ev.pre, ev.post)
    [] ev.op = "removestyling"  -> RemoveStylingOK(ev.pre, ev.post)
    [] ev.op = "force"          -> ForceDurationOK(ev.pre, ev.a, ev.b # 0, ev.post)

\* C13: "the optimized list can still be written to every format and read back with the same cues as before":
\* whichever format wrote and re-read the list before the call does so after it, with the same cues
WriteBackOK(wb) == \A i \in DOMAIN wb : wb[i].preres = "ok" => (wb[i].postres = "ok" /\ wb[i].postcues = wb[i].precues)

PropertyOf(op) ==
  CASE op \in {"add", "add-inv"} -> "C09" [] op = "fragment" -> "C10" [] op \in {"unfragment", "unfragment-inv"} -> "C11"
    [] op \in {"order", "merge"} -> "C12" [] op \in {"optimize", "removestyling"} -> "C13" [] op = "force" -> "C14"

Reason(i) ==
  LET ev == Trace[i] IN
  IF ev.res # "ok" THEN ev.res
  ELSE IF ~ev.first /\ (Cur(i) # ev.pre \/ Cur2(i) # ev.pre2) THEN "discontinuity"
  ELSE IF ~Pre(ev) THEN "precondition"
  ELSE IF ~Allowed(ev, Trace[HistStart(i)].pre) THEN "relation"
  ELSE IF ev.op = "optimize" /\ ~WriteBackOK(ev.wb) THEN "optimized-list-no-longer-written-and-read-back-as-before"
  ELSE "ok"

\* implementation layer: the transcribed algorithm predicts the list the code leaves exactly (order among ties, which
\* object survives a merge, which pieces are new objects); a call the normative relation accepts but the
\* transcription does not predict is reported as DRIFT (the model no longer describes the code), never as a violation
ImplPredicts(ev) ==
  CASE ev.op \in {"add", "add-inv"} -> ev.post.items = AddImpl(ev.pre.items, ev.a)
    [] ev.op = "fragment" -> ev.post.items = FragmentImpl(ev.pre.items, ev.a)
    [] ev.op \in {"unfragment", "unfragment-inv"} -> ev.post.items = UnfragmentImpl(ev.pre.items)
    [] ev.op = "force" -> ev.post.items = ForceDurationImpl(ev.pre.items, ev.a, ev.b # 0)
    [] OTHER -> TRUE

Init == l = 1

Step ==
  /\ l <= Len(Trace)
  /\ LET r == Reason(l)
     IN  IF r = "ok"
         THEN (IF ImplPredicts(Trace[l]) THEN TRUE ELSE PrintT(<<"V", l, Trace[l].n, "DRIFT", "impl-layer-does-not-predict-" \o Trace[l].op>>))
         ELSE PrintT(<<"V", l, Trace[l].n, PropertyOf(Trace[l].op), r>>)
  /\ l' = l + 1

Spec == Init /\ [][Step]_vars

\* acceptance: every line was consumed (checked as POSTCONDITION)
Accepted == TLCGet("stats").diameter - 1 = Len(Trace)
==============================================================================
