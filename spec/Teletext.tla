------------------------------ MODULE Teletext ------------------------------
(***************************************************************************)
(* C06: teletext subtitles in an MPEG transport stream.                    *)
(*                                                                         *)
(* A stream is [pes, twopids, repeat, emptypes]; pes = sequence of         *)
(* [pts (90 kHz ticks), pid (0 = first teletext PID of the PMT, 1 = second *)
(* teletext PID, 2 = a PID without teletext descriptor), units]; a unit is *)
(* a teletext data unit:                                                   *)
(*   [k "hdr", mag, pt, pu, sub, serial, cs, erase]  page header (Y = 0):  *)
(*        magazine 1..8, page tens / units (hex nibbles), C6 subtitle flag,*)
(*        C11 magazine serial, C12-C14 character set code                  *)
(*   [k "row", mag, row, cells]       packet Y = row 1..24                 *)
(*   "x26" "x28" "m29" "x30"          enhancement / service packets;       *)
(*        x28 (format 1) and m29 carry grp, the G0 / national option       *)
(*        designation of their first triplet (0 = the default), and dc,    *)
(*        the designation code of the packet: X/28/0, X/28/4, M/29/0 and   *)
(*        M/29/4 designate character sets, the other codes do not          *)
(*   "stuff" "nonsub" "badframe" "hamerr" "short" "overlong" "cut"         *)
(*        stuffing, non-subtitle data unit, wrong framing code,            *)
(*        uncorrectable Hamming error in the address, malformed units      *)
(* cells of a row: [k "ch", v] character code, "sp", [k "col", v],         *)
(*   "box" (start box 0Bh), "endbox" (0Ah), "dh", "nh", [k "parerr", v]    *)
(*                                                                         *)
(* Expected(stream, opt) is the normative decoder (ETS 300 706 page        *)
(* assembly restricted to what the statement says); opt = [page, pid].     *)
(***************************************************************************)
EXTENDS Integers, Sequences, FiniteSets, SequencesExt, TeletextTables, TLC

---------------------------------------------------------------------------
(* rows *)
Trim(t) ==   \* t: sequence of sets of code points; blanks = {32}
  LET nb == {i \in DOMAIN t : t[i] # {32}} IN
  IF nb = {} THEN <<>> ELSE SubSeq(t, CHOOSE i \in nb : \A j \in nb : i <= j, CHOOSE i \in nb : \A j \in nb : j <= i)

InitRow == [on |-> FALSE, col |-> -1, dh |-> 0, t |-> <<>>, runs |-> <<>>]
FlushRun(s) == IF Trim(s.t) = <<>> THEN [s EXCEPT !.t = <<>>]
               ELSE [s EXCEPT !.runs = Append(@, [t |-> Trim(s.t), col |-> s.col, dh |-> s.dh]), !.t = <<>>]
Attr(s, f, v) == IF s[f] = v THEN s ELSE [(IF s.on THEN FlushRun(s) ELSE s) EXCEPT ![f] = v]

CellStep(s, c, cs) ==
  CASE c.k = "box" -> [s EXCEPT !.on = TRUE]
    [] c.k = "endbox" -> [s EXCEPT !.on = FALSE]
    [] c.k = "col" -> Attr(s, "col", c.v)
    [] c.k = "dh" -> Attr(s, "dh", 2)
    [] c.k = "nh" -> Attr(s, "dh", 1)
    [] c.k = "ch" -> IF s.on THEN [s EXCEPT !.t = Append(@, G0g(cs[2], cs[1], c.v))] ELSE s
    [] c.k = "sp" -> IF s.on THEN [s EXCEPT !.t = Append(@, {32})] ELSE s
    [] c.k = "parerr" -> s                     \* a character failing parity contributes no text
    [] OTHER -> s

RECURSIVE RowFold(_, _, _)
RowFold(s, cells, cs) == IF cells = <<>> THEN FlushRun(s).runs ELSE RowFold(CellStep(s, Head(cells), cs), Tail(cells), cs)
\* cs = <<character-set code of the page header, designation group>>
RowRuns(cells, cs) == RowFold(InitRow, cells, cs)
HasParErr(cells) == \E i \in DOMAIN cells : cells[i].k = "parerr"

---------------------------------------------------------------------------
(* page assembly *)
InitDec == [sel |-> <<>>, recv |-> FALSE, cur |-> <<>>, done |-> <<>>, x28 |-> -1, m29 |-> -1]

Close(d, pts) == IF d.cur = <<>> THEN d ELSE [d EXCEPT !.done = Append(@, [d.cur[1] EXCEPT !.end = pts]), !.cur = <<>>]

UnitStep(d, u, pts, opt) ==
  IF u.k = "hdr" THEN
    IF u.pt = 15 /\ u.pu = 15 THEN d                      \* FFh is not a page number
    ELSE LET d1 == IF d.sel = <<>> /\ opt.page = 0 /\ u.sub THEN [d EXCEPT !.sel = <<u.mag, u.pt, u.pu>>] ELSE d IN
         IF d1.sel = <<u.mag, u.pt, u.pu>>
         THEN [Close(d1, pts) EXCEPT !.cur = <<[start |-> pts, end |-> 0, cs |-> u.cs, rows |-> <<>>]>>, !.recv = TRUE]
         ELSE IF d1.sel # <<>> /\ d1.recv /\ (u.serial \/ u.mag = d1.sel[1]) THEN [d1 EXCEPT !.recv = FALSE]
         ELSE d1
  ELSE IF u.k = "row" THEN
    IF d.recv /\ d.sel # <<>> /\ u.mag = d.sel[1] /\ u.row \in 1..24
    THEN [d EXCEPT !.cur = <<[d.cur[1] EXCEPT !.rows = Append(@, [row |-> u.row, cells |-> u.cells])]>>]
    ELSE d
  \* character-set designation: X/28 belongs to the page being received, M/29 to the whole magazine
  ELSE IF u.k = "x28" THEN (IF u.dc \in {0, 4} /\ d.recv /\ d.sel # <<>> /\ u.mag = d.sel[1] THEN [d EXCEPT !.x28 = u.grp] ELSE d)
  ELSE IF u.k = "m29" THEN (IF u.dc \in {0, 4} /\ d.sel # <<>> /\ u.mag = d.sel[1] THEN [d EXCEPT !.m29 = u.grp] ELSE d)
  ELSE d
\* the designation in force: the page's own (X/28) before the magazine's (M/29); the streams of the families carry at
\* most one designation, so when it arrives relative to the rows it governs does not matter
GrpOf(d) == IF d.x28 >= 0 THEN d.x28 ELSE IF d.m29 >= 0 THEN d.m29 ELSE 0

RECURSIVE UnitsFold(_, _, _, _)
UnitsFold(d, us, pts, opt) == IF us = <<>> THEN d ELSE UnitsFold(UnitStep(d, Head(us), pts, opt), Tail(us), pts, opt)
RECURSIVE PesFold(_, _, _)
PesFold(d, ps, opt) == IF ps = <<>> THEN d ELSE PesFold(UnitsFold(d, Head(ps).units, Head(ps).pts, opt), Tail(ps), opt)

\* selected page as <<magazine, tens, units>> from the option (decimal page number 100..899), <<>> = auto-detect
SelOf(page) == IF page = 0 THEN <<>> ELSE <<page \div 100, (page % 100) \div 10, page % 10>>
MinPts(ps) == CHOOSE x \in {ps[i].pts : i \in DOMAIN ps} : \A i \in DOMAIN ps : x <= ps[i].pts
MaxPts(ps) == CHOOSE x \in {ps[i].pts : i \in DOMAIN ps} : \A i \in DOMAIN ps : x >= ps[i].pts

SortRows(rows) == SortSeq(rows, LAMBDA a, b : a.row < b.row)

\* one expected cue per non-empty instance; a line = [runs, textonly] (textonly: the row held a parity error and only
\* its text is specified)
Expected(stream, opt) ==
  LET ps == SelectSeq(stream.pes, LAMBDA p : p.pid = opt.pid /\ (p.pid # 1 \/ stream.twopids))
  IN  IF ps = <<>> \/ opt.pid = 2 THEN <<>>
      ELSE LET d0 == [InitDec EXCEPT !.sel = SelOf(opt.page)]
               d1 == Close(PesFold(d0, ps, opt), MaxPts(ps))
               first == MinPts(ps)
               insts == SelectSeq(d1.done, LAMBDA x : x.rows # <<>>)
           IN  [i \in DOMAIN insts |->
                  [s |-> ((insts[i].start - first) \div 90), e |-> ((insts[i].end - first) \div 90),
                   lines |-> SelectSeq([j \in DOMAIN SortRows(insts[i].rows) |->
                                          [runs |-> RowRuns(SortRows(insts[i].rows)[j].cells, <<insts[i].cs, GrpOf(d1)>>),
                                           textonly |-> HasParErr(SortRows(insts[i].rows)[j].cells)]],
                                       LAMBDA ln : ln.runs # <<>>)]]

---------------------------------------------------------------------------
(* Implementation layer: the control state of teletextPageBuffer, observed by the `verif` hook at the top of
   parsePacket - one entry <<magazine, packet number, receiving, selected magazine, selected page>> per packet that
   reaches the dispatcher, i.e. per subtitle data unit of the chosen PID with a good framing code and a decodable
   address. CtlStep transcribes parsePacketHeader's handling of that state; TeletextMC checks that it agrees with
   the normative decoder's (sel, recv) on every stream of the families except for the one deviation named below.
   A data unit whose length runs past the payload ("overlong", "cut") ends the processing of its PES packet. *)
Reaches(u) == u.k \in {"hdr", "row", "x26", "x28", "m29", "x30"}
PktNo(u) == CASE u.k = "hdr" -> 0 [] u.k = "row" -> u.row [] u.k = "x26" -> 26 [] u.k = "x28" -> 28 [] u.k = "m29" -> 29 [] u.k = "x30" -> 30
MagOf(u) == IF u.k = "x30" THEN 8 ELSE u.mag
\* c = [mag, page, recv]: teletextPageBuffer.magazineNumber / pageNumber (two hexadecimal digits) / receiving
CtlInit(page) == [mag |-> page \div 100, page |-> (16 * ((page % 100) \div 10)) + (page % 10), recv |-> FALSE]
\* parsePacketHeader, transcribed. It differs from UnitStep in one place that no well-formed stream can show: in
\* serial mode a header ends the page being received only when its page *number* differs - the header of the page
\* with the same number in another magazine leaves `receiving` set (that magazine's rows are still discarded by
\* parsePacket, and the next header of the selected page starts a new instance either way)
CtlStep(c, u) ==
  IF u.k # "hdr" \/ (u.pt = 15 /\ u.pu = 15) THEN c
  ELSE LET pn == 16 * u.pt + u.pu
           c1 == IF c.mag = 0 /\ c.page = 0 /\ u.sub THEN [c EXCEPT !.mag = u.mag, !.page = pn] ELSE c
       IN  IF c1.recv /\ ((u.serial /\ pn # c1.page) \/ (~u.serial /\ pn # c1.page /\ u.mag = c1.mag)) THEN [c1 EXCEPT !.recv = FALSE]
           ELSE IF pn # c1.page \/ u.mag # c1.mag THEN c1
           ELSE [c1 EXCEPT !.recv = TRUE]
Obs(c, u) == <<MagOf(u), PktNo(u), IF c.recv THEN 1 ELSE 0, c.mag, c.page>>
RECURSIVE BeforeBreak(_)
BeforeBreak(us) == IF us = <<>> \/ Head(us).k \in {"overlong", "cut"} THEN <<>> ELSE <<Head(us)>> \o BeforeBreak(Tail(us))
RECURSIVE HookUnits(_, _)
HookUnits(c, us) ==
  IF us = <<>> THEN [c |-> c, h |-> <<>>]
  ELSE LET reach == Reaches(Head(us))
           r == HookUnits(IF reach THEN CtlStep(c, Head(us)) ELSE c, Tail(us))
       IN  [c |-> r.c, h |-> (IF reach THEN <<Obs(c, Head(us))>> ELSE <<>>) \o r.h]
RECURSIVE HookPes(_, _)
HookPes(c, ps) ==
  IF ps = <<>> THEN <<>>
  ELSE LET r == HookUnits(c, BeforeBreak(Head(ps).units)) IN r.h \o HookPes(r.c, Tail(ps))
ImplHooks(stream, opt) ==
  LET ps == SelectSeq(stream.pes, LAMBDA p : p.pid = opt.pid /\ (p.pid # 1 \/ stream.twopids))
  IN  IF ps = <<>> \/ opt.pid = 2 THEN <<>> ELSE HookPes(CtlInit(opt.page), ps)

---------------------------------------------------------------------------
(* what the library returned (post: sequence of [s, e, lines], line = sequence of runs [t, col, dh]) vs Expected *)
RECURSIVE FlatSets(_)
FlatSets(runs) == IF runs = <<>> THEN <<>> ELSE Head(runs).t \o FlatSets(Tail(runs))
RECURSIVE FlatCps(_)
FlatCps(runs) == IF runs = <<>> THEN <<>> ELSE Head(runs).t \o FlatCps(Tail(runs))
TextIn(cps, sets) == Len(cps) = Len(sets) /\ \A i \in DOMAIN cps : cps[i] \in sets[i]

\* two adjacent runs with the same colour and height are one run (no reader can tell them apart on screen): both
\* sides are compared after merging them
RECURSIVE MergeRuns(_)
MergeRuns(runs) ==
  IF Len(runs) < 2 THEN runs
  ELSE IF runs[1].col = runs[2].col /\ runs[1].dh = runs[2].dh
       THEN MergeRuns(<<[runs[1] EXCEPT !.t = @ \o runs[2].t]>> \o SubSeq(runs, 3, Len(runs)))
       ELSE <<runs[1]>> \o MergeRuns(Tail(runs))

LineOK(got0, exp0) ==
  LET got == MergeRuns(got0) exp == [exp0 EXCEPT !.runs = MergeRuns(@)] IN
  IF exp.textonly THEN TextIn(SelectSeq(FlatCps(got), LAMBDA c : c # 32), SelectSeq(FlatSets(exp.runs), LAMBDA s : s # {32}))
  ELSE /\ Len(got) = Len(exp.runs)
       /\ \A i \in DOMAIN got : TextIn(got[i].t, exp.runs[i].t) /\ got[i].col = exp.runs[i].col
                                 /\ (got[i].dh = exp.runs[i].dh \/ (got[i].dh \in {0, 1} /\ exp.runs[i].dh \in {0, 1}))

CuesOK(post, exp) ==
  /\ Len(post) = Len(exp)
  /\ \A i \in DOMAIN exp : /\ post[i].s = exp[i].s /\ post[i].e = exp[i].e
                           /\ Len(post[i].lines) = Len(exp[i].lines)
                           /\ \A j \in DOMAIN exp[i].lines : LineOK(post[i].lines[j], exp[i].lines[j])
=============================================================================
