------------------------------- MODULE TraceTtml -------------------------------
(* Trace validation for C03. *)
EXTENDS TtmlCodec, Json, IOUtils
Trace == ndJsonDeserialize(IOEnv.TRACE)
VARIABLE l
AsTruth(g) == Truth([lang |-> g.lang, title |-> g.title, copyright |-> g.copyright, fr |-> g.fr, tr |-> g.tr,
                     styles |-> g.styles, regions |-> g.regions, cues |-> g.cues])
Inst2(p) == [p EXCEPT !.cues = [i \in DOMAIN p.cues |-> [p.cues[i] EXCEPT !.s = <<p.cues[i].s[1], p.cues[i].s[2]>>, !.e = <<p.cues[i].e[1], p.cues[i].e[2]>>]]]
Reason(ev) ==
  IF ev.dir = "read" THEN
    IF RefRead(ev.d) # AsTruth(ev.g) THEN "ORACLE-reference-decoder-disagrees-with-generator"
    ELSE IF ev.res # "ok" THEN "reader-" \o ev.res
    ELSE IF ~SameModuloNs(Inst2(ev.post), AsTruth(ev.g)) THEN "reader-returns-something-else"
    ELSE "ok"
  ELSE
    IF ev.res # "ok" THEN "writer-" \o ev.res
    ELSE IF ~SameModuloNs(RefRead(ev.d), AsTruth(ev.g)) THEN "written-document-denotes-something-else(independent-decoder)"
    ELSE IF ~SameModuloNs(Inst2(ev.post), AsTruth(ev.g)) THEN "written-document-denotes-something-else(library-reader)"
    ELSE "ok"
Init == l = 1
Step == /\ l <= Len(Trace)
        /\ LET r == Reason(Trace[l]) IN IF r = "ok" THEN TRUE ELSE PrintT(<<"V", l, Trace[l].n, "C03", r>>)
        /\ l' = l + 1
Spec == Init /\ [][Step]_l
Accepted == TLCGet("stats").diameter - 1 = Len(Trace)
==============================================================================
