SPECIFICATION Spec
CONSTANT FAM = "S"
CHECK_DEADLOCK FALSE
