SPECIFICATION Spec
CONSTANT FAM = "N"
INVARIANT DecoderCorrect
CHECK_DEADLOCK FALSE
