SPECIFICATION Spec
CONSTANTS
  G = 1
  N = 2
  NT = 1
  DS <- DSq
  FS = {1}
  FD = {1}
  K = 1
  REFS = TRUE
INVARIANTS OptimizeLaws
CHECK_DEADLOCK FALSE
