SPECIFICATION Spec
CONSTANTS
  CLOSES = FALSE
  ALG = "optimize"
  G = 3
  N = 1
  NT = 2
  DS <- DSq
  FS = {1, 2, 3}
  FD = {1, 2, 3, 4}
  SIDS = {"a", "b", "c"}
  RIDS = {"r"}
INVARIANTS Refines AddInv FragInv UnfragInv OptInv
PROPERTY Terminates
CHECK_DEADLOCK FALSE
