SPECIFICATION Spec
CONSTANTS
  G = 3
  N = 2
  NT = 2
  DS <- DSq
  FS = {1, 2, 3}
  FD = {1, 2, 3, 4}
  K = 1
  REFS = FALSE
INVARIANTS OrderLaws
CHECK_DEADLOCK FALSE
