SPECIFICATION Spec
CONSTANT FAM = "S"
INVARIANT DecoderCorrect
INVARIANT CtlRefines
CHECK_DEADLOCK FALSE
