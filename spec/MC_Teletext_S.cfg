SPECIFICATION Spec
CONSTANT FAM = "S"
INVARIANT DecoderCorrect
CHECK_DEADLOCK FALSE
