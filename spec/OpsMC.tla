------------------------------- MODULE OpsMC -------------------------------
(***************************************************************************)
(* Model checking of the normative list operations: the state is a cue     *)
(* list, every documented operation is an action, histories of length <= K *)
(* are explored from every initial list over small constants, and the laws *)
(* stated by properties C09-C14 are invariants / action properties.        *)
(* A failure here means the specification (the oracle) is wrong: exit 2,   *)
(* never a VIOLATION.                                                      *)
(***************************************************************************)
EXTENDS Ops, TLC

CONSTANTS G,        \* time grid 0..G
          N,        \* max cues in an initial list
          NT,       \* number of text atoms
          DS,       \* shifts for Add
          FS,       \* periods for Fragment
          FD,       \* targets for ForceDuration
          K,        \* history length
          REFS      \* TRUE: vary the reference graph (C13) instead of times

VARIABLES subs, step, act
vars == <<subs, step, act>>

StyleIds == {"", "a", "b", "c"}

TimeCue(id, s, e, t) ==
  [id |-> id, ptr |-> id, s |-> s, e |-> e, t |-> t, st |-> "", rg |-> "", rs |-> <<>>, ni |-> 0, ok |-> TRUE]

TimeLists(NN) ==
  UNION {{[i \in 1..n |-> TimeCue(i, se[i][1], se[i][2], tx[i])] :
            se \in [1..n -> {p \in (0..G) \X (0..G) : p[1] <= p[2]}], tx \in [1..n -> 1..NT]} : n \in 0..NN}

RefCue(id, st, rg, r1) ==
  [id |-> id, ptr |-> id, s |-> id, e |-> id + 1, t |-> id, st |-> st, rg |-> rg, rs |-> <<r1>>, ni |-> 0, ok |-> TRUE]

\* style graph over ids a,b,c (subset present), parents arbitrary among present or none (forest or not:
\* cycles included, Reach is a least fixed point and must still terminate)
StyleMaps ==
  UNION {{[k \in P |-> [id |-> k, parent |-> par[k], tag |-> "A"]] : par \in [P -> P \cup {""}]} : P \in SUBSET {"a", "b", "c"}}
RegionMaps(styles) ==
  UNION {{[k \in P |-> [id |-> k, parent |-> st[k], tag |-> "A"]] : st \in [P -> DOMAIN styles \cup {""}]} : P \in SUBSET (IF N = 1 THEN {"r"} ELSE {"r", "q"})}

RefLists(NN) ==
  UNION {UNION {{[items |-> [i \in 1..n |-> RefCue(i, cs[i][1], cs[i][2], cs[i][3])],
                  styles |-> sm, regions |-> rm, snil |-> FALSE, rnil |-> FALSE] :
                   cs \in [1..n -> (DOMAIN sm \cup {""}) \X (DOMAIN rm \cup {""}) \X (DOMAIN sm \cup {""})]} :
                 rm \in RegionMaps(sm)} : sm \in StyleMaps, n \in 1..NN}

MkSubs(items) == [items |-> items, styles |-> EmptyMap, regions |-> EmptyMap, snil |-> FALSE, rnil |-> FALSE]

\* written with nested quantifiers so that TLC enumerates the initial states without first building
\* (and normalising) the whole set of lists
InitTime ==
  \E n \in 0..N : \E se \in [1..n -> {p \in (0..G) \X (0..G) : p[1] <= p[2]}] : \E tx \in [1..n -> 1..NT] :
    subs = MkSubs([i \in 1..n |-> TimeCue(i, se[i][1], se[i][2], tx[i])])

InitRefs ==
  \E sm \in StyleMaps : \E rm \in RegionMaps(sm) : \E n \in 1..N :
    \E cs \in [1..n -> (DOMAIN sm \cup {""}) \X (DOMAIN rm \cup {""}) \X (DOMAIN sm \cup {""})] :
      subs = [items |-> [i \in 1..n |-> RefCue(i, cs[i][1], cs[i][2], cs[i][3])],
              styles |-> sm, regions |-> rm, snil |-> FALSE, rnil |-> FALSE]

Init ==
  /\ step = 0
  /\ act = "init"
  /\ IF REFS THEN InitRefs ELSE InitTime

DoAdd(d)        == subs' = Add(subs, d) /\ act' = "add"
DoFragment(f)   == SortedByStart(subs.items) /\ subs' = Fragment(subs, f) /\ act' = "fragment"
DoUnfragment    == subs' = Unfragment(subs) /\ act' = "unfragment"
DoOrder         == subs' = Order(subs) /\ act' = "order"
DoOptimize      == subs' = Optimize(subs) /\ act' = "optimize"
DoForce(d, fl)  == ForceDurationPre(subs.items, d) /\ subs' = ForceDuration(subs, d, fl) /\ act' = "force"

Next ==
  /\ step < K
  /\ step' = step + 1
  /\ \/ \E d \in DS : DoAdd(d)
     \/ \E f \in FS : DoFragment(f)
     \/ DoUnfragment
     \/ DoOrder
     \/ DoOptimize
     \/ (REFS /\ subs' = [subs EXCEPT !.items = <<>>] /\ act' = "clear")
     \/ \E d \in FD, fl \in BOOLEAN : DoForce(d, fl)

Spec == Init /\ [][Next]_vars

---------------------------------------------------------------------------
(* Laws.  Each is a state predicate over the operator applied to the current list. *)
Times(items) == MapSeq(items, LAMBDA c : <<c.s, c.e, c.t>>)

\* C09: shifting by d then -d restores every cue neither clamped nor removed by either step
AddInverse ==
  \A d \in DS :
    LET T == AddItems(subs.items, d)
        U == AddItems(T, -d)
    IN  \A i \in DOMAIN subs.items :
          LET c == subs.items[i]
          IN  (/\ c.s <= c.e
               /\ c.e + d > 0 /\ c.s + d >= 0             \* first step: not removed, not clamped
               /\ (c.e + d) - d > 0 /\ (c.s + d) - d >= 0) \* second step likewise
              => \E j \in DOMAIN U : U[j] = c
\* C09: survivors keep their relative order
AddKeepsOrder ==
  \A d \in DS :
    LET T == AddItems(subs.items, d)
    IN  MapSeq(T, LAMBDA c : c.id) = MapSeq(SelectSeq(subs.items, LAMBDA c : c.e + d > 0), LAMBDA c : c.id)

\* C10: on start-ordered lists
FragmentLaws ==
  SortedByStart(subs.items) =>
    \A f \in FS :
      LET T == Fragment(subs, f)
      IN  /\ NoCueContainsMultiple(T.items, f)
          /\ SortedByStart(T.items)
          /\ FragmentOK(subs, f, T)
          /\ \A h \in 0..(2 * MaxEnd(subs.items) + 1) : OnScreen(T.items, h) = OnScreen(subs.items, h)
          /\ \A i \in DOMAIN subs.items : ~ContainsMultiple(subs.items[i], f) => \E j \in DOMAIN T.items : T.items[j] = subs.items[i]

\* C11
UnfragmentLaws ==
  LET T == Unfragment(subs)
  IN  /\ NoSameTextTouch(T.items)
      /\ SortedByStart(T.items)
      /\ UnfragmentOK(subs, T)
      /\ \A h \in 0..(2 * MaxEnd(subs.items) + 1) : OnScreen(T.items, h) = OnScreen(subs.items, h)
      \* closed-interval instants: a zero-length cue is on screen nowhere by the half-open rule, so also
      \* require that every cue is covered by a same-text survivor
      /\ \A i \in DOMAIN subs.items : \E j \in DOMAIN T.items :
            T.items[j].t = subs.items[i].t /\ T.items[j].s <= subs.items[i].s /\ subs.items[i].e <= T.items[j].e
      \* untouched: a cue whose component is a singleton is still there
      /\ LET srt == StableSortByStart(subs.items)
         IN  \A i \in DOMAIN srt : Component(srt, i) = {i} => \E j \in DOMAIN T.items : T.items[j] = srt[i]

UnfragmentFragmentInverse ==
  (SortedByStart(subs.items) /\ NoSameTextTouch(subs.items)) =>
    \A f \in FS : SameBag(Times(Unfragment(Fragment(subs, f)).items), Times(subs.items))

\* C12
OrderLaws ==
  LET T == Order(subs)
  IN  /\ SortedByStart(T.items)
      /\ SameBag(T.items, subs.items)
      /\ (Cardinality(RangeOf(subs.items)) = Len(subs.items)) =>
           \A i, j \in DOMAIN T.items : (i < j /\ T.items[i].s = T.items[j].s) =>
              (CHOOSE p \in DOMAIN subs.items : subs.items[p] = T.items[i]) <
              (CHOOSE p \in DOMAIN subs.items : subs.items[p] = T.items[j])
      /\ Order(T) = T

\* C13
OptimizeLaws ==
  LET T == Optimize(subs)
  IN  /\ Optimize(T) = T
      /\ T.items = subs.items
      /\ (AllRefsResolve(subs) => AllRefsResolve(T))
      /\ (subs.items = <<>> => T = subs)
      \* exactly the unreachable ones are deleted
      /\ subs.items # <<>> =>
           \A k \in DOMAIN subs.styles : (k \in DOMAIN T.styles) <=> (subs.styles[k].id \in ReachStyleIds(subs))

\* C14
ForceLaws ==
  \A d \in FD :
    ForceDurationPre(subs.items, d) =>
      /\ Duration(ForceDurationItems(subs.items, d, TRUE)) = d
      /\ (Duration(subs.items) = d => ForceDurationItems(subs.items, d, TRUE) = subs.items)
      /\ LET T == ForceDurationItems(subs.items, d, FALSE)
         IN  /\ (Duration(subs.items) # d => \A i \in DOMAIN T : T[i].s < d /\ T[i].e <= d)
             /\ Len(T) <= Len(subs.items)
             /\ Duration(T) <= Max2(d, 0)

\* vacuity guards: some cue is actually cut / merged / removed somewhere (checked via TLCGet counters by ./check)
=============================================================================
