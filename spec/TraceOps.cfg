SPECIFICATION Spec
CONSTANT CLOSES = TRUE
POSTCONDITION Accepted
CHECK_DEADLOCK FALSE
