---------------------------- MODULE TraceTeletext ----------------------------
(* Trace validation for C06: each event = one call of ReadFromTeletext on the transport stream assembled from
   ev.st (astits muxer + the harness's teletext packet encoder) with options ev.op; ev.post = the returned cues. *)
EXTENDS Teletext, Json, IOUtils
Trace == ndJsonDeserialize(IOEnv.TRACE)
VARIABLE l
Reason(ev) ==
  IF ev.res \notin {"ok", "err"} THEN "reader-" \o ev.res
  ELSE LET exp == Expected(ev.st, ev.op) IN
       IF ev.res = "err" THEN (IF exp = <<>> /\ ev.nopid THEN "ok" ELSE "reader-fails-on-a-valid-stream")
       ELSE IF ~CuesOK(ev.post, exp) THEN "cues-differ-from-the-transmitted-pages"
       ELSE "ok"
\* implementation layer: the page buffer's control state at every packet (hook ttx.packet) is the model's
ImplPredicts(ev) == ev.res \notin {"ok", "err"} \/ ev.hooks = ImplHooks(ev.st, ev.op)
Init == l = 1
Step == /\ l <= Len(Trace)
        /\ LET r == Reason(Trace[l]) IN IF r = "ok" THEN TRUE ELSE PrintT(<<"V", l, Trace[l].n, "C06", r>>)
        /\ IF ImplPredicts(Trace[l]) THEN TRUE ELSE PrintT(<<"V", l, Trace[l].n, "DRIFT", "page-buffer-control-state">>)
        /\ l' = l + 1
Spec == Init /\ [][Step]_l
Accepted == TLCGet("stats").diameter - 1 = Len(Trace)
=============================================================================
