-------------------------------- MODULE Ops --------------------------------
(***************************************************************************)
(* Normative layer of the list transformations                             *)
(*   Add (C09), Fragment (C10), Unfragment (C11), Order / Merge (C12),     *)
(*   Optimize / RemoveStyling (C13), ForceDuration (C14).                  *)
(* Every operator says what the property statement says and nothing else;  *)
(* where the statement leaves freedom the operator is a relation           *)
(* XxxOK(pre, args, post).  anchors: subtitles.go                          *)
(***************************************************************************)
EXTENDS Cues

---------------------------------------------------------------------------
(* C09 Add *)
AddItems(items, d) ==
  LET keep == SelectSeq(items, LAMBDA c : c.e + d > 0)
  IN  [i \in DOMAIN keep |-> [keep[i] EXCEPT !.s = Max2(0, keep[i].s + d), !.e = keep[i].e + d]]

Add(S, d) == [S EXCEPT !.items = AddItems(S.items, d)]

AddOK(S, d, T) == T = Add(S, d)

---------------------------------------------------------------------------
(* C10 Fragment *)
CutPoints(c, f) == {k * f : k \in {j \in (c.s \div f)..(c.e \div f) : j * f > c.s /\ j * f < c.e}}

PiecesSeq(c, f) ==
  LET bs     == SetToSortSeq(CutPoints(c, f), <)
      bounds == <<c.s>> \o bs \o <<c.e>>
  IN  [i \in 1..(Len(bounds) - 1) |-> [c EXCEPT !.s = bounds[i], !.e = bounds[i + 1]]]

RECURSIVE FlatPieces(_, _)
FlatPieces(items, f) ==
  IF items = <<>> THEN <<>> ELSE PiecesSeq(Head(items), f) \o FlatPieces(Tail(items), f)

\* canonical result (used by the model; the relation below accepts any
\* start-sorted arrangement of the same pieces)
Fragment(S, f) == [S EXCEPT !.items = StableSortByStart(FlatPieces(S.items, f))]

FragmentOK(S, f, T) ==
  /\ SortedByStart(T.items)
  /\ SameBag(MapSeq(T.items, Strip), MapSeq(FlatPieces(S.items, f), Strip))
  /\ SameMap(T.styles, S.styles) /\ SameMap(T.regions, S.regions)
  /\ T.snil = S.snil /\ T.rnil = S.rnil

ContainsMultiple(c, f) == CutPoints(c, f) # {}
NoCueContainsMultiple(items, f) == \A i \in DOMAIN items : ~ContainsMultiple(items[i], f)

---------------------------------------------------------------------------
(* C11 Unfragment *)
\* indices (into the start-sorted list) of the same-text connected component of index i
\* under the relation "intervals touch or overlap" (closed intervals)
Touch(a, b) == a.t = b.t /\ a.s <= b.e /\ b.s <= a.e

RECURSIVE Closure(_, _)
Closure(items, K) ==
  LET K2 == K \cup {j \in DOMAIN items : \E i \in K : Touch(items[i], items[j])}
  IN  IF K2 = K THEN K ELSE Closure(items, K2)

Component(items, i) == Closure(items, {i})
Components(items) == {Component(items, i) : i \in DOMAIN items}

CompStart(items, K) == Min({items[i].s : i \in K})
CompEnd(items, K)   == Max({items[i].e : i \in K})

\* canonical: representative = first member in stable order
UnfragmentItems(items0) ==
  LET items == StableSortByStart(items0)
      reps  == {Min(K) : K \in Components(items)}
      seqr  == SetToSortSeq(reps, <)
  IN  [n \in DOMAIN seqr |->
         [items[seqr[n]] EXCEPT !.e = CompEnd(items, Component(items, seqr[n]))]]

Unfragment(S) == [S EXCEPT !.items = UnfragmentItems(S.items)]

\* relation: the statement fixes "the earlier one"; among members with equal (minimal)
\* start either may be the survivor.
UnfragmentOK(S, T) ==
  LET items == StableSortByStart(S.items)
      comps == Components(items)
  IN  /\ SortedByStart(T.items)
      /\ Len(T.items) = Cardinality(comps)
      /\ \A i, j \in DOMAIN T.items : i # j => <<T.items[i].t, T.items[i].s>> # <<T.items[j].t, T.items[j].s>>
      /\ \A n \in DOMAIN T.items :
           \E K \in comps :
             \E m \in K :
               /\ items[m].s = CompStart(items, K)
               /\ T.items[n] = [items[m] EXCEPT !.e = CompEnd(items, K)]
      /\ SameMap(T.styles, S.styles) /\ SameMap(T.regions, S.regions)
      /\ T.snil = S.snil /\ T.rnil = S.rnil

NoSameTextTouch(items) ==
  \A i, j \in DOMAIN items : i # j => ~Touch(items[i], items[j])

---------------------------------------------------------------------------
(* C12 Order and Merge *)
Order(S) == [S EXCEPT !.items = StableSortByStart(S.items)]
OrderOK(S, T) == T = Order(S)

\* union keyed by identifier, A's definition wins
UnionById(A, B) ==
  LET idsA == {A[k].id : k \in DOMAIN A}
      addB == {k \in DOMAIN B : B[k].id \notin idsA}
      \* the code stores a definition taken from B under its identifier
  IN  [k \in DOMAIN A \cup {B[j].id : j \in addB} |->
         IF k \in DOMAIN A THEN A[k] ELSE B[CHOOSE j \in addB : B[j].id = k]]

MergeOK(A, B, A2, B2) ==
  /\ A2.items = StableSortByStart(A.items \o B.items)
  /\ SameMap(A2.styles, UnionById(A.styles, B.styles))
  /\ SameMap(A2.regions, UnionById(A.regions, B.regions))
  /\ B2 = B

---------------------------------------------------------------------------
(* C13 Optimize and RemoveStyling *)
NonEmpty(S) == S \ {""}

ReachRegionIds(S) == NonEmpty({S.items[i].rg : i \in DOMAIN S.items})

RECURSIVE ParentClosure(_, _)
ParentClosure(styles, ids) ==
  LET more == ids \cup NonEmpty({styles[k].parent : k \in {j \in DOMAIN styles : styles[j].id \in ids}})
  IN  IF more = ids THEN ids ELSE ParentClosure(styles, more)

ReachStyleIds(S) ==
  LET direct == UNION {{S.items[i].st} \cup RangeOf(S.items[i].rs) : i \in DOMAIN S.items}
      viaReg == {S.regions[k].parent : k \in {j \in DOMAIN S.regions : S.regions[j].id \in ReachRegionIds(S)}}
  IN  ParentClosure(S.styles, NonEmpty(direct \cup viaReg))

RestrictTo(m, K) == [k \in K |-> m[k]]

Optimize(S) ==
  IF S.items = <<>> THEN S
  ELSE [S EXCEPT
         !.styles  = RestrictTo(S.styles,  {k \in DOMAIN S.styles  : S.styles[k].id  \in ReachStyleIds(S)}),
         !.regions = RestrictTo(S.regions, {k \in DOMAIN S.regions : S.regions[k].id \in ReachRegionIds(S)})]

OptimizeOK(S, T) ==
  LET X == Optimize(S)
  IN  /\ T.items = S.items
      /\ SameMap(T.styles, X.styles) /\ SameMap(T.regions, X.regions)

\* every reference that is left resolves (to a definition with that identifier)
AllRefsResolve(S) ==
  LET sids == {S.styles[k].id : k \in DOMAIN S.styles}
      rids == {S.regions[k].id : k \in DOMAIN S.regions}
  IN  /\ \A i \in DOMAIN S.items :
           /\ S.items[i].st \in sids \cup {""}
           /\ S.items[i].rg \in rids \cup {""}
           /\ RangeOf(S.items[i].rs) \subseteq sids \cup {""}
      /\ \A k \in DOMAIN S.regions : S.regions[k].parent \in sids \cup {""}
      /\ \A k \in DOMAIN S.styles  : S.styles[k].parent \in sids \cup {""}

\* RemoveStyling: timing, text, voices, order untouched (the harness computes ok against a
\* snapshot from which styling was stripped); no style / region / inline attribute left.
RemoveStylingOK(S, T) ==
  /\ Len(T.items) = Len(S.items)
  /\ \A i \in DOMAIN S.items :
       T.items[i] = [S.items[i] EXCEPT !.st = "", !.rg = "", !.ni = 0,
                                       !.rs = [j \in DOMAIN S.items[i].rs |-> ""]]
  /\ DOMAIN T.styles = {} /\ DOMAIN T.regions = {}

---------------------------------------------------------------------------
(* C14 ForceDuration *)
Duration(items) == IF items = <<>> THEN 0 ELSE items[Len(items)].e

ForceDurationPre(items, d) ==
  /\ d >= 1
  /\ SortedByStart(items)
  /\ \A i \in 1..(Len(items) - 1) : items[i].e <= items[i + 1].e
  /\ \A i \in DOMAIN items : items[i].s <= items[i].e

\* the filler is reported by the harness as a cue with id = 0, ptr = 0, t = FillerText
FillerText == -1
Filler(d) == [id |-> 0, ptr |-> 0, s |-> d - 1, e |-> d, t |-> FillerText, st |-> "", rg |-> "", rs |-> <<"">>, ni |-> 0, ok |-> TRUE]

ForceDurationItems(items, d, filler) ==
  IF Duration(items) = d THEN items
  ELSE LET kept == SelectSeq(items, LAMBDA c : c.s < d)
           cut  == [i \in DOMAIN kept |-> IF kept[i].e > d THEN [kept[i] EXCEPT !.e = d] ELSE kept[i]]
       IN  IF filler /\ Duration(cut) < d THEN Append(cut, Filler(d)) ELSE cut

ForceDuration(S, d, filler) == [S EXCEPT !.items = ForceDurationItems(S.items, d, filler)]
ForceDurationOK(S, d, filler, T) == T = ForceDuration(S, d, filler)

=============================================================================
