SPECIFICATION Spec
CONSTANTS
  CR_WAITS = FALSE
  CHECKS_ERR = TRUE
  BLOCK_LOOPS = TRUE
  MAXTOK = 8
  L = 4
  FAULTS = TRUE
INVARIANTS ScheduleIndependent NoSilentTruncation FaultReported LongLineReported
PROPERTY Termination
CHECK_DEADLOCK FALSE
