SPECIFICATION Spec
CONSTANTS
  NCALLS = 3
  NSTEPS = 3
  LEAKY = FALSE
INVARIANT AloneEquivalent
PROPERTY TablesConstant
VIEW View
CHECK_DEADLOCK FALSE
