SPECIFICATION Spec
CONSTANT FAM = "K"
INVARIANT DecoderCorrect
CHECK_DEADLOCK FALSE
