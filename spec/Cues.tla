------------------------------- MODULE Cues -------------------------------
(***************************************************************************)
(* Format-neutral abstract cue-list model of go-astisub                    *)
(* (anchors: subtitles.go: Subtitles, Item, Line, LineItem, Style, Region) *)
(*                                                                         *)
(* A cue is a record                                                       *)
(*   [id, ptr, s, e, t, st, rg, rs, ni, ok]                                   *)
(*   id  : identity of the source cue this one was derived from (the       *)
(*         harness stores it in Item.Index, which value-copies carry)      *)
(*   ptr : identity of the Go pointer (id of the pre-state pointer, 0 for  *)
(*         an Item allocated by the operation)                             *)
(*   s,e : start / end in the run's abstract time unit                     *)
(*   t   : text atom (what Item.String() identifies)                       *)
(*   st  : style id referenced by the cue ("" = none)                      *)
(*   rg  : region id referenced by the cue ("" = none)                     *)
(*   rs  : sequence of style ids referenced by the cue's text runs         *)
(*   ni  : number of non-nil inline attribute pointers in the cue          *)
(*   ok  : TRUE iff the deep content (lines, runs, inline attributes,      *)
(*         comments, pointers) is what the source cue had                  *)
(* A list is [items, styles, regions, snil, rnil] with styles/regions      *)
(* functions key |-> [id, parent] / [id, style]; snil/rnil say that the Go *)
(* map itself is nil.                                                      *)
(***************************************************************************)
EXTENDS Integers, Sequences, FiniteSets, SequencesExt, FiniteSetsExt

Max2(a, b) == IF a >= b THEN a ELSE b
Min2(a, b) == IF a <= b THEN a ELSE b

RangeOf(seq) == {seq[i] : i \in DOMAIN seq}

SameMap(a, b) == DOMAIN a = DOMAIN b /\ \A k \in DOMAIN a : a[k] = b[k]

\* multiset of the elements of a sequence, as a function element |-> count
BagOfSeq(seq) == [x \in RangeOf(seq) |-> Cardinality({i \in DOMAIN seq : seq[i] = x})]
SameBag(a, b) == SameMap(BagOfSeq(a), BagOfSeq(b))

MapSeq(seq, Op(_)) == [i \in DOMAIN seq |-> Op(seq[i])]

SortedByStart(items) == \A i \in 1..(Len(items) - 1) : items[i].s <= items[i + 1].s

\* insert c behind every element whose start is <= c.s  (stable)
RECURSIVE InsertByStart(_, _)
InsertByStart(c, seq) ==
  IF seq = <<>> THEN <<c>>
  ELSE IF Head(seq).s <= c.s THEN <<Head(seq)>> \o InsertByStart(c, Tail(seq))
  ELSE <<c>> \o seq

RECURSIVE StableSortByStart(_)
StableSortByStart(seq) ==
  IF seq = <<>> THEN <<>>
  ELSE InsertByStart(seq[Len(seq)], StableSortByStart(SubSeq(seq, 1, Len(seq) - 1)))

\* the cue without its pointer identity
Strip(c) == [id |-> c.id, s |-> c.s, e |-> c.e, t |-> c.t, st |-> c.st, rg |-> c.rg, rs |-> c.rs, ni |-> c.ni, ok |-> c.ok]

\* texts on screen at half-open instant [x, x+1) of the 2x-refined grid:
\* instant h (in half units) is inside [s,e) iff 2s <= h < 2e
OnScreen(items, h) == {items[i].t : i \in {j \in DOMAIN items : 2 * items[j].s <= h /\ h < 2 * items[j].e}}

MaxEnd(items) == IF items = <<>> THEN 0 ELSE Max({items[i].e : i \in DOMAIN items})

EmptyMap == [k \in {} |-> 0]
=============================================================================
