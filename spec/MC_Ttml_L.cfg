SPECIFICATION Spec
CONSTANT FAM = "L"
INVARIANT DecoderCorrect
CHECK_DEADLOCK FALSE
