SPECIFICATION Spec
CONSTANT FAM = "A"
INVARIANT DecoderCorrect
INVARIANT CtlRefines
CHECK_DEADLOCK FALSE
