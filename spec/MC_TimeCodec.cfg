INIT Init
NEXT Next
INVARIANT Laws
CHECK_DEADLOCK FALSE
