------------------------------ MODULE TimeCodec ------------------------------
(***************************************************************************)
(* C16: the timestamp codec of every format.                               *)
(* An instant is [ms, r]: whole milliseconds and remaining nanoseconds     *)
(* (0 <= r < 10^6), so that every quantity stays below 2^31.               *)
(* Render(fmt, fps, t) = the fields the writer must emit: the latest       *)
(* instant representable in the format that is not after t (ms for         *)
(* srt/vtt/ttml, cs for ssa, frame for stl), with canonical widths.        *)
(* Back(fmt, fps, t) = the instant the same format's reader must return.   *)
(* anchors: subtitles.go formatDuration/parseDuration, per-format wrappers,*)
(* stl.go formatDurationSTLBytes/parseDurationSTLBytes                     *)
(***************************************************************************)
EXTENDS Integers, Sequences

Hour(ms) == ms \div 3600000
Minute(ms) == (ms \div 60000) % 60
Second(ms) == (ms \div 1000) % 60
Milli(ms) == ms % 1000

\* frame number of the sub-second part (sub = ns within the second, < 10^9): floor(sub * fps / 10^9)
Frame(sub, fps) ==
  IF fps = 25 THEN sub \div 40000000
  ELSE \* 30: floor(3*sub / 10^8) without overflowing 32 bits
       LET q == sub \div 100000000 r == sub % 100000000 IN 3 * q + ((3 * r) \div 100000000)

\* first and last nanosecond (within the second) that belong to frame k:  k*10^9/fps rounded down / up
FrameStartFloor(k, fps) == IF fps = 25 THEN k * 40000000 ELSE k * 33333333 + (k \div 3)
FrameStartCeil(k, fps)  == IF fps = 25 THEN k * 40000000 ELSE FrameStartFloor(k, fps) + (IF k % 3 = 0 THEN 0 ELSE 1)

SubNs(t) == Milli(t[1]) * 1000000 + t[2]

Text == {"srt", "vtt", "ttml"}

\* expected rendered fields
Render(fmt, fps, t) ==
  LET ms == t[1] IN
  IF fmt \in Text THEN
    [h |-> Hour(ms), hd |-> IF Hour(ms) < 100 THEN 2 ELSE 3, m |-> Minute(ms), md |-> 2, s |-> Second(ms), sd |-> 2,
     f |-> Milli(ms), fd |-> 3, sep |-> IF fmt = "srt" THEN "," ELSE "."]
  ELSE IF fmt = "ssa" THEN
    [h |-> Hour(ms), hd |-> IF Hour(ms) < 100 THEN 2 ELSE 3, m |-> Minute(ms), md |-> 2, s |-> Second(ms), sd |-> 2,
     f |-> Milli(ms) \div 10, fd |-> 2, sep |-> "."]
  ELSE \* stl: four binary bytes
    [h |-> Hour(ms), hd |-> 1, m |-> Minute(ms), md |-> 1, s |-> Second(ms), sd |-> 1, f |-> Frame(SubNs(t), fps), fd |-> 1, sep |-> ""]

\* grammar of the format (independent of the instant)
Canonical(fmt, fps, f) ==
  /\ f.m \in 0..59 /\ f.s \in 0..59 /\ f.h >= 0
  /\ IF fmt = "stl" THEN f.f \in 0..(fps - 1) /\ f.h \in 0..23
     ELSE /\ f.md = 2 /\ f.sd = 2 /\ f.hd >= 2
          /\ IF fmt = "ssa" THEN f.fd = 2 /\ f.f \in 0..99 /\ f.sep = "."
             ELSE f.fd = 3 /\ f.f \in 0..999 /\ f.sep = (IF fmt = "srt" THEN "," ELSE ".")

\* value of rendered fields as [ms, r] (stl: first whole nanosecond of the frame)
ValueOf(fmt, fps, f) ==
  LET base == ((f.h * 60 + f.m) * 60 + f.s) * 1000 IN
  IF fmt = "stl" THEN LET ns == FrameStartCeil(f.f, fps) IN <<base + ns \div 1000000, ns % 1000000>>
  ELSE IF fmt = "ssa" THEN <<base + f.f * 10, 0>>
  ELSE <<base + f.f, 0>>

Leq(a, b) == a[1] < b[1] \/ (a[1] = b[1] /\ a[2] <= b[2])

\* what the reader may return for rendered fields f: exactly the value; for stl within one nanosecond of k/fps s
BackOK(fmt, fps, f, back) ==
  IF fmt = "stl" THEN
    LET base == ((f.h * 60 + f.m) * 60 + f.s) * 1000
        lo == FrameStartFloor(f.f, fps) hi == FrameStartCeil(f.f, fps)
    IN  back \in {<<base + lo \div 1000000, lo % 1000000>>, <<base + hi \div 1000000, hi % 1000000>>}
  ELSE back = ValueOf(fmt, fps, f)

\* laws of the specification itself (checked by MC_TimeCodec)
TruncLaw(fmt, fps, t) ==
  LET f == Render(fmt, fps, t) v == ValueOf(fmt, fps, f) IN
  /\ Canonical(fmt, fps, f)
  /\ Leq(v, t)                                   \* not after t
  /\ Render(fmt, fps, v) = f                     \* representable: rendering the value gives the same fields
=============================================================================
