---------------------------- MODULE TraceTotality ----------------------------
(* Trace validation for C08: every recorded call of a reader / writer / opener must have ended in ok or err.
   An event carries the outcomes of the calls made on one input: res[i] is the outcome at call site sites[i]. *)
EXTENDS Totality, Json, IOUtils
Trace == ndJsonDeserialize(IOEnv.TRACE)
VARIABLE l
Init == l = 1
Step == /\ l <= Len(Trace)
        /\ LET ev == Trace[l]
               bad == {i \in DOMAIN ev.res : ~Total(ev.res[i])}
           IN  IF bad = {} THEN TRUE
               ELSE PrintT(<<"V", l, ev.n, "C08", ev.sites[CHOOSE i \in bad : TRUE] \o "-" \o ev.res[CHOOSE i \in bad : TRUE]>>)
        /\ l' = l + 1
Spec == Init /\ [][Step]_l
Accepted == TLCGet("stats").diameter - 1 = Len(Trace)
=============================================================================
