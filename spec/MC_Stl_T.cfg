SPECIFICATION Spec
CONSTANT FAM = "T"
INVARIANT DecoderCorrect
CHECK_DEADLOCK FALSE
