------------------------------- MODULE BigInt -------------------------------
(***************************************************************************)
(* Signed integers of arbitrary size for TLC (whose integers are 32 bit):  *)
(* [neg |-> BOOLEAN, mag |-> little-endian sequence of limbs in 0..BASE-1] *)
(* normalised: no most-significant zero limb, zero is [neg FALSE, mag <<>>] *)
(* BASE^2 * (max number of limbs) must stay below 2^31: BASE = 10000 and   *)
(* <= 20 limbs (80 decimal digits) is safe.  Used for nanosecond-exact     *)
(* statements (C15, C16, TTML/STL time arithmetic).                        *)
(***************************************************************************)
EXTENDS Integers, Sequences

CONSTANT BASE

Zero == [neg |-> FALSE, mag |-> <<>>]

RECURSIVE StripZeros(_)
StripZeros(m) == IF m # <<>> /\ m[Len(m)] = 0 THEN StripZeros(SubSeq(m, 1, Len(m) - 1)) ELSE m

Norm(x) == LET m == StripZeros(x.mag) IN [neg |-> (x.neg /\ m # <<>>), mag |-> m]

RECURSIVE MagOfNat(_)
MagOfNat(n) == IF n = 0 THEN <<>> ELSE <<n % BASE>> \o MagOfNat(n \div BASE)

FromInt(i) == IF i < 0 THEN [neg |-> TRUE, mag |-> MagOfNat(0 - i)] ELSE [neg |-> FALSE, mag |-> MagOfNat(i)]

Limb(m, i) == IF i <= Len(m) THEN m[i] ELSE 0

\* -1, 0, 1
RECURSIVE CmpMagFrom(_, _, _)
CmpMagFrom(a, b, i) ==
  IF i = 0 THEN 0
  ELSE IF Limb(a, i) < Limb(b, i) THEN -1
  ELSE IF Limb(a, i) > Limb(b, i) THEN 1
  ELSE CmpMagFrom(a, b, i - 1)
CmpMag(a, b) ==
  IF Len(a) < Len(b) THEN -1 ELSE IF Len(a) > Len(b) THEN 1 ELSE CmpMagFrom(a, b, Len(a))

RECURSIVE AddMagFrom(_, _, _, _)
AddMagFrom(a, b, i, carry) ==
  IF i > Len(a) /\ i > Len(b) THEN (IF carry = 0 THEN <<>> ELSE <<carry>>)
  ELSE LET s == Limb(a, i) + Limb(b, i) + carry
       IN  <<s % BASE>> \o AddMagFrom(a, b, i + 1, s \div BASE)
AddMag(a, b) == AddMagFrom(a, b, 1, 0)

\* requires a >= b
RECURSIVE SubMagFrom(_, _, _, _)
SubMagFrom(a, b, i, borrow) ==
  IF i > Len(a) THEN <<>>
  ELSE LET d == Limb(a, i) - Limb(b, i) - borrow
       IN  IF d < 0 THEN <<d + BASE>> \o SubMagFrom(a, b, i + 1, 1)
           ELSE <<d>> \o SubMagFrom(a, b, i + 1, 0)
SubMag(a, b) == StripZeros(SubMagFrom(a, b, 1, 0))

Neg(x) == Norm([neg |-> ~x.neg, mag |-> x.mag])
Abs(x) == [neg |-> FALSE, mag |-> x.mag]

Add(x, y) ==
  IF x.neg = y.neg THEN Norm([neg |-> x.neg, mag |-> AddMag(x.mag, y.mag)])
  ELSE IF CmpMag(x.mag, y.mag) >= 0 THEN Norm([neg |-> x.neg, mag |-> SubMag(x.mag, y.mag)])
  ELSE Norm([neg |-> y.neg, mag |-> SubMag(y.mag, x.mag)])

Sub(x, y) == Add(x, Neg(y))

\* a * (single limb d), shifted by k limbs
RECURSIVE MulLimbFrom(_, _, _, _)
MulLimbFrom(a, d, i, carry) ==
  IF i > Len(a) THEN (IF carry = 0 THEN <<>> ELSE <<carry>>)
  ELSE LET p == a[i] * d + carry
       IN  <<p % BASE>> \o MulLimbFrom(a, d, i + 1, p \div BASE)
Shift(m, k) == IF m = <<>> THEN <<>> ELSE [i \in 1..k |-> 0] \o m

RECURSIVE MulMagFrom(_, _, _)
MulMagFrom(a, b, j) ==
  IF j > Len(b) THEN <<>>
  ELSE AddMag(Shift(MulLimbFrom(a, b[j], 1, 0), j - 1), MulMagFrom(a, b, j + 1))
MulMag(a, b) == StripZeros(MulMagFrom(a, b, 1))

Mul(x, y) == Norm([neg |-> (x.neg # y.neg), mag |-> MulMag(x.mag, y.mag)])

Cmp(x, y) ==
  IF x.neg /\ ~y.neg THEN -1
  ELSE IF ~x.neg /\ y.neg THEN 1
  ELSE IF x.neg THEN CmpMag(y.mag, x.mag)
  ELSE CmpMag(x.mag, y.mag)

Leq(x, y) == Cmp(x, y) <= 0
Lt(x, y)  == Cmp(x, y) < 0
Eq(x, y)  == Cmp(x, y) = 0

\* well-formedness of a value read from a trace
RECURSIVE AllLimbs(_)
AllLimbs(m) == m = <<>> \/ (Head(m) \in 0..(BASE - 1) /\ AllLimbs(Tail(m)))
IsBig(x) == x.neg \in BOOLEAN /\ AllLimbs(x.mag) /\ (x.mag = <<>> \/ x.mag[Len(x.mag)] # 0) /\ (x.mag = <<>> => ~x.neg)

\* value as a TLC integer (only for small values; used by the self-check of this module)
RECURSIVE MagToNat(_)
MagToNat(m) == IF m = <<>> THEN 0 ELSE Head(m) + BASE * MagToNat(Tail(m))
ToInt(x) == IF x.neg THEN 0 - MagToNat(x.mag) ELSE MagToNat(x.mag)
=============================================================================
