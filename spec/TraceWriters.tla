---------------------------- MODULE TraceWriters ----------------------------
(* Trace validation for C19. The replayed system keeps, per (list, format), the bytes (digest) of the first write;
   every later write of the same list in the same format - in the same process, in another process, after other
   writers, with the map filled in another order - must produce the same bytes, and every write must leave the
   list as it found it (deep snapshot before = after = the snapshot taken when the list was built).
   kind "clock": the list supplies the STL dates, so the injectable clock must not influence the bytes. *)
EXTENDS Integers, Sequences, Json, IOUtils, TLC
Trace == ndJsonDeserialize(IOEnv.TRACE)
VARIABLES l, seen
vars == <<l, seen>>
Key(ev) == <<ev.list, ev.fmt>>
Reason(ev, s) ==
  IF ev.res # "ok" THEN "writer-" \o ev.res
  ELSE IF ev.pre # ev.orig THEN "list-was-modified-by-an-earlier-write"
  ELSE IF ev.post # ev.pre THEN "writer-modifies-the-list"
  ELSE IF Key(ev) \in DOMAIN s /\ s[Key(ev)] # ev.digest THEN "same-list-different-bytes(" \o ev.kind \o ")"
  ELSE "ok"
Init == l = 1 /\ seen = <<>>
Step == /\ l <= Len(Trace)
        /\ LET ev == Trace[l] r == Reason(ev, seen) IN
           /\ IF r = "ok" THEN TRUE ELSE PrintT(<<"V", l, ev.n, "C19", r>>)
           /\ seen' = IF ev.first THEN (Key(ev) :> ev.digest) ELSE IF Key(ev) \in DOMAIN seen THEN seen ELSE seen @@ (Key(ev) :> ev.digest)
        /\ l' = l + 1
Spec == Init /\ [][Step]_vars
Accepted == TLCGet("stats").diameter - 1 = Len(Trace)
=============================================================================
