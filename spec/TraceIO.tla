------------------------------- MODULE TraceIO -------------------------------
(***************************************************************************)
(* End-to-end trace validation for C17 (delivery schedules) and C18        *)
(* (faults), events recorded by `drive deliver` / `drive faults`.          *)
(*                                                                         *)
(* C17: the replayed system is a register per document: the first observed *)
(* result of parsing document d (a canonical digest of cues, metadata,     *)
(* styles, regions, or the fact of failing) is stored; every later parse   *)
(* of d, under whatever schedule, must return the stored result.           *)
(* C18: a parse whose stream fails inside the document must fail; a write  *)
(* whose destination fails must fail; an unfaulted write hands over the    *)
(* complete document; an over-long line yields an error or the complete    *)
(* list; file helpers report missing / uncreatable files.                  *)
(***************************************************************************)
EXTENDS Integers, Sequences, Json, IOUtils, TLC
Trace == ndJsonDeserialize(IOEnv.TRACE)
VARIABLES l, seen
vars == <<l, seen>>
Key(ev) == <<ev.fmt, ev.doc>>

Reason(ev, s) ==
  IF ev.res \in {"panic", "timeout"} THEN ev.res
  ELSE IF ev.kind = "deliver" THEN
         IF Key(ev) \in DOMAIN s /\ s[Key(ev)] # ev.digest THEN "result-depends-on-delivery-schedule" ELSE "ok"
  ELSE IF ev.kind = "readfault" THEN
         IF ev.inside /\ ev.res # "err" THEN "read-fault-swallowed" ELSE "ok"
  ELSE IF ev.kind = "writefault" THEN
         IF ev.res # "err" THEN "write-fault-swallowed" ELSE "ok"
  ELSE IF ev.kind = "writeclean" THEN
         IF ev.res # "ok" \/ ~ev.inside THEN "incomplete-document-handed-over" ELSE "ok"
  ELSE IF ev.kind = "longline" THEN
         IF ev.res = "err" \/ ev.items = ev.expect THEN "ok" ELSE "over-long-line-silently-truncates"
  ELSE IF ev.kind = "file" THEN
         IF ev.res = ev.sched THEN "ok" ELSE "file-helper-outcome"
  ELSE "unknown-event-kind"

PropOf(ev) == IF ev.kind = "deliver" THEN "C17" ELSE "C18"

Init == l = 1 /\ seen = <<>>
Step ==
  /\ l <= Len(Trace)
  /\ LET ev == Trace[l] r == Reason(ev, seen) IN
     /\ IF r = "ok" THEN TRUE ELSE PrintT(<<"V", l, ev.n, PropOf(ev), r>>)
     /\ seen' = IF ev.kind = "deliver" /\ Key(ev) \notin DOMAIN seen THEN seen @@ (Key(ev) :> ev.digest) ELSE seen
  /\ l' = l + 1
Spec == Init /\ [][Step]_vars
Accepted == TLCGet("stats").diameter - 1 = Len(Trace)
==============================================================================
