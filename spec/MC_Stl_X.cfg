SPECIFICATION Spec
CONSTANT FAM = "X"
INVARIANT DecoderCorrect
CHECK_DEADLOCK FALSE
