------------------------------- MODULE GenOps -------------------------------
(***************************************************************************)
(* Case generation for C09-C14: the input space of each operation is a set *)
(* defined from the same type definitions as OpsMC; TLC enumerates it and  *)
(* writes one JSON record per case (inputs only - no expected values).     *)
(* Parameters come from the environment (set by ./check):                  *)
(*   GEN_OP, GEN_OUT, GEN_G, GEN_N, GEN_NT, GEN_PART, GEN_PARTS            *)
(***************************************************************************)
EXTENDS OpsMC, Json, IOUtils

Env(n, dflt) == IF n \in DOMAIN IOEnv THEN atoi(IOEnv[n]) ELSE dflt
gG  == Env("GEN_G", 3)
gN  == Env("GEN_N", 2)
gNT == Env("GEN_NT", 2)
gP  == Env("GEN_PART", 0)
gPS == Env("GEN_PARTS", 1)
gOp == IOEnv.GEN_OP
gOut == IOEnv.GEN_OUT

Pairs(g) == {p \in (0..g) \X (0..g) : p[1] <= p[2]}

\* all lists with n cues; partitioned on the first cue's (s,e) index
ListsN(n, g, nt) ==
  {[i \in 1..n |-> TimeCue(i, se[i][1], se[i][2], tx[i])] : se \in [1..n -> Pairs(g)], tx \in [1..n -> 1..nt]}

InPart(l) == IF l = <<>> THEN gP = 0 ELSE (l[1].s * 31 + l[1].e * 7 + l[1].t + Len(l)) % gPS = gP

Lists(g, nmax, nt) == UNION {{l \in ListsN(n, g, nt) : InPart(l)} : n \in 0..nmax}

SortedLists(g, nmax, nt) == {l \in Lists(g, nmax, nt) : SortedByStart(l)}

ForceLists(g, nmax, nt) == {l \in Lists(g, nmax, nt) : ForceDurationPre(l, 1)}

Case(op, a, b, pre) == [op |-> op, a |-> a, b |-> b, pre |-> MkSubs(pre), pre2 |-> MkSubs(<<>>)]

\* cues before zero are cues too (the STL reader returns them for a programme start later than the first timecodes):
\* every list also shifted to the left by half the grid
MoveLeft(l, k) == [i \in DOMAIN l |-> [l[i] EXCEPT !.s = @ - k, !.e = @ - k]]
AddCases(z)      == {Case("add", d, 0, l) : d \in (0 - (2 * gG + 1))..gG, l \in Lists(gG, gN, gNT)}
                    \cup {Case("add", d, 0, MoveLeft(l, (gG + 1) \div 2)) : d \in (0 - gG)..gG, l \in Lists(gG, gN, gNT) \ {<<>>}}
AddInvCases(z)   == {Case("add+addinv", d, 0, l) : d \in ((0 - (2 * gG + 1))..gG) \ {0}, l \in Lists(gG, gN, gNT)}
FragmentCases(z) == {Case("fragment", f, 0, l) : f \in 1..((gG + 1) \div 2), l \in SortedLists(gG, gN, gNT)}
                    \* cues before zero, on and off the multiples of the period
                    \cup {Case("fragment", f, 0, MoveLeft(l, k)) : f \in 2..((gG + 1) \div 2), k \in {gG - 1, gG},
                           l \in SortedLists(gG, gN, gNT) \ {<<>>}}
UnfragCases(z) == {Case("unfragment", 0, 0, l) : l \in Lists(gG, gN, gNT)}
FragUnfragCases(z) == {Case("fragment+unfragment", f, 0, l) : f \in 1..((gG + 1) \div 2),
                      l \in {x \in SortedLists(gG, gN, gNT) : NoSameTextTouch(x)}}
\* the cues' own numbers (Item.Index) need not follow the list order
RevIds(l) == [i \in DOMAIN l |-> [l[i] EXCEPT !.id = Len(l) + 1 - i, !.ptr = Len(l) + 1 - i]]
OrderCases(z)    == {Case("order", 0, 0, l) : l \in Lists(gG, gN, gNT)} \cup {Case("order", 0, 0, RevIds(l)) : l \in Lists(gG, gN, gNT)}
\* a genuine cue may look like the filler (one unit long, the placeholder text): it is a cue like any other
LooksLikeFiller(l) == [l EXCEPT ![Len(l)].t = FillerText]
ForceCases(z)    == {Case("force", d, fl, l) : d \in 1..(gG + 2), fl \in {0, 1}, l \in ForceLists(gG, gN, gNT)}
                    \cup {Case("force", d, fl, LooksLikeFiller(l)) : d \in 1..(gG + 2), fl \in {0, 1},
                           l \in {x \in ForceLists(gG, gN, gNT) : x # <<>> /\ x[Len(x)].e = x[Len(x)].s + 1}}

\* Merge: pairs of lists + maps with keys subset of {a,b} (A) / {a,b} (B); nil receivers
IdMaps(tag) == UNION {{[k \in P |-> [id |-> k, parent |-> "", tag |-> tag]]} : P \in SUBSET {"a", "b"}}
\* the argument may keep a definition under a map key that is not its identifier: it is united by identifier
ForeignKeyMaps(tag) == {("x" :> [id |-> "a", parent |-> "", tag |-> tag]),
                        ("x" :> [id |-> "b", parent |-> "", tag |-> tag]) @@ ("a" :> [id |-> "a", parent |-> "", tag |-> tag]),
                        ("x" :> [id |-> "c", parent |-> "", tag |-> tag]) @@ ("y" :> [id |-> "a", parent |-> "", tag |-> tag])}
MergeCases(z) ==
  {[op |-> "merge", a |-> nilA, b |-> 0,
    pre  |-> [items |-> A, styles |-> sa, regions |-> EmptyMap, snil |-> (nilA = 1), rnil |-> (nilA = 1)],
    pre2 |-> [items |-> MapSeq(B, LAMBDA c : [c EXCEPT !.id = c.id + 10, !.ptr = c.ptr + 10]),
              styles |-> sb, regions |-> EmptyMap, snil |-> FALSE, rnil |-> FALSE]] :
     A \in Lists(gG, gN, 1), B \in UNION {ListsN(n, gG, 1) : n \in 0..gN},
     sa \in IdMaps("A"), sb \in IdMaps("B") \cup ForeignKeyMaps("B"), nilA \in {0, 1}}
  \* a region of the argument refers to a style whose identifier both lists define; cue numbers against the list order
  \cup {[op |-> "merge", a |-> 0, b |-> 0,
         pre  |-> [items |-> A, styles |-> ("a" :> [id |-> "a", parent |-> "", tag |-> "A"]), regions |-> ra, snil |-> FALSE, rnil |-> FALSE],
         pre2 |-> [items |-> MapSeq(RevIds(B), LAMBDA c : [c EXCEPT !.id = c.id + 10, !.ptr = c.ptr + 10]),
                   styles |-> ("a" :> [id |-> "a", parent |-> "", tag |-> "B"]) @@ ("b" :> [id |-> "b", parent |-> "a", tag |-> "B"]),
                   regions |-> ("rb" :> [id |-> "rb", parent |-> "a", tag |-> "B"]) @@ rb, snil |-> FALSE, rnil |-> FALSE]] :
        A \in {RevIds(x) : x \in Lists(gG, gN, 1)}, B \in UNION {ListsN(n, gG, 1) : n \in 1..gN},
        ra \in {EmptyMap, ("ra" :> [id |-> "ra", parent |-> "a", tag |-> "A"])},
        rb \in {EmptyMap, ("ra" :> [id |-> "ra", parent |-> "", tag |-> "B"])}}

\* Optimize / RemoveStyling: reference graphs (partitioned on the style map)
StyleMapSeq == SetToSeq(StyleMaps)
RefCasesFor(op, sm, rm) ==
  UNION {{[op |-> op, a |-> 0, b |-> 0, pre2 |-> MkSubs(<<>>),
           pre |-> [items |-> [i \in 1..n |-> RefCue(i, cs[i][1], cs[i][2], cs[i][3])],
                    styles |-> sm, regions |-> rm, snil |-> FALSE, rnil |-> FALSE]] :
            cs \in [1..n -> (DOMAIN sm \cup {""}) \X (DOMAIN rm \cup {""}) \X (DOMAIN sm \cup {""})]} : n \in 1..gN}
\* lists without any definition, the maps empty or nil: inline attributes are all the styling there is
BareCases(op) ==
  {[op |-> op, a |-> 0, b |-> 0, pre2 |-> MkSubs(<<>>),
    pre |-> [items |-> [i \in 1..n |-> RefCue(i, "", "", "")], styles |-> EmptyMap, regions |-> EmptyMap, snil |-> sn, rnil |-> rn]] :
     n \in 1..3, sn \in BOOLEAN, rn \in BOOLEAN}
RefCases(op) ==
  UNION {UNION {RefCasesFor(op, StyleMapSeq[i], rm) : rm \in RegionMaps(StyleMapSeq[i])} :
           i \in {j \in DOMAIN StyleMapSeq : j % gPS = gP}} \cup (IF gP = 0 THEN BareCases(op) ELSE {})

Cases(z) ==
  CASE gOp = "add" -> AddCases(0)
    [] gOp = "addinv" -> AddInvCases(0)
    [] gOp = "fragment" -> FragmentCases(0)
    [] gOp = "unfragment" -> UnfragCases(0)
    [] gOp = "fragunfrag" -> FragUnfragCases(0)
    [] gOp = "order" -> OrderCases(0)
    [] gOp = "force" -> ForceCases(0)
    [] gOp = "merge" -> MergeCases(0)
    [] gOp = "optimize" -> RefCases("optimize")
    [] gOp = "removestyling" -> RefCases("removestyling")

ASSUME LET cs == Cases(0) IN
       /\ ndJsonSerialize(gOut, SetToSeq(cs))
       /\ PrintT(<<"GENERATED", gOp, Cardinality(cs)>>)
==============================================================================
