SPECIFICATION Spec
CONSTANT FAM = "M"
INVARIANT DecoderCorrect
INVARIANT CtlRefines
CHECK_DEADLOCK FALSE
