SPECIFICATION Spec
CONSTANT FAM = "M"
INVARIANT DecoderCorrect
CHECK_DEADLOCK FALSE
