------------------------------- MODULE TtmlMC -------------------------------
(* Model checking of the TTML specification itself and source of the generated cases. Families:
   "T": time expressions - one cue, every equivalent syntax of begin and of end x frame rate x tick rate
   "B": line structure - <br/> between / inside spans, bare text vs spans, styles on runs
   "S": style forests (<= 3 styles, arbitrary parent links forming a forest incl. shared parents), regions with
        style, references from cues and runs, inline attributes, language / title / copyright, indentation,
        namespace prefixes *)
EXTENDS TtmlCodec, IOUtils
CONSTANT FAM
VARIABLES g, d, phase

\* GEN_WIDE=1 (thorough tier): the families range over the whole space of rendering choices / wider truth sets
Wide == "GEN_WIDE" \in DOMAIN IOEnv /\ IOEnv.GEN_WIDE = "1"
vars == <<g, d, phase>>

NoA == <<>>
A1 == [c \in {"color"} |-> 1]
A2 == [c \in {"color", "textAlign", "zIndex"} |-> IF c = "zIndex" THEN 2 ELSE 1]
R(a, st, at) == [a |-> a, style |-> st, attrs |-> at]
Cue(s, e, st, rg, at, lines) == [s |-> s, e |-> e, style |-> st, region |-> rg, attrs |-> at, lines |-> lines]
Base == [lang |-> 0, title |-> 0, copyright |-> 0, fr |-> 0, tr |-> 0, styles |-> <<>>, regions |-> <<>>, cues |-> <<>>]
Simple == <<<<R(1, 0, NoA)>>>>

TruthsT == {[Base EXCEPT !.fr = fr, !.tr = tr, !.cues = <<Cue(tp[1], tp[2], 0, 0, NoA, Simple)>>] :
              fr \in {0, 24, 25, 30}, tr \in {0, 1000, 90000, 10000000},
              tp \in {<<0, 1500>>, <<5000, 67000>>, <<3600000, 3723400>>, <<500, 17040>>, <<12120, 180000>>, <<90000, 5400000>>}}
           \* a high frame rate: frame numbers of three digits (00:00:01:105 at 120 frames per second)
           \cup {[Base EXCEPT !.fr = 120, !.cues = <<Cue(tp[1], tp[2], 0, 0, NoA, Simple)>>] : tp \in {<<250, 1875>>, <<1000, 3600925>>}}

LinesB == {<<<<R(1, 0, NoA)>>, <<R(2, 0, NoA)>>>>,
           <<<<R(1, 0, A1)>>, <<R(2, 0, A1)>>>>,
           <<<<R(1, 0, A1)>>, <<R(2, 0, A1)>>, <<R(3, 0, A1)>>>>,
           <<<<R(1, 0, A1)>>, <<R(2, 0, A2)>>>>,
           <<<<R(1, 0, NoA), R(2, 0, A1)>>, <<R(3, 0, A1)>>>>,
           <<<<R(1, 1, NoA)>>, <<R(2, 1, NoA)>>, <<R(3, 0, NoA), R(1, 1, A1)>>>>,
           <<<<R(1, 0, A1), R(2, 0, NoA), R(3, 0, A2)>>>>,
           \* empty lines: a <br/> before the first text, two in a row
           <<<<>>, <<R(1, 0, NoA)>>>>,
           <<<<R(1, 0, A1)>>, <<>>, <<R(2, 0, NoA)>>>>}
S1 == <<[id |-> 1, parent |-> 0, attrs |-> A1]>>
TruthsB == {[Base EXCEPT !.styles = S1, !.cues = <<Cue(0, 1500, 0, 0, NoA, ls)>>] : ls \in LinesB}
           \cup {[Base EXCEPT !.styles = S1, !.cues = <<Cue(0, 1500, 0, 0, NoA, l1), Cue(2000, 3000, 1, 0, A1, l2)>>] : l1 \in LinesB, l2 \in LinesB}

\* style forests over ids 1..3: every parent map without cycles
Acyclic(par) == \A i \in DOMAIN par : par[i] # i /\ (par[i] # 0 => par[par[i]] # i /\ (par[par[i]] # 0 => par[par[par[i]]] # i))
Forests(n) == {par \in [1..n -> 0..n] : Acyclic(par)}
TruthsSN(n) == {[lang |-> lg, title |-> tc[1], copyright |-> tc[2], fr |-> 0, tr |-> 0,
             styles |-> [i \in 1..n |-> [id |-> i, parent |-> par[i], attrs |-> IF i = 2 THEN A2 ELSE A1]],
             regions |-> rg,
             cues |-> <<Cue(1000, 2000, cs, IF rg = <<>> THEN 0 ELSE 1, ca, <<<<R(1, rs, NoA), R(2, 0, A1)>>>>)>>] :
              par \in Forests(n), lg \in {0, 2}, tc \in {<<0, 0>>, <<1, 1>>, <<1, 0>>, <<0, 1>>},   \* title and copyright vary independently
              rg \in {<<>>, <<[id |-> 1, style |-> 1, attrs |-> A1]>>, <<[id |-> 1, style |-> 0, attrs |-> NoA], [id |-> 2, style |-> 1, attrs |-> A2]>>},
              cs \in {0, 1}, rs \in {0, 1}, ca \in {NoA, A2}}
TruthsS == UNION {TruthsSN(n) : n \in 1..3}

\* L: every language the library maps (1..5) and one it does not (6), with and without title
TruthsL == {[Base EXCEPT !.lang = lg, !.title = ti, !.cues = <<Cue(0, 1500, 0, 0, NoA, Simple)>>] : lg \in 0..6, ti \in {0, 1}}

\* A: every tts:* attribute the library carries, alone on a style / a region / a paragraph / a run, and next to its
\* neighbour in the alphabet with another value (a miscopied field shows as a missing or an extra attribute)
AllAttrs == <<"backgroundColor", "color", "direction", "display", "displayAlign", "extent", "fontFamily", "fontSize", "fontStyle", "fontWeight",
              "lineHeight", "opacity", "origin", "overflow", "padding", "showBackground", "textAlign", "textDecoration", "textOutline",
              "unicodeBidi", "visibility", "wrapOption", "writingMode", "zIndex">>
One(a, v) == [c \in {a} |-> v]
Two(a, b) == [c \in {a, b} |-> IF c = a THEN 1 ELSE 2]
AttrSets == {One(AllAttrs[i], 1) : i \in DOMAIN AllAttrs} \cup {Two(AllAttrs[i], AllAttrs[(i % Len(AllAttrs)) + 1]) : i \in DOMAIN AllAttrs}
TruthsA == {[Base EXCEPT !.styles = <<[id |-> 1, parent |-> 0, attrs |-> at]>>,
                         !.regions = <<[id |-> 1, style |-> 0, attrs |-> IF where = "region" THEN at ELSE NoA]>>,
                         !.cues = <<Cue(1000, 2000, 1, 1, IF where = "cue" THEN at ELSE NoA, <<<<R(1, 0, IF where = "run" THEN at ELSE NoA), R(2, 1, NoA)>>>>)>>] :
              at \in AttrSets, where \in {"style", "region", "cue", "run"}}

Truths(fam) == CASE fam = "A" -> TruthsA [] fam = "T" -> TruthsT [] fam = "B" -> TruthsB [] fam = "S" -> TruthsS [] fam = "L" -> TruthsL
Vars(fam) == IF Wide THEN [indents |-> BOOLEAN, prefixes |-> BOOLEAN] ELSE
             CASE fam = "T" -> [indents |-> {FALSE}, prefixes |-> {TRUE}]
               [] fam = "B" -> [indents |-> BOOLEAN, prefixes |-> {TRUE}]
               [] fam = "S" -> [indents |-> BOOLEAN, prefixes |-> BOOLEAN]
               [] fam = "L" -> [indents |-> BOOLEAN, prefixes |-> BOOLEAN]
               [] fam = "A" -> [indents |-> {FALSE}, prefixes |-> BOOLEAN]

Init == g \in Truths(FAM) /\ d = <<>> /\ phase = "init"
Next == phase = "init" /\ phase' = "done" /\ d' \in Renderings(g, Vars(FAM), FAM = "T") /\ UNCHANGED g
Spec == Init /\ [][Next]_vars
DecoderCorrect == phase = "done" => RefRead(d) = Truth(g)
=============================================================================
