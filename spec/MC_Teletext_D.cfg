SPECIFICATION Spec
CONSTANT FAM = "D"
INVARIANT DecoderCorrect
INVARIANT CtlRefines
CHECK_DEADLOCK FALSE
