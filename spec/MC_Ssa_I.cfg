SPECIFICATION Spec
CONSTANT FAM = "I"
INVARIANT DecoderCorrect
CHECK_DEADLOCK FALSE
