SPECIFICATION Spec
CONSTANT FAM = "C"
INVARIANT DecoderCorrect
INVARIANT CtlRefines
CHECK_DEADLOCK FALSE
