SPECIFICATION Spec
CONSTANT FAM = "C"
INVARIANT DecoderCorrect
CHECK_DEADLOCK FALSE
