----------------------------- MODULE GenWriters -----------------------------
(* Case generation for C19: style / region maps with heterogeneous attribute subsets (what makes a map-order
   dependence visible). A case = [styles: sequence of [attrs (subset of 1..4 as a sequence), css], regions: sequence
   of attribute subsets, meta: BOOLEAN (STL dates supplied by the metadata or left to the clock), keys: how the maps
   are keyed - 0 = every entry under its own ID, 1 = under foreign keys, 2 = foreign keys and the first two styles
   (regions) carry one and the same ID (Writers.tla: an id may occur under several keys), 3 = keys and IDs of which
   two differ in letter case only]. *)
EXTENDS Integers, Sequences, FiniteSets, SequencesExt, Json, IOUtils, TLC
Env(n, dflt) == IF n \in DOMAIN IOEnv THEN atoi(IOEnv[n]) ELSE dflt
gN == Env("GEN_N", 2)
gP == Env("GEN_PART", 0)
gPS == Env("GEN_PARTS", 1)
gA == Env("GEN_A", 2)
AttrSeqs == {SetToSortSeq(S, <) : S \in SUBSET (1..gA)}
StyleSeqs(n) == [1..n -> [attrs : AttrSeqs, css : {<<>>, <<1>>, <<1, 2>>}]]
KeyModes(n) == IF n = 0 THEN {0} ELSE IF n = 1 THEN {0, 1} ELSE {0, 1, 2, 3}
Cases(z) == UNION {{[styles |-> st, regions |-> rg, meta |-> m, keys |-> k] :
                      st \in {x \in StyleSeqs(n) : (Len(x) + (IF x = <<>> THEN 0 ELSE Len(x[1].attrs))) % gPS = gP},
                      rg \in {<<>>, <<<<1>>, <<1, 2>>>>, <<<<>>, <<2>>, <<1, 2>>>>}, m \in BOOLEAN, k \in KeyModes(n)} : n \in 0..gN}
ASSUME LET cs == Cases(0) IN ndJsonSerialize(IOEnv.GEN_OUT, SetToSeq(cs)) /\ PrintT(<<"GENERATED", "writers", Cardinality(cs)>>)
VARIABLE x
Init == x = 0
Next == UNCHANGED x
=============================================================================
