----------------------------- MODULE GenTeletext -----------------------------
(* Case generation for C06: every stream of TeletextMC's families with its reader options. *)
EXTENDS TeletextMC, Json, IOUtils
Env(n, dflt) == IF n \in DOMAIN IOEnv THEN atoi(IOEnv[n]) ELSE dflt
gP == Env("GEN_PART", 0)
gPS == Env("GEN_PARTS", 1)
ASSUME LET q == SetToSeq(Cases(IOEnv.GEN_FAM))
           idx == SetToSortSeq({i \in DOMAIN q : i % gPS = gP}, <)
           out == [j \in DOMAIN idx |-> q[idx[j]]]
       IN  ndJsonSerialize(IOEnv.GEN_OUT, out) /\ PrintT(<<"GENERATED", "teletext", Len(out)>>)
=============================================================================
