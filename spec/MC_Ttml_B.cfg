SPECIFICATION Spec
CONSTANT FAM = "B"
INVARIANT DecoderCorrect
CHECK_DEADLOCK FALSE
