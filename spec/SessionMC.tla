----------------------------- MODULE SessionMC -----------------------------
(* Bounded model of Session for TLC: two source files (an SRT file and an STL file at 30 frames/s holding the
   same small list), output files of every time resolution plus an unsupported extension, the operations with
   small parameters, histories of at most MaxSteps steps through the file API and the command-line tool. *)
EXTENDS Session
CONSTANTS MaxSteps, Times, Texts, MaxCues
VARIABLES written, last, steps
vars == <<svars, written, last, steps>>

Ext == [f \in {"in.srt", "in.stl", "o.srt", "o.ssa", "o.stl", "o.txt", "p.ssa", "p.stl"} |->
          CASE f \in {"in.srt", "o.srt"} -> "srt" [] f \in {"in.stl", "o.stl", "p.stl"} -> "stl"
            [] f \in {"o.ssa", "p.ssa"} -> "ssa" [] OTHER -> "txt"]
Sources == {"in.srt", "in.stl"}
Outs == {"o.srt", "o.ssa", "o.stl", "o.txt", "p.ssa", "p.stl"}
Files == Sources \cup Outs

CueSet == {[s |-> a, e |-> b, t |-> x] : a \in Times, b \in Times, x \in Texts} 
Lists == UNION {[1..n -> {c \in CueSet : c.s < c.e}] : n \in 0..MaxCues}

OpsA == {<<"sync", <<10>>>>, <<"sync", <<-20>>>>, <<"fragment", <<30>>>>, <<"unfragment", <<>>>>, <<"order", <<>>>>,
         <<"linear", <<1, 2, 2, 4>>>>, <<"optimize", <<>>>>}
CliA == {<<"convert", <<>>>>, <<"sync", <<-20>>>>, <<"sync", <<0>>>>, <<"merge", <<>>>>}
CliOuts == {"o.srt", "o.stl", "o.txt", "p.ssa"}

None == [kind |-> "none", f |-> "", g |-> ""]
\* the STL source has a programme start of 40 units: its raw instants lie 40 later
Shift(q, d) == [i \in DOMAIN q |-> [q[i] EXCEPT !.s = @ + d, !.e = @ + d]]
Init == /\ \E q \in Lists : disk = [f \in Sources |-> [fmt |-> Ext[f], cues |-> q, fps |-> IF f = "in.stl" THEN 30 ELSE 0,
                                                     raw |-> IF f = "in.stl" THEN Shift(q, 40) ELSE q]]
        /\ mem = <<>> /\ fps = 0 /\ res = "ok" /\ written = {} /\ last = None /\ steps = 0

DoOpen == \E f \in Files, opt \in BOOLEAN : Open(f, Ext[f], opt) /\ last' = [kind |-> "open", f |-> f, g |-> ""] /\ UNCHANGED written
DoApply == \E o \in OpsA : /\ last.kind \in {"open", "apply"} /\ Apply(o[1], o[2], <<>>) /\ NonNegative(mem')
                           /\ last' = [kind |-> "apply", f |-> last.f, g |-> ""] /\ UNCHANGED written
DoWrite == \E g \in Outs : /\ Write(g, Ext[g]) /\ last' = [kind |-> "write", f |-> last.f, g |-> g]
                           /\ written' = IF res' = "ok" THEN written \cup {g} ELSE written \ {g}
DoCli == \E o \in CliA, f \in DOMAIN disk \cup {"o.txt"}, g \in CliOuts :
           /\ Cli(o[1], o[2], f, Ext[f], "in.srt", g, Ext[g]) /\ last' = [kind |-> "cli", f |-> f, g |-> g]
           /\ written' = IF res' = "ok" THEN written \cup {g} ELSE IF disk' # disk THEN written \ {g} ELSE written
Next == steps < MaxSteps /\ steps' = steps + 1 /\ (DoOpen \/ DoApply \/ DoWrite \/ DoCli)
Spec == Init /\ [][Next]_vars

---------------------------------------------------------------------------
Results == {"ok", "err", "invalid-extension", "nothing-to-write", "unspecified"}
TypeOK == /\ res \in Results /\ fps \in {0, 25, 30}
          /\ \A f \in DOMAIN disk : f \in Files /\ (disk[f] = Blank \/ disk[f].fmt \in ReadFmts)
WrittenOK == WrittenFilesOK(written)
\* the list in memory is only ever what some readable file held, transformed
MemFromOpen == (mem # <<>>) => last.kind # "none"

Close(x, y, q) == 0 <= x - y /\ x - y < q
\* a successful Write / tool run denotes the list it was given, instant by instant truncated (never rounded up,
\* never off by a whole quantum), text and order untouched
WriteFaithful ==
  [][(last'.kind = "write" /\ res' = "ok") =>
       LET d == disk'[last'.g] q == Quantum(d.fmt, fps) IN
       /\ Len(d.cues) = Len(mem)
       /\ \A i \in DOMAIN mem : d.cues[i].t = mem[i].t /\ Close(mem[i].s, d.cues[i].s, q) /\ Close(mem[i].e, d.cues[i].e, q)
       /\ (SortedByStart(mem) => SortedByStart(d.cues))]_vars
\* a Write that fails leaves an empty file, never a half-written document that reads as a shorter list
FailedWriteBlank == [][(last'.kind = "write" /\ res' # "ok") => disk'[last'.g] = Blank]_vars
\* converting a file the tool wrote to its own format (same frame rate) reproduces it: truncation is idempotent
Reconvert ==
  [][(last'.kind = "write" /\ res' = "ok" /\ last.kind = "open" /\ last.f \in written /\ last.f # last'.g
        /\ disk[last.f].fmt = Ext[last'.g] /\ mem = disk[last.f].cues) => disk'[last'.g] = disk[last.f]]_vars
\* the tool is Open ; Apply ; Write: it changes at most its output file, and never its input unless they coincide
CliTouchesOnlyOutput == [][last'.kind = "cli" => \A f \in DOMAIN disk : f # last'.g => disk'[f] = disk[f]]_vars
\* the extension is examined before the list: an unsupported one is reported even for an empty list
ASSUME WriteRes("txt", <<>>) = "invalid-extension" /\ WriteRes("srt", <<>>) = "nothing-to-write" /\ WriteRes("ts", <<>>) = "invalid-extension"
ASSUME \A f \in WriteFmts, r \in {0, 25, 30}, t \in 0..400 : Trunc(f, r, Trunc(f, r, t)) = Trunc(f, r, t) /\ Trunc(f, r, t) <= t
=============================================================================
