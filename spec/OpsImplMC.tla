----------------------------- MODULE OpsImplMC -----------------------------
(* Model checking of the implementation layer OpsImpl against the normative layer Ops: for every list over small
   constants (and the preconditions the statements give), every algorithm terminates and the list it leaves
   satisfies the normative relation; loop invariants say why. ALG selects the algorithm. *)
EXTENDS OpsImpl, TLC
CONSTANTS ALG, G, N, NT, DS, FS, FD, SIDS, RIDS
VARIABLES st, pre, o
vars == <<st, pre, o>>

TimeCue(id, s, e, t) ==
  [id |-> id, ptr |-> id, s |-> s, e |-> e, t |-> t, st |-> "", rg |-> "", rs |-> <<>>, ni |-> 0, ok |-> TRUE]
MkSubs(items) == [items |-> items, styles |-> EmptyMap, regions |-> EmptyMap, snil |-> FALSE, rnil |-> FALSE]
Idle == [alg |-> "none", pc |-> "done"]

StyleMaps ==
  UNION {{[k \in P |-> [id |-> k, parent |-> par[k], tag |-> "A"]] : par \in [P -> P \cup {""}]} : P \in SUBSET SIDS}
RegionMaps(styles) ==
  UNION {{[k \in P |-> [id |-> k, parent |-> sty[k], tag |-> "A"]] : sty \in [P -> DOMAIN styles \cup {""}]} : P \in SUBSET RIDS}
RefCue(id, sty, rg, r1) ==
  [id |-> id, ptr |-> id, s |-> id, e |-> id + 1, t |-> id, st |-> sty, rg |-> rg, rs |-> <<r1>>, ni |-> 0, ok |-> TRUE]

InitList(P(_)) ==
  \E n \in 0..N : \E se \in [1..n -> {p \in (0..G) \X (0..G) : p[1] <= p[2]}] : \E tx \in [1..n -> 1..NT] :
    LET items == [i \in 1..n |-> TimeCue(i, se[i][1], se[i][2], tx[i])] IN P(items)

Init ==
  CASE ALG = "add" -> InitList(LAMBDA items : \E d \in DS : pre = [items |-> items, a |-> d, b |-> FALSE] /\ st = AddInit(items, d) /\ o = Idle)
    [] ALG = "fragment" -> InitList(LAMBDA items : SortedByStart(items) /\ \E f \in FS : pre = [items |-> items, a |-> f, b |-> FALSE] /\ st = FragInit(items, f) /\ o = Idle)
    [] ALG = "unfragment" -> InitList(LAMBDA items : pre = [items |-> items, a |-> 0, b |-> FALSE] /\ st = UnfragInit(items) /\ o = Idle)
    [] ALG = "force" -> InitList(LAMBDA items : \E d \in FD, fl \in BOOLEAN : ForceDurationPre(items, d) /\ pre = [items |-> items, a |-> d, b |-> fl] /\ st = FDInit(items, d, fl) /\ o = Idle)
    [] ALG = "optimize" ->
         \E sm \in StyleMaps : \E rm \in RegionMaps(sm) : \E n \in 0..N :
           \E cs \in [1..n -> (DOMAIN sm \cup {""}) \X (DOMAIN rm \cup {""}) \X (DOMAIN sm \cup {""})] :
             LET S == [items |-> [i \in 1..n |-> RefCue(i, cs[i][1], cs[i][2], cs[i][3])], styles |-> sm, regions |-> rm, snil |-> FALSE, rnil |-> FALSE]
             IN  pre = S /\ o = OptInit(S) /\ st = Idle

Next == \/ st.pc # "done" /\ st' = ImplStep(st) /\ UNCHANGED <<pre, o>>
        \/ o.pc # "done" /\ o' \in OptNext(o) /\ UNCHANGED <<pre, st>>
Spec == Init /\ [][Next]_vars /\ WF_vars(Next)

---------------------------------------------------------------------------
Done == st.pc = "done" /\ o.pc = "done"
Terminates == <>Done

\* refinement: what the algorithm leaves is allowed by the normative relation
Refines ==
  Done =>
    CASE ALG = "add" -> AddOK(MkSubs(pre.items), pre.a, MkSubs(st.items))
      [] ALG = "fragment" -> FragmentOK(MkSubs(pre.items), pre.a, MkSubs(st.items)) /\ NoCueContainsMultiple(st.items, pre.a)
      [] ALG = "unfragment" -> UnfragmentOK(MkSubs(pre.items), MkSubs(st.items)) /\ NoSameTextTouch(st.items)
      [] ALG = "force" -> ForceDurationOK(MkSubs(pre.items), pre.a, pre.b, MkSubs(st.items))
      [] ALG = "optimize" -> OptimizeOK(pre, o.S)          \* on every path: the map order does not matter

\* loop invariants
AddInv == (ALG = "add" /\ st.pc = "loop") =>
            /\ st.idx <= Len(st.items) + 1
            /\ \A i \in 1..(st.idx - 1) : st.items[i].e > 0 /\ st.items[i].s >= 0         \* processed prefix: shifted, alive, clamped
            /\ \A i \in st.idx..Len(st.items) : \E j \in DOMAIN pre.items : st.items[i] = pre.items[j]   \* suffix untouched
FragInv == (ALG = "fragment" /\ st.pc \in {"next", "cut"}) =>
            /\ \A i \in DOMAIN st.out : ~ContainsMultiple(st.out[i], pre.a)             \* emitted pieces are final
            /\ (st.pc = "cut" => st.b % pre.a = 0 /\ st.b > st.items[st.k].s)            \* the cut point is the next multiple
UnfragInv == (ALG = "unfragment" /\ st.pc \in {"outer", "inner"}) =>
            /\ SortedByStart(st.items)
            /\ \A a, c \in 1..(st.i - 1) : a # c => ~Touch(st.items[a], st.items[c])     \* settled prefix is merged
            /\ Len(st.items) <= Len(pre.items)
OptInv == (ALG = "optimize" /\ o.pc \in {"styles", "delete"}) =>
            /\ o.us \subseteq ReachStyleIds(pre)                                         \* marks are sound ...
            /\ o.S.items = pre.items
            /\ (o.pc = "delete" => \A k \in DOMAIN pre.styles : pre.styles[k].id \in ReachStyleIds(pre) => pre.styles[k].id \in o.us)  \* ... and complete when the loop exits
=============================================================================
