------------------------------ MODULE TraceTime ------------------------------
(* Trace validation for C16: one event per cue boundary written by a real writer and re-read by the same
   format's reader (recorded by `drive timecodec`). The events of a (format, batch) come sorted by instant, so
   monotonicity is a step property of the replayed sequence. *)
EXTENDS TimeCodec, Json, IOUtils, TLC
Trace == ndJsonDeserialize(IOEnv.TRACE)
VARIABLE l
T(ev) == <<ev.t[1], ev.t[2]>>
Reason(i) ==
  LET ev == Trace[i] IN
  IF ev.res # "ok" THEN "writer-or-reader-" \o ev.res
  ELSE IF ~Canonical(ev.fmt, ev.fps, ev.f) THEN "not-canonical"
  ELSE IF ev.f # Render(ev.fmt, ev.fps, T(ev)) THEN "not-the-latest-representable-instant"
  ELSE IF ~BackOK(ev.fmt, ev.fps, ev.f, <<ev.back[1], ev.back[2]>>) THEN "reader-maps-rendering-elsewhere"
  ELSE IF ~ev.same2 THEN "second-write-differs"
  ELSE IF ~ev.first /\ Leq(T(Trace[i - 1]), T(ev)) /\ Trace[i - 1].res = "ok"
          /\ ~Leq(ValueOf(ev.fmt, ev.fps, Trace[i - 1].f), ValueOf(ev.fmt, ev.fps, ev.f)) THEN "later-instant-renders-earlier"
  ELSE "ok"
Init == l = 1
Step == /\ l <= Len(Trace)
        /\ LET r == Reason(l) IN IF r = "ok" THEN TRUE ELSE PrintT(<<"V", l, Trace[l].n, "C16", r>>)
        /\ l' = l + 1
Spec == Init /\ [][Step]_l
Accepted == TLCGet("stats").diameter - 1 = Len(Trace)
==============================================================================
