INIT Init
NEXT Next
CONSTANT R = 160
INVARIANT Laws
CHECK_DEADLOCK FALSE
