------------------------------- MODULE SrtMC -------------------------------
(* Model checking of the SubRip specification itself: for every ground truth G over small constants and every
   rendering D the format tolerates, the reference decoder returns G (so the oracle used to judge the library's
   writer and reader is itself verified against the rendering relation). Two steps per behaviour: Init picks G,
   Next picks D. Also the source of the generated cases (GenSrt). *)
EXTENDS SrtCodec
CONSTANTS MAXCUES, FAM     \* FAM: which rendering family (see Vars)
VARIABLES g, d
vars == <<g, d>>

Styles == {Plain, [Plain EXCEPT !.b = TRUE], [b |-> FALSE, i |-> TRUE, u |-> TRUE, c |-> 1]}
Atoms == {1, 2}
Runs == {Run(a, st.b, st.i, st.u, st.c) : a \in Atoms, st \in Styles}
Lines1 == {<<r>> : r \in Runs}
\* two adjacent runs without any markup are one run in SubRip: not a distinct ground truth
Lines2 == {p \in Runs \X Runs : ~(StyleOf(p[1]) = Plain /\ StyleOf(p[2]) = Plain)}
\* line structures of one cue
\* (a cue may have no text line at all: index and timing line followed by the blank line)
Bodies(rich) == {<<>>} \cup {<<l>> : l \in Lines1} \cup (IF rich THEN {<<l>> : l \in Lines2} \cup {<<l1, l2>> : l1 \in Lines1, l2 \in Lines1} ELSE {})
\* times incl. carries and the largest representable hour count (instants themselves are C16's business)
TimePairs == {<<0, 1500>>, <<3599999, 359999999>>, <<61000, 61010>>, <<3723004, 3723400>>}
TimePairsFor(fam) == IF fam = "B" THEN TimePairs ELSE {<<0, 1500>>, <<3599999, 359999999>>}
Cues(rich, fam) == {[s |-> tp[1], e |-> tp[2], lines |-> b] : tp \in TimePairsFor(fam), b \in Bodies(rich)}

\* rendering families: A = structure (index, tag discipline, blank lines, EOL, BOM), timing syntax fixed;
\*                     B = timing syntax (separator, digits, spacing, coordinates), structure fixed
Vars(fam, n) ==
  IF fam = "A" THEN [AllVars EXCEPT !.seps = {","}, !.fds = {3}, !.sps = {0}, !.xys = {FALSE},
                                    !.eols = IF n = 1 THEN {"lf", "crlf", "cr"} ELSE {"lf"},
                                    !.boms = IF n = 1 THEN BOOLEAN ELSE {FALSE}]
  ELSE [AllVars EXCEPT !.between = {1}, !.atEOF = {0}, !.eols = {"crlf"}, !.boms = {TRUE}]

Truths(n, fam) == IF n = 0 THEN {<<>>}
                  ELSE IF n = 1 THEN {<<c>> : c \in Cues(TRUE, fam)}
                  ELSE {<<c1, c2>> : c1 \in Cues(FALSE, fam), c2 \in Cues(FALSE, fam)}

Init == /\ \E n \in 0..MAXCUES : g \in Truths(n, FAM)
        /\ d = [eol |-> "", bom |-> FALSE, toks |-> <<>>]
Next == /\ d.eol = ""
        /\ d' \in Renderings(g, Vars(FAM, Len(g)))
        /\ UNCHANGED g
Spec == Init /\ [][Next]_vars

DecoderCorrect == d.eol # "" => RefRead(d) = g
\* the transcription of ReadFromSRT refines the reference decoder on every rendering the format tolerates
ImplRefines == d.eol # "" => ImplRead(d) = RefRead(d)
=============================================================================
