SPECIFICATION Spec
CONSTANT FAM = "H"
INVARIANT DecoderCorrect
INVARIANT CtlRefines
CHECK_DEADLOCK FALSE
