SPECIFICATION Spec
CONSTANT FAM = "H"
INVARIANT DecoderCorrect
CHECK_DEADLOCK FALSE
