------------------------------- MODULE GenVtt -------------------------------
(* Case generation for C02: every (ground truth, rendering) pair of VttMC's families, as JSON. *)
EXTENDS VttMC, Json, IOUtils
Env(n, dflt) == IF n \in DOMAIN IOEnv THEN atoi(IOEnv[n]) ELSE dflt
gP == Env("GEN_PART", 0)
gPS == Env("GEN_PARTS", 1)
gFam == IOEnv.GEN_FAM
TruthSeq(z) == SetToSeq(Truths(gFam))
Pairs(z) ==
  LET ts == TruthSeq(0) IN
  UNION {{[g |-> ts[i], d |-> D] : D \in Renderings(ColourAsClass(ts[i]), Vars(gFam))} : i \in {j \in DOMAIN ts : j % gPS = gP}}
ASSUME LET ps == Pairs(0) IN
       /\ ndJsonSerialize(IOEnv.GEN_OUT, SetToSeq(ps))
       /\ PrintT(<<"GENERATED", "vtt", Cardinality(ps)>>)
=============================================================================
