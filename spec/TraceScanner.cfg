SPECIFICATION Spec
CONSTANTS
  CR_WAITS = TRUE
  CHECKS_ERR = TRUE
  BLOCK_LOOPS = TRUE
  MAXTOK = 65536
POSTCONDITION Accepted
CHECK_DEADLOCK FALSE
