--------------------------- MODULE TraceStyleProp ---------------------------
(* Trace validation of the attribute-propagation stage of C07 (events of `drive styleprop`): the conversion must
   succeed and keep the cue, its text and its times - C07's own clauses - and the looks after the first read and
   after the read-back are compared with StyleProp's prediction: a difference there is impl-model DRIFT. *)
EXTENDS StyleProp, Json, IOUtils
Trace == ndJsonDeserialize(IOEnv.TRACE)
VARIABLE l
Look(d) == [cue |-> d.cue, run |-> d.run, voice |-> d.voice, meta |-> d.meta]
Reason(ev) ==
  IF ev.res # "ok" THEN <<"C07", "conversion-" \o ev.res>>
  ELSE IF ev.cues # 1 THEN <<"C07", "cue-count">>
  ELSE IF ~ev.textok THEN <<"C07", "text-differs">>
  ELSE IF ~ev.timeok THEN <<"C07", "times-differ">>
  ELSE IF ev.mid # Look(Mid(ev.src, ev.x)) THEN <<"DRIFT", "look-after-read">>
  ELSE IF ev.out # Look(Out(ev.src, ev.dst, ev.x)) THEN <<"DRIFT", "look-after-conversion">>
  ELSE <<"ok", "ok">>
Init == l = 1
Step == /\ l <= Len(Trace)
        /\ LET r == Reason(Trace[l]) IN IF r[1] = "ok" THEN TRUE ELSE PrintT(<<"V", l, Trace[l].n, r[1], r[2]>>)
        /\ l' = l + 1
Spec == Init /\ [][Step]_l
Accepted == TLCGet("stats").diameter - 1 = Len(Trace)
=============================================================================
