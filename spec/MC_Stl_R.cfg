SPECIFICATION Spec
CONSTANT FAM = "R"
INVARIANT DecoderCorrect
CHECK_DEADLOCK FALSE
