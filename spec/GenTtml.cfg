SPECIFICATION Spec
CONSTANT FAM = "T"
CHECK_DEADLOCK FALSE
