SPECIFICATION Spec
CONSTANT FAM = "A"
INVARIANT DecoderCorrect
CHECK_DEADLOCK FALSE
