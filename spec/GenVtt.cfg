SPECIFICATION Spec
CONSTANT FAM = "H"
CHECK_DEADLOCK FALSE
