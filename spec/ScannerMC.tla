----------------------------- MODULE ScannerMC -----------------------------
(* The scanner as a state machine: the environment chooses every read (size, EOF-with-data, zero-length,
   fault); the implementation layer reacts. Checked for every document of length <= L. *)
EXTENDS Scanner
CONSTANTS L, FAULTS
VARIABLES doc, rest, st, failed
vars == <<doc, rest, st, failed>>

RECURSIVE Docs(_)
Docs(n) == IF n = 0 THEN {<<>>} ELSE Docs(n - 1) \cup {Append(d, x) : d \in {e \in Docs(n - 1) : Len(e) = n - 1}, x \in Sym}

Init == doc \in Docs(L) /\ rest = doc /\ st = InitScan /\ failed = FALSE

MaxN == IF Len(rest) <= Space(st) THEN Len(rest) ELSE Space(st)

Read(n) == /\ ~st.done /\ n \in 0..MaxN /\ (n = 0 => st.zeros < 2 /\ rest # <<>>)
           /\ st' = Deliver(st, SubSeq(rest, 1, n), "ok") /\ rest' = SubSeq(rest, n + 1, Len(rest))
           /\ UNCHANGED <<doc, failed>>
ReadEOF == /\ ~st.done /\ Len(rest) <= Space(st)
           /\ st' = Deliver(st, rest, "eof") /\ rest' = <<>> /\ UNCHANGED <<doc, failed>>
Fail(n) == /\ FAULTS /\ ~st.done /\ n \in 0..MaxN
           /\ st' = Deliver(st, SubSeq(rest, 1, n), "fail") /\ rest' = SubSeq(rest, n + 1, Len(rest))
           /\ failed' = TRUE /\ UNCHANGED doc
Next == (\E n \in 0..L : Read(n) \/ Fail(n)) \/ ReadEOF
Spec == Init /\ [][Next]_vars /\ WF_vars(Next)

\* C17: the lines do not depend on the schedule
ScheduleIndependent == (st.done /\ ~failed /\ Fits(doc)) => (st.out = Lines(doc) /\ st.err = "nil")
\* C18: a reader that returns no error returned every line (over-long lines and faults included)
NoSilentTruncation == (st.done /\ ReaderErr(st) = "nil") => st.out = Lines(doc)
FaultReported == (st.done /\ failed) => ReaderErr(st) # "nil"
LongLineReported == (st.done /\ ~Fits(doc) /\ st.out # Lines(doc)) => ReaderErr(st) # "nil"
Termination == <>(st.done)

\* the block reader: every fault-free schedule of every length yields the same blocks
BlockB == 3
BlocksScheduleIndependent ==
  \A len \in 0..(2 * BlockB + 1) : \A s \in CleanScheds(len) : ReadAllBlocks(len, BlockB, s, 0) = BlocksOf(len, BlockB)
BlocksFaultReported ==
  \A len \in 0..(2 * BlockB) : \A s \in FaultScheds(len) : ReadAllBlocks(len, BlockB, s, 0).err # "nil"
=============================================================================
