------------------------------- MODULE SsaMC -------------------------------
(* Model checking of the SSA specification itself (Format-driven reference decoder vs rendering relation) and
   source of the generated cases. Families:
   "S": one style over Name + 4 typed columns, every permutation of the Format line (120), v4 and v4+
   "E": one event over 4 columns + Start/End/Text, every permutation (24), text structures, *-prefixed style names
   "F": full 24-column styles (two styles with different attribute subsets) and full event rows, 3 column orders,
        script info, comments, junk + unknown section, EOL/BOM/radix variants *)
EXTENDS SsaCodec, IOUtils
CONSTANT FAM
VARIABLES g, d

\* GEN_WIDE=1 (thorough tier): the families range over the whole space of rendering choices / wider truth sets
Wide == "GEN_WIDE" \in DOMAIN IOEnv /\ IOEnv.GEN_WIDE = "1"
vars == <<g, d>>

Perms(S) == {p \in [1..Cardinality(S) -> S] : \A i, j \in DOMAIN p : i # j => p[i] # p[j]}
Rotate(s, k) == [i \in DOMAIN s |-> s[((i + k - 1) % Len(s)) + 1]]
Reverse1(s) == [i \in DOMAIN s |-> s[Len(s) + 1 - i]]
ThreeOrders(S) == LET b == SetToSeq(S) IN {b, Reverse1(b), Rotate(b, 5)}

AllStyleCols == {"Name", "Fontname", "Fontsize", "PrimaryColour", "SecondaryColour", "OutlineColour", "BackColour", "Bold", "Italic",
                 "Underline", "Strikeout", "ScaleX", "ScaleY", "Spacing", "Angle", "BorderStyle", "Outline", "Shadow", "Alignment",
                 "MarginL", "MarginR", "MarginV", "AlphaLevel", "Encoding"}
V4Cols == AllStyleCols \ {"Underline", "Strikeout", "ScaleX", "ScaleY", "Spacing", "Angle"}

Line1(rs) == <<rs>>
R(a, fx) == [a |-> a, fx |-> fx]
Texts == {<<<<R(1, 0)>>>>, <<<<R(1, 1)>>>>, <<<<R(1, 0), R(2, 1)>>>>, <<<<R(1, 1), R(2, 2)>>>>, <<<<R(1, 0)>>, <<R(2, 0)>>>>, <<<<R(3, 0)>>>>,
          <<<<R(1, 0)>>, <<R(2, 1)>>, <<R(3, 0)>>>>,
          \* two override blocks in a row: the first one is a run of its own without text (atom 0)
          <<<<R(0, 2), R(1, 1)>>>>, <<<<R(1, 0), R(0, 1), R(2, 2)>>>>}
Ev(s, e, cols, lines) == [s |-> s, e |-> e, cols |-> cols, lines |-> lines]
EmptyF == [x \in {} |-> 0]
Base(plus) == [plus |-> plus, info |-> EmptyF, notes |-> <<>>, styles |-> <<>>, events |-> <<>>]

TruthsS == {[Base(plus) EXCEPT !.styles = <<[c \in {"Name", "Fontname", "Fontsize", "PrimaryColour", "Bold"} |->
                                              CASE c = "Name" -> 1 [] c = "Fontname" -> fn [] c = "Fontsize" -> 2 [] c = "PrimaryColour" -> pc [] c = "Bold" -> b]>>,
                               !.events = <<Ev(150, 475, [c \in {"Style"} |-> 1], <<<<R(1, 0)>>>>)>>] :
              plus \in BOOLEAN, fn \in {1, 2}, pc \in {1, 2}, b \in {0, 1}}

TruthsE == {[Base(plus) EXCEPT !.styles = <<[c \in {"Name", "Bold"} |-> 1]>>,
                               !.events = <<Ev(tp[1], tp[2], [c \in {LayerCol(plus), "Style", "Name", "Effect"} |->
                                                  CASE c = "Style" -> 1 [] c = "Name" -> nm [] c = "Effect" -> fx [] OTHER -> ly], tx)>>] :
              plus \in BOOLEAN, tp \in {<<0, 150>>, <<359999, 35999999>>}, nm \in {0, 1}, fx \in {0, 1}, ly \in {0, 1}, tx \in Texts}

FullStyle(plus, n, k) ==
  [c \in (IF plus THEN AllStyleCols ELSE V4Cols) \ (IF k = 1 THEN {} ELSE {"Alignment", "Bold", "BackColour", "Fontsize"}) |->
     CASE c = "Name" -> n
       [] c \in {"Fontname"} -> 1 + (n % 2)
       \* neighbouring columns of the same type carry different values (a swapped field shows)
       [] c \in {"PrimaryColour", "OutlineColour"} -> 1 + ((n + k) % 3) [] c \in {"SecondaryColour", "BackColour"} -> 1 + ((n + k + 1) % 3)
       [] c \in {"Bold", "Strikeout"} -> 1 [] c \in {"Italic", "Underline"} -> 0
       [] c \in {"Fontsize", "ScaleY", "Angle", "Shadow"} -> 1 + ((n + k) % 3) [] c \in {"ScaleX", "Spacing", "Outline", "AlphaLevel"} -> 1 + ((n + k + 1) % 3)
       [] OTHER -> n + k]
FullEvent(plus, s, st, tx) ==
  Ev(s, s + 250, [c \in {LayerCol(plus), "Style", "Name", "MarginL", "MarginR", "MarginV", "Effect"} |->
                    CASE c = "Style" -> st [] c = "Name" -> 1 [] c = "Effect" -> 1 [] c = "MarginL" -> 12 [] c = "MarginR" -> 0 [] c = "MarginV" -> 345 [] OTHER -> 1], tx)
TruthsF == {[plus |-> plus, info |-> inf, notes |-> nt,
             styles |-> <<FullStyle(plus, 1, 1), FullStyle(plus, 2, k2)>>,
             events |-> <<FullEvent(plus, 100, 1, <<<<R(1, 0)>>>>), FullEvent(plus, 6000, 2, <<<<R(1, 1), R(2, 2)>>, <<R(3, 2)>>>>)>>] :
              plus \in BOOLEAN, k2 \in {1, 2}, nt \in {<<>>, <<1, 2>>},
              inf \in {EmptyF, [c \in {"Title", "PlayResX", "Timer", "Collisions"} |-> 1], [c \in {"Title"} |-> 2]}}

\* I: every script-info field alone (two values) and all of them together
InfoKeys == {"Title", "PlayResX", "PlayResY", "PlayDepth", "Timer", "Collisions", "WrapStyle", "Original Script", "Original Translation",
             "Original Editing", "Original Timing", "Synch Point", "Script Updated By", "Update Details"}
TruthsI == {[Base(plus) EXCEPT !.info = inf, !.events = <<Ev(100, 350, [c \in {"Style"} |-> 0], <<<<R(1, 0)>>>>)>>] :
              plus \in BOOLEAN, inf \in {[c \in {key} |-> v] : key \in InfoKeys, v \in {1, 2}} \cup {[c \in InfoKeys |-> 1], [c \in InfoKeys |-> 2]}}

Truths(fam) == CASE fam = "S" -> TruthsS [] fam = "E" -> TruthsE [] fam = "F" -> TruthsF [] fam = "I" -> TruthsI
BaseV == [eols |-> {"lf"}, boms |-> {FALSE}, radix |-> {"dec"}, nls |-> {"N"}, stars |-> {FALSE}, noise |-> FALSE, first |-> {"styles"}]
WideV(v) == IF Wide THEN [v EXCEPT !.eols = {"lf", "crlf", "cr"}, !.boms = BOOLEAN, !.radix = {"dec", "hex"}] ELSE v
VarsN(fam) == CASE fam = "S" -> [BaseV EXCEPT !.radix = {"dec", "hex"}]
               [] fam = "E" -> [BaseV EXCEPT !.nls = {"N", "n", "mix"}, !.stars = BOOLEAN]
               [] fam = "F" -> [BaseV EXCEPT !.eols = {"lf", "crlf", "cr"}, !.boms = BOOLEAN, !.radix = {"dec", "hex"}, !.noise = TRUE, !.first = {"styles", "events"}]
               [] fam = "I" -> [BaseV EXCEPT !.noise = TRUE]
Vars(fam) == WideV(VarsN(fam))
SP(fam, G) == IF G.styles = <<>> THEN {<<>>} ELSE IF fam = "S" THEN Perms(StyleCols(G)) ELSE IF fam = "E" THEN {SetToSeq(StyleCols(G))} ELSE ThreeOrders(StyleCols(G))
EP(fam, G) == IF fam = "E" THEN Perms(EventCols(G)) ELSE IF fam = "S" THEN {SetToSeq(EventCols(G))} ELSE ThreeOrders(EventCols(G))

Init == g \in Truths(FAM) /\ d = [eol |-> ""]
Next == d.eol = "" /\ d' \in Renderings(g, Vars(FAM), SP(FAM, g), EP(FAM, g)) /\ UNCHANGED g
Spec == Init /\ [][Next]_vars
DecoderCorrect == d.eol # "" => Denotes(RefRead(d), g)
=============================================================================
