SPECIFICATION Spec
CONSTANTS
  G = 4
  N = 3
  NT = 2
  DS <- DSt
  FS = {1, 2, 3}
  FD = {1, 2, 3, 4}
  K = 2
  REFS = FALSE
INVARIANTS ForceLaws
CHECK_DEADLOCK FALSE
