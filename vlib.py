#!/usr/bin/env python3
"""Shared orchestration helpers for ./check (stdlib only).

Pipeline of a check (DESIGN.md 2.3):
  (a) tlc MC_*      model-check the specification itself (laws / refinement)      -> exit 2 on failure
  (b) tlc Gen*      TLC enumerates the cases from the spec                        -> cases.ndjson
  (c) drive <x>     the Go harness runs the real code (built from /repo, -tags verif) -> trace.ndjson
  (d) tlc Trace*    TLC validates every recorded event against the normative layer -> verdict lines
Verdicts come only from (d).
"""
import json, os, re, shutil, subprocess, sys, tempfile, time, hashlib, threading
from concurrent.futures import ThreadPoolExecutor

VERIF = os.path.dirname(os.path.abspath(__file__))
REPO = os.environ.get("VERIF_REPO", "/repo")
SPEC = os.path.join(VERIF, "spec")
HARNESS = os.path.join(VERIF, "harness")
JAR = "/opt/veriftools/tla/tla2tools.jar:/opt/veriftools/tla/CommunityModules-deps.jar"
NCPU = os.cpu_count() or 4

GOENV = dict(GOFLAGS="-mod=mod", GOPROXY="off", GOSUMDB="off", GOTOOLCHAIN="local")


class Infra(Exception):
    """Infrastructure failure: exit 2, never a VIOLATION."""


def log(*a):
    print("[check]", *a, file=sys.stderr, flush=True)


class Scratch:
    def __init__(self):
        base = os.environ.get("VERIF_SCRATCH_BASE") or tempfile.gettempdir()
        self.dir = tempfile.mkdtemp(prefix="verif-", dir=base)
        self.n = 0

    def path(self, name):
        return os.path.join(self.dir, name)

    def sub(self, name):
        p = os.path.join(self.dir, name)
        os.makedirs(p, exist_ok=True)
        return p

    def cleanup(self):
        shutil.rmtree(self.dir, ignore_errors=True)


def env_with(extra):
    e = dict(os.environ)
    e.update(GOENV)
    e.update({k: str(v) for k, v in extra.items()})
    return e


_build_lock = threading.Lock()
_built = {}


def build_harness(scratch, race=False):
    """Build the drive binary from /repo's current working tree with the verif tag."""
    key = ("race" if race else "plain")
    with _build_lock:
        if key in _built:
            return _built[key]
        out = scratch.path("drive-" + key)
        modfile = scratch.path("go.mod")
        if not os.path.exists(modfile):
            src = open(os.path.join(HARNESS, "go.mod")).read()
            src = src.replace("=> /repo", "=> " + REPO)
            open(modfile, "w").write(src)
            shutil.copy(os.path.join(REPO, "go.sum"), scratch.path("go.sum"))
        cmd = ["go", "build", "-tags", "verif", "-modfile", modfile, "-o", out]
        if race:
            cmd.append("-race")
        cmd.append("./cmd/drive")
        t0 = time.time()
        p = subprocess.run(cmd, cwd=HARNESS, env=env_with({"CGO_ENABLED": "1" if race else "0"}),
                           stdout=subprocess.PIPE, stderr=subprocess.STDOUT, text=True)
        if p.returncode != 0:
            raise Infra("go build failed:\n" + p.stdout)
        log("built harness (%s) in %.1fs" % (key, time.time() - t0))
        _built[key] = out
        return out


def build_cli(scratch):
    out = scratch.path("astisub-cli")
    if os.path.exists(out):
        return out
    p = subprocess.run(["go", "build", "-o", out, "./astisub"], cwd=REPO, env=env_with({"CGO_ENABLED": "0"}),
                       stdout=subprocess.PIPE, stderr=subprocess.STDOUT, text=True)
    if p.returncode != 0:
        raise Infra("go build of the CLI failed:\n" + p.stdout)
    return out


VERDICT = re.compile(r'<<\s*"V",\s*(-?\d+),\s*(-?\d+),\s*"([^"]*)",\s*"([^"]*)"\s*>>')
TLC_STATS = re.compile(r"(\d+) states generated, (\d+) distinct states found")


class TlcResult:
    def __init__(self, rc, out):
        self.rc = rc
        self.out = out
        m = None
        for m in TLC_STATS.finditer(out):
            pass
        self.generated = int(m.group(1)) if m else 0
        self.distinct = int(m.group(2)) if m else 0
        self.ok = rc == 0 and "Model checking completed. No error has been found." in out or \
            (rc == 0 and "Finished computing" in out and "Error:" not in out)
        # verdict tuples <<"V", line, case, property, reason>>; TLC wraps long tuples over several lines
        self.verdicts = [["V", m.group(1), m.group(2), m.group(3), m.group(4)] for m in VERDICT.finditer(out)]
        self.printed = [l for l in out.splitlines() if l.startswith("<<") and not l.startswith('<<"V"')]


def split_tuple(s):
    out, cur, depth, inq = [], "", 0, False
    for ch in s:
        if ch == '"':
            inq = not inq
        if not inq and ch in "<[{(":
            depth += 1
        if not inq and ch in ">]})":
            depth -= 1
        if ch == "," and depth == 0 and not inq:
            out.append(cur)
            cur = ""
        else:
            cur += ch
    out.append(cur)
    return out


def tlc(scratch, module, cfg, env=None, workers=1, timeout=600, heap="3g", extra=None, simulate=None, gc=2, mode=None):
    """Run TLC on spec/<module>.tla with spec/<cfg>; returns TlcResult. Runs in the spec directory read-only
    (metadir in scratch)."""
    scratch.n += 1
    md = scratch.sub("md%d_%d" % (os.getpid(), scratch.n) + "_" + str(threading.get_ident()) + "_" + str(time.time_ns()))
    if mode is None:
        mode = "mc" if workers > 1 else "short"
    if mode == "short":
        # single-worker generation / trace validation: C1-only JIT and the serial collector use about half
        # the CPU of the defaults, which matters when 16 JVMs run side by side
        jvm = ["-XX:+UseSerialGC", "-XX:TieredStopAtLevel=1"]
    else:
        jvm = ["-XX:+UseParallelGC", "-XX:ParallelGCThreads=%d" % gc]
    cmd = ["timeout", str(timeout), "java"] + jvm + ["-Xmx" + heap,
           "-Xss64m", "-cp", JAR, "tlc2.TLC", "-workers", str(workers), "-noGenerateSpecTE", "-metadir", md,
           "-config", os.path.join(SPEC, cfg)]
    if simulate:
        cmd += ["-simulate", simulate]
    if extra:
        cmd += extra
    cmd.append(os.path.join(SPEC, module + ".tla"))
    e = env_with(env or {})
    p = subprocess.run(cmd, cwd=scratch.dir, env=e, stdout=subprocess.PIPE, stderr=subprocess.STDOUT, text=True)
    shutil.rmtree(md, ignore_errors=True)
    r = TlcResult(p.returncode, p.stdout)
    if p.returncode == 124:
        raise Infra("TLC timed out after %ss on %s/%s" % (timeout, module, cfg))
    return r


def apalache(scratch, module, inv, timeout=900):
    """Discharge a state invariant over every initial state with Apalache (length 0: Next only stutters)."""
    out = scratch.sub("apalache_%s_%d" % (module, time.time_ns()))
    shutil.copy(os.path.join(SPEC, module + ".tla"), out)
    cmd = ["timeout", str(timeout), "apalache-mc", "check", "--init=Init", "--next=Next", "--inv=" + inv, "--length=0",
           "--out-dir=" + os.path.join(out, "out"), module + ".tla"]
    p = subprocess.run(cmd, cwd=out, env=env_with({}), stdout=subprocess.PIPE, stderr=subprocess.STDOUT, text=True)
    if p.returncode != 0 or "The outcome is: NoError" not in p.stdout:
        raise Infra("Apalache did not discharge %s of %s (rc=%s):\n%s" % (inv, module, p.returncode, p.stdout[-2000:]))
    return {"module": module + ".tla", "invariant": inv, "outcome": "NoError", "scope": "every instant >= 0 (unbounded integers), quanta 3 / 30 / 100 / 120"}


def require_ok(r, what):
    if not r.ok:
        tail = "\n".join([l for l in r.out.splitlines() if not re.match(r"^(Parsing|Semantic|Linting) ", l)][-40:])
        raise Infra("%s failed (rc=%s):\n%s" % (what, r.rc, tail))
    return r


def run_drive(drive, args, timeout=1800, env=None):
    p = subprocess.run([drive] + args, env=env_with(env or {}), stdout=subprocess.PIPE, stderr=subprocess.STDOUT, text=True,
                       timeout=timeout)
    if p.returncode != 0:
        raise Infra("drive %s failed (rc=%d):\n%s" % (" ".join(args[:3]), p.returncode, p.stdout[-3000:]))
    return p.stdout


def pmap(fn, items, workers=None):
    workers = workers or min(NCPU, max(1, len(items)))
    with ThreadPoolExecutor(max_workers=workers) as ex:
        return list(ex.map(fn, items))


def count_lines(path):
    n = 0
    with open(path, "rb") as f:
        for _ in f:
            n += 1
    return n


def split_trace(path, parts, scratch, prefix, boundary=lambda ev: ev.get("first", True)):
    """Split an ndjson trace into <parts> files at history boundaries. Returns [(file, first_line_numbers)]."""
    outs = [open(scratch.path("%s.%d.ndjson" % (prefix, i)), "w") for i in range(parts)]
    maps = [[] for _ in range(parts)]
    cur = -1
    with open(path) as f:
        for lineno, line in enumerate(f, 1):
            is_first = '"first":true' in line or '"first":' not in line
            if is_first or cur < 0:
                cur = (cur + 1) % parts
            outs[cur].write(line)
            maps[cur].append(lineno)
    for o in outs:
        o.close()
    return [(scratch.path("%s.%d.ndjson" % (prefix, i)), maps[i]) for i in range(parts) if maps[i]]


def read_line(path, lineno):
    with open(path) as f:
        for i, line in enumerate(f, 1):
            if i == lineno:
                return json.loads(line)
    return None


def load_findings():
    p = os.path.join(VERIF, "known_findings.json")
    if not os.path.exists(p):
        return []
    return json.load(open(p))["findings"]


def write_evidence(pid, tier, seed, level, coverage, wall, violations, assumptions):
    # VERIF_EVIDENCE_DIR: only used by seedtool.sh runcopy (runs against a scratch copy must not touch the evidence)
    d = os.environ.get("VERIF_EVIDENCE_DIR") or os.path.join(VERIF, "evidence")
    os.makedirs(d, exist_ok=True)
    ev = {"property_id": pid, "tier": tier, "seed": seed, "level": level, "coverage": coverage,
          "assumptions": assumptions, "wall_s": round(wall, 2), "violations": violations}
    tmp = os.path.join(d, pid + ".json.tmp")
    json.dump(ev, open(tmp, "w"), indent=1, sort_keys=True)
    os.replace(tmp, os.path.join(d, pid + ".json"))


def save_replay(pid, name, obj):
    d = os.path.join(VERIF, "replays")
    os.makedirs(d, exist_ok=True)
    p = os.path.join(d, "%s-%s.json" % (pid, name))
    json.dump(obj, open(p, "w"), indent=1)
    return p
