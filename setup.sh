#!/bin/sh
# Offline setup: nothing is downloaded. Pre-builds the harness once (checks rebuild it from /repo on every run)
# and parses every specification module with SANY.
set -e
cd "$(dirname "$0")"
export GOFLAGS=-mod=mod GOPROXY=off GOSUMDB=off GOTOOLCHAIN=local
cp /repo/go.sum harness/go.sum
(cd harness && go build -tags verif -o /dev/null ./cmd/drive)
T=$(mktemp -d)
cp spec/*.tla "$T"/
(cd "$T" && java -cp /opt/veriftools/tla/tla2tools.jar:/opt/veriftools/tla/CommunityModules-deps.jar tla2sany.SANY *.tla >sany.log 2>&1 || { grep -B2 -A8 -i "error" sany.log | head -40; echo "SANY failed"; exit 1; })
rm -rf "$T"
echo setup ok
