#!/bin/sh
# Offline setup: nothing is downloaded. Pre-builds the harness once (checks rebuild it from /repo on every run)
# and parses every specification module.
set -e
cd "$(dirname "$0")"
export GOFLAGS=-mod=mod GOPROXY=off GOSUMDB=off GOTOOLCHAIN=local
cp /repo/go.sum harness/go.sum
(cd harness && go build -tags verif -o /dev/null ./cmd/drive)
T=$(mktemp -d)
cp spec/*.tla "$T"/
(cd "$T" && for m in Ops OpsMC; do
  java -cp /opt/veriftools/tla/tla2tools.jar:/opt/veriftools/tla/CommunityModules-deps.jar tla2sany.SANY "$m.tla" >/dev/null || { echo "SANY failed on $m"; exit 1; }
done)
rm -rf "$T"
echo setup ok
