import json,re
p='/verif/DESIGN.md'
s=open(p).read()
if '## 10. As built' in s:
    s=s[:s.index('## 10. As built')]+s[s.index('## Appendix A'):]
d=json.load(open('/verif/known_findings.json'))
L=d['findings'] if isinstance(d,dict) else d
rows=[]
seen=set()
for f in L:
    if f['status']!='fixed': continue
    what=re.sub(r'^fixed: property=\S+ \S+ ','',f['what'])
    rows.append('| %s | `%s` | %s |' % (f['property'], f.get('commit',''), what.replace('|','\\|')))
fixed='\n'.join(rows)
import glob as _g
_rows=[]
for f in sorted(_g.glob('/verif/seeded/benign_results/B*.log')):
    ls=[l for l in open(f) if l.startswith('seed=')]
    ok=sum(1 for l in ls if ' rc=0 ' in l)
    bad=[l.split()[1].split('=')[1]+' '+l.split()[2] for l in ls if ' rc=0 ' not in l]
    _rows.append('| %s | %d | %s |' % (f.split('/')[-1][:-4], ok, ', '.join(bad) or '-'))
benign='Final run (all 20 quick checks per change):\n\n| change | checks silent | not silent |\n|---|---|---|\n'+'\n'.join(_rows) if _rows else '(final run pending)'
seeds=open('/verif/seeded/RESULTS.md').read()
seeds=seeds[seeds.index('| seed'):]
props={json.loads(l)['id']:json.loads(l) for l in open('/verif/properties.jsonl')}
perprop=[]
import os
for pid in sorted(props):
    ep='/verif/evidence/%s.json'%pid
    if not os.path.exists(ep): continue
    e=json.load(open(ep)); c=e['coverage']
    mc='; '.join('%s: %s distinct states'%(m['config'].split(' ')[0],m['distinct_states']) for m in c.get('model_checking_runs',[]))
    perprop.append('#### %s - %s\n\n%s\n\n*Assumptions:* %s\n\n*Last committed run (%s tier, seed %s):* %s events validated against the real code, %s distinct non-trivial cases, %s TLC states in total; model checking: %s. Known findings seen: %s.\n' % (
        pid, props[pid]['title'], c.get('rule',''), ' / '.join(e.get('assumptions',[])) or 'none', e['tier'], e['seed'], c.get('traces_validated_against_impl'), c.get('distinct_nontrivial'), c.get('states'), mc or 'none', c.get('known_findings_seen') or 'none'))
perprop='\n'.join(perprop)
sec='''## 10. As built

### 10.1 Inventory

* `spec/` - @@NMOD@@ TLA+ modules, about @@NLINES@@ lines: the normative modules `Cues`, `Ops` (+ implementation layer `OpsImpl`), `Linear` (+`BigInt`),
  `TimeCodec`, `Scanner`, the five codec modules with their tables (`SrtCodec`, `VttCodec`, `SsaCodec`,
  `TtmlCodec`, `StlCodec` + `StlTables`), `Teletext` + `TeletextTables`, `Writers`, `Conc`, `Totality`,
  `Session`, `StyleProp`; a bounded model per family (`OpsMC`, `OpsImplMC`, `MC_BigInt`, `MC_Linear`, `MC_TimeCodec`, `ScannerMC`,
  `SrtMC`, `VttMC`, `SsaMC`, `TtmlMC`, `StlMC`, `TeletextMC`, `SessionMC`, `StylePropMC`) with one `.cfg` per property family
  and tier; a case generator per family (`Gen*.tla`: TLC writes ndjson through `ndJsonSerialize`, partitioned by
  `GEN_PART/GEN_PARTS`); a trace specification per family (`Trace*.tla`, 16 of them).
* `harness/` - Go module (`cmd/drive` with 18 sub-commands, `internal/*` builders, lexers, projections; about
  @@GOLINES@@ lines), built from `/repo`'s working tree with `-tags verif` through a scratch `-modfile` on every run.
* `check`, `checks.py`, `vlib.py` - orchestration: `./check <ID> [--tier quick|thorough] [--replay file]`,
  `./check selftest`. `mkmanifest.py` regenerates `MANIFEST.json`; `known_findings.json`; `seedtool.sh` and
  `seeded/` (seeded changes); `tools/` (table generators for `StlTables` / `TeletextTables`).

All 20 properties have a check; `not_applicable` is empty. Quick tiers take 5-130 s each (about 12 minutes for
all twenty, measured on the idle 16-core sandbox), and every quick check was run on the unchanged tree with several
`VERIF_SEED` values.

### 10.2 Deviations from the plan in sections 0-8

* **Implementation layers.** Built as planned for the in-place list algorithms: `OpsImpl.tla` transcribes `Add`,
  `Fragment`, `Unfragment`, `ForceDuration` and the marking phase of `Optimize` one loop iteration per step (the
  loop variables are part of the state; Optimize's map-ranging loops pick the next key nondeterministically).
  `OpsImplMC` model-checks, for every list over the small constants, termination (`<>Done` under weak fairness),
  refinement of the normative relation (`Refines`), loop invariants (`AddInv`, `FragInv`, `UnfragInv`, `OptInv`) and,
  for Optimize, that the result does not depend on the map order; the flag `CLOSES = FALSE` is the pinned
  algorithm and violates `Refines` (part of `./check selftest`). `TraceOps` runs the same step functions on every
  recorded call and requires the *exact* list the code left (order among ties, which object survives, which pieces
  are new objects): a mismatch is `DRIFT`, counted as `impl_model_drift` in the evidence, never a violation
  (currently 0 on all of C09-C11, C14). Further implementation layers: `Scanner` (split function + driving loop +
  block reader, flags `CR_WAITS`, `CHECKS_ERR`, `BLOCK_LOOPS` naming the pinned vs. repaired behaviour), `Writers`
  (`SORTED`), `Conc` (`LEAKY`), `Session` (the file API and the tool as a state machine), `Teletext` (page
  assembly). **Reader loops:** `SrtCodec.ImplRead` is a line-by-line transcription of `ReadFromSRT` (pending
  lines, index look-back, cut at the first blank line, running style) and `SrtMC` checks `ImplRefines`
  (`ImplRead(D) = RefRead(D)` for every rendering of every truth); for WebVTT, SSA and STL the specification
  holds the *control state* of the loop (block name / tag-stack depth / pending comments / cue count; section /
  Format width / style and event rows; cue count and extension block number). All four are bound to the real
  loops through the `verif` hook events (`srt.line`, `vtt.line`, `ssa.line`, `stl.tti`): the driver records
  what the hook at the top of the loop saw on every line / block, and the trace specification requires the
  recorded sequence to equal the model's (`ImplHooks(D)`), reporting `DRIFT` otherwise (0 on every event of
  C01, C02, C04, C05). **Not built:** a content-level transcription of the WebVTT / SSA / TTML / STL readers (the
  TTML reader is `encoding/xml`-driven and has no loop of its own to hook). For those the specification holds the
  rendering relation, a *reference decoder written from the format description* and model-checked against every
  rendering, and the writer contract; a counterexample there is an input, not a model trace of the reader's
  variables. Every verdict still comes from the real code.
* **Beyond the listed properties: `StyleProp.tla`.** C07 names "cross-format attribute propagation" among its
  mechanisms, but its statement only speaks of cue count, order, times and text. The mechanism has a module of its
  own: an `SA` record is the observed part of one `StyleAttributes` value, a document is (cue-level `SA`, first
  run's `SA`, the two STL metadata fields the writer consults), and `Read[f]` / `Write[f]` transcribe the five
  readers' use of `propagateSRTAttributes`, `propagateWebVTTAttributes`, `propagateTTMLAttributes`,
  `propagateSTLAttributes` and what the five writers emit from the result (emphasis flags and tag stacks, the
  SubRip / TTML colour and the five WebVTT colour classes, cue alignment / line / position, STL justification, row
  with its teletext clamp and the row-to-line-percentage rule; a line's voice name, which lives in WebVTT and
  SubStation Alpha only; the format-neutral metadata Title / Language / Framerate / TTMLCopyright with the
  defaults `newGSIBlock` fills in). The deliberate deviations of the code are named in
  the module header (WebVTT -> SubRip loses emphasis because no reader sets `WebVTTBold`; TTML -> SubRip loses the
  colour while SubRip -> TTML keeps it; `{\\anN}` stays text; `WriteToSTL` justifies left at row 20 whatever the other
  formats said; `WriteToTTML` writes no `ttp:frameRate`). `StylePropMC` checks on all 5,950 (source, destination, look) triples that a written file is a
  fixpoint of read-write, that a same-format conversion keeps the look, and the survival / loss table. `drive
  styleprop` performs every one of those conversions on the real code; `TraceStyleProp` turns failure, a lost cue,
  changed text or changed times into C07 verdicts, and a look that differs from `Read[g](Write[g](Read[f](x)))`
  into `DRIFT` (0 on the current tree; 120 when `propagateSRTAttributes` is mutated - the stage notices, and the
  check rightly stays green because the statement does not cover styling). The first model was wrong in one place
  (rows 0 and 30 of a teletext-standard file are clamped to 1..23 by `validateVerticalPosition`); the trace
  validation showed it in 32 events and the model was corrected - the intended direction of learning.
* **`Writers.tla` keyed by map key.** A style map is now `key -> [id, attrs, css]` and the SSA writer's own table,
  keyed by *ID* and filled while ranging over the map, is part of the model (`SsaTable`): with `SORTED = "names"`
  (the tree after the first C19 repair) TLC finds the counterexample "two keys, one ID, different attributes";
  `"keys"` (current tree) is order-independent, `"names"` is order-independent when IDs are distinct
  (`MC_Writers_names_distinct.cfg`). This came from a sub-agent writing a behaviour-preserving refactoring, not
  from the model: the lists of C19 had only used key = ID. Generators and model were widened first (3,473
  violating events on the then-current tree), then the defect was repaired (`0f38ecf`).
* **Hooks.** Built: `verif_on.go` / `verif_off.go` (scanner and block-reader wrappers, table fingerprint, event hook
  variable) and one-line `verifEmit` calls in the SRT, WebVTT, SSA and STL reader loops. They fire at the *top* of the
  iteration (the state left by the previous lines, which is what the model's `Obs` reports), keyed by the
  `io.Reader`. The teletext reader got its hook late (`2a237d5`, top of `parsePacket`): the page buffer's control state
  (magazine, packet number, `receiving`, selected magazine / page) at every packet that reaches the dispatcher.
  `Teletext.CtlStep` transcribes `parsePacketHeader`; the first version predicted the normative decoder's state and
  drifted on 136 events - the code ends a page in serial mode only when the page *number* differs, so the header of the
  page with the same number in another magazine leaves `receiving` set. No well-formed stream can show that in its
  cues (`TeletextMC`: `CtlRefines`, lockstep with the normative decoder), so it is a named deviation of the
  implementation layer, not a finding; drift is now 0 on all eight families. The random drivers use `math/rand`
  with `VERIF_SEED`; `pgregory.net/rapid` is not used.
* **Known-finding predicates** live in the trace specification that judges the event (`TraceStl`: `ReplaceCp`;
  `TraceSession`: `SwapAll`), not in a separate `Deviations.tla`.
* **C16** is decided by TLC on the structured instant grid and the model-checked codec laws; in addition
  `spec/TimeLaws.tla` states the mixed-radix rendering laws (every field in range, recomposition = the instant
  truncated to the fraction's resolution, monotonicity) and the truncation laws used by C07 (idempotent, never later,
  less than a quantum earlier) over *unbounded* integers, and Apalache discharges them for every instant on every
  run of C16 (12 s; a falsified variant of the law is rejected).
* **`-coverage 1`** is not run per check; vacuity is guarded by `distinct_nontrivial` per property, by
  `Infra("vacuous run")` when nothing was validated, by C07's per-pair scope accounting (a (source, destination,
  entry) combination without an in-scope history is an infrastructure error), and by `./check selftest`.
* **`--replay`** re-executes the whole (seeded, deterministic) check and lets only the recorded case decide the
  exit status, instead of re-running a single case.
* **CLI coverage**: the tool is driven by C07 (every sub-command, all format pairs, flag validation), not by
  C09-C15 individually; those drive the library methods.
* Time budget figures of section 6 were planned; measured quick-tier times are in `evidence/*.json`.

### 10.3 Defects found on the pinned tree and repaired (`fix:` commits in /repo)

Each was first reported by the named check on the unchanged tree, reproduced on the real code (the replay
file), judged genuine by reading the code, repaired by one minimal unguarded commit with the unedited suite
passing, and recorded in `known_findings.json` as `fixed` (a fixed entry suppresses nothing: the check reports
the violation again if it returns - demonstrated for several of them by the seeded changes, which re-break
the same sites).

| property | commit | what failed |
|---|---|---|
%s

**Repairs of repairs.** Five of the later commits correct earlier `fix:` commits of this work, and they are listed
as what they are: `3878c0f` (STL writer defaults) was wider than the defect required and replaced blank GSI fields
(narrowed by `e15f046`); `7b014d6` added an unaligned programme start (completed by `b0f63af`); `be3a749` (teletext input
wrapper) spun on an input failing with `io.ErrUnexpectedEOF` (`0ebbb2c`), behind which a pre-existing swallowed fault
appeared (`08027ad`); `0f38ecf` / `637290a` left duplicate Style lines and a nil-entry panic in `WriteToSSA` (`b94162c`),
and `b94162c` / `94daab7` in turn left an empty styles block and block-like lines inside comments (`91b8933`). None of
these was found by the checks as they stood: they were found by sub-agents reading the code (a seed writer's remark, two
independent reviews of all `fix:` commits with a failing test per suspicion), after which the generators were widened
until the check reported the defect on the then-current tree, and only then was the code changed. The lesson recorded
here is about the technique: a bounded enumeration proves nothing about the values it does not hold (an error *value*,
a blank field, an unaligned duration), so every repair deserves a reviewer who reads the diff.

Three `verif:` commits add the guarded hooks (`ff470a3`: `verif_on.go` / `verif_off.go` with the scanner and
block-reader wrappers, the table fingerprint and the event hook variable; `c2660e5`: one-line `verifEmit` calls in
the SRT, WebVTT, SSA and STL reader loops; `2a237d5`: one line at the top of the teletext packet dispatcher). With the tag off `verifEmit` is an empty function and the suite passes.

### 10.4 Open known findings

* `stl-dollar-as-currency-sign` (C05) and its view through conversions `stl-dollar-as-currency-sign-c07` (C07):
  `WriteToSTL` encodes `$` as 24h, which the EBU Latin table and the library's own reader decode as the currency
  sign; the correct code is A4h. Witness: cue text `x$y` -> TTI text `78 24 79` -> read back `x(U+00A4)y`;
  `astisub convert -i testdata/example-opn-in.stl -o a.stl` and re-reading. The one-line repair changes
  `testdata/example-opn-out.stl`, compared byte for byte by `TestOPNSTL`, so it is not "small and safe" under the
  rule that the unedited suite must pass. The trace specifications label an event `kf:` only when the deviation
  is *exactly* this one (the re-read text equals the truth with code point 36 replaced by 164 and nothing else
  differs); any other difference on the same call is a VIOLATION. Both checks print their `KNOWN-FINDING` line
  and exit 0.

### 10.5 Scope decisions taken while building (each is an assumption recorded in the evidence)

* **C05** - teletext-display-standard rows without box codes (everything `WriteToSTL` emits) are text: repaired on
  the reader side, because changing the writer would change a golden file. Tri-state flags: a written file
  cannot distinguish "off" from "unset".
* **C04** - the event Format line keeps `Text` as its last column (the format description requires it).
* **C06** - arrow / dash look-alikes of two national sub-sets are accepted; the astits muxer is trusted for the
  transport layer of the generated streams.
* **C07** - the reference content of a source file is what its reader returns (C01-C06 decide reader fidelity on
  the same generators); instants are compared on a 1/3 ms grid; representable = EBU Latin repertoire and one TTI
  block for STL, no brace / backslash for SSA; linear correction inside sessions uses integral slopes; histories
  beyond the model's integer range or piece budget leave the scope and are counted.
* **C08** - a panic raised inside go-astits is the demultiplexer "itself crashing" (outside the quantifier);
  a `(nil, nil)` return of the demultiplexer is inside it and was a genuine defect (`3d1b809`).
* **C19 / C20** - map order and the scheduler cannot be driven: a differing output or a race report is a sound
  witness; silence is statistical (repetitions, processes, homogeneous scenarios are reported in the evidence).

### 10.6 Seeded changes: which check catches which

%s

345 property-breaking changes were written by sub-agents that saw only property texts and a scratch worktree: 47
"plausible refactoring" seeds in five batches, 96 mutation-testing style changes in three batches (four per source file or
area, including the command-line tool), 36 mutants aimed at one property each, 22 mutants of functions no earlier round
had touched, and 144 "subtle" seeds in four batches that only show under rare conditions (the later batches were given
the summaries of the earlier ones and asked for something else). 342 of them break a property as stated on the current tree and all 342 are
caught by the quick tier (the CLI mutants by C07, which drives the tool, and W4-2 by C19; `seeded/regression_final.txt` is the last
run of the first 321, `seeded/regression_w.txt` that of the 24 of the ninth batch). Three are not flagged, and should not be: C06-c is an equivalent change (it only merges two runs with
identical attributes); R1-2 changes a helper (`WebVTTTimestampMap.Offset`) that nothing in the library calls and no
statement mentions; C19-b (an inconsistent sort comparator in `WriteToSSA`) stopped being a violation when the repair
`0f38ecf` sorted the map keys first - its own demonstration passes on the current tree. P6-2 (wrong bits of an X/28 /
M/29 designation), which was outside the model for most of the work, is caught since family D models the designation.
About 124 of the 342 were missed or barely caught when first run (or would have been, judging
from their description, and were pre-empted) - 24, 15, 26 and 9 of the 40 + 40 + 40 + 24 subtle ones, which is what those
batches were for; every miss
was answered by widening a *generator* or the *model* (never by loosening an oracle, never by special-casing the seeded
input): new families (WebVTT N and K, TTML L and A, SSA I, teletext I, M and D), new rendering choices (per-row box
patterns, comment-like and non-dialogue lines in SubStation files, inline timestamps without hours, text-like bytes in
enhancement packets, prefixed TTML elements, a font tag with a leading attribute, a PCR on another time base), new value
classes (33-bit MPEG-TS time stamps, tick counts beyond 32 bits, times beyond 24 h, full-width GSI and text fields, literal
entity sequences, one-character runs, two-line text atoms, style names around "Default", file names with capitals, cues
without text, empty lines, texts that begin like block keywords, override blocks without text, sub-millisecond time units,
cues before zero, slope 0, blank GSI fields, a programme start that is not a whole number of frames, upper-case colour
spellings, zero-padded integers, signed numbers in GSI fields, filler look-alike cues, keys differing in case only,
multi-line comments, stacked combining marks, file names with several dots), new observations
(zero-valued reader options, Open with options, definitions stored under foreign map keys or sharing an ID, a
`bytes.Reader` reference delivery, faults whose error value is `io.ErrUnexpectedEOF`, a destination that exists already
or cannot be written, a text identity of the harness's own instead of `Item.String`, alone-runs repeated in the opposite
order and in fresh processes, aliasing probes, seekable short-read deliveries, unfaulted writes re-read for completeness,
twin parent objects, either order of the SubStation sections, designation codes, a destination that reports a fault
together with a full count, one-line documents without a final line break, supplied zero-instant dates, a write with the
caller's own options among default writes, a list whose last rendered instant is the first one of the next write) and a systematic pass of every operation kind over 16 goroutines for C20. Remarks of
sub-agents led to genuine defects being found and repaired: the teletext reader could not be driven through short reads
(`be3a749`), `WriteToSSA` depended on map order for styles sharing an ID (`0f38ecf`), the teletext input wrapper spun on
`io.ErrUnexpectedEOF` (`0ebbb2c`, `08027ad`). After each round earlier changes were re-run (`seedtool.sh runcopy`, a
scratch worktree selected through `VERIF_REPO`); the tables list the final state.

**Changes that must not be flagged.** 18 behaviour-preserving refactorings (B1-1 .. B6-3, three per group of source
files, written by six further sub-agents with a differential test each) were run against all 20 quick checks. One false
alarm was found (B4-3 on C17: the block-reader verdict depended on the wording of an error message; corrected, section 9).
After the generator additions of the ninth batch the checks that changed (C02, C04, C06, C16-C20) were re-run on the
refactorings of the code they exercise (34 runs, all silent: `seeded/benign_results/rerun_ninth_batch.txt`; B2-1 was rebased
onto `91b8933` first).
%s

**Independent review of the `fix:` commits.** Two further sub-agents reviewed the 36 repairs made so far against the 20
statements and had to demonstrate every suspicion by a failing test. Seven demonstrations: (1) `3878c0f` was wider than
necessary - blank display standard code and country replaced by defaults, rows clamped (regression, C05; repaired
`e15f046` after the C05 truths gained blank fields); (2) `7b014d6` added an unaligned programme start to the timecodes
(C16; repaired `b0f63af` after the C16 driver gained STL lists with a programme start); (3) `WriteToSSA` panicked on a
nil map entry and wrote a shared style name twice (C08 / C04; repaired `b94162c` after the shapes gained nil entries); (4) the `$`
of STL, which is the open known finding; (5) `a078adb` makes a line of exactly 65535 bytes followed by CR LF fail with
"token too long" where LF alone still fits - the reader needs one byte more than its buffer holds to decide, the statement of
C18 lets a line that "exceeds what the reader can buffer" end in an error, and the alternative (counting that CR LF as
two line breaks) is the defect `a078adb` repaired: left as it is, not a finding; (6) cue settings held by a *Style* are
not written for a cue without inline attributes: no reader produces such a list and C02 speaks of documents and the cue
lists they denote: not counted; (7) duplicate Style lines, see (3). The review found nothing in the teletext, TTML,
Fragment, Optimize, Merge, WebVTT tag-nesting and scanner repairs beyond these.

### 10.7 Binding self-test

`./check selftest` runs every quick check and, after each trace validation, re-validates one accepted trace file
twice with a single observed field corrupted (a cue end after an operation, the first integer of a projected
reader result, a re-read instant, a dropped scanner token, a result digest, an outcome, the end of the first cue of
a converted file, the text-preserved flag of a conversion, the receiving flag the teletext hook observed at a packet).
Every trace specification must flag exactly the corrupted event: 16 trace specifications, 32 corrupted events, all
rejected. It then model-checks the seven variants of the specification that describe a tree *with* a defect (the pinned
scanner with its three flags, the pinned writers, the writers after the first repair, the leaky concurrency model, the
pinned Optimize): TLC must find the violation in each. Last run: 39 of 39 (`selftest_result.json`, 13 minutes next to
a thorough run).

### 10.8 Per property: what the check enumerates, how it is bound, what the last run covered

(generated from `evidence/*.json`, i.e. from what the checks themselves report)

%s

---------------------------------------------------------------------------------------------------

''' % (fixed, seeds, benign, perprop)
import glob as _g2
_tla=_g2.glob('/verif/spec/*.tla')
_nl=sum(len(open(f).read().splitlines()) for f in _tla)
_go=sum(len(open(f).read().splitlines()) for f in _g2.glob('/verif/harness/cmd/drive/*.go')+_g2.glob('/verif/harness/internal/*/*.go'))
sec=sec.replace('@@NMOD@@',str(len(_tla))).replace('@@NLINES@@','{:,}'.format(round(_nl,-2))).replace('@@GOLINES@@','{:,}'.format(round(_go,-2)))
s=s.replace('## Appendix A', sec+'## Appendix A',1)
open(p,'w').write(s)
print(len(rows))
