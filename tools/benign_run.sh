#!/bin/bash
# benign_run.sh <id>... : run every quick check against each behaviour-preserving change /verif/seeded/<id>/patch.diff
# (scratch worktree, /repo untouched); any rc != 0 is a false alarm to investigate
OUT=${BENIGN_OUT:-/verif/seeded/benign_results}; mkdir -p $OUT
ALL="C01 C02 C03 C04 C05 C06 C07 C08 C09 C10 C11 C12 C13 C14 C15 C16 C17 C18 C19 C20"
for id in "$@"; do
  /verif/seedtool.sh runcopy $id $ALL > $OUT/$id.log 2>&1
  echo "$id: $(grep -c 'rc=0 ' $OUT/$id.log) ok, $(grep -vc 'rc=0 ' $OUT/$id.log) not ok"
done
